"""CLI: python -m vf.check <ID> [--tier quick|thorough] [--seed N] [--replay FILE]"""
import argparse
import os
import sys

from . import core


def main(argv=None):
    ap = argparse.ArgumentParser()
    ap.add_argument("prop")
    ap.add_argument("--tier", default=os.environ.get("VERIF_TIER", "quick"), choices=["quick", "thorough"])
    ap.add_argument("--seed", type=int, default=int(os.environ.get("VERIF_SEED", "0") or 0))
    ap.add_argument("--replay", default=None)
    ap.add_argument("--worker", action="store_true")
    ap.add_argument("--shard", type=int, default=0)
    ap.add_argument("--nshards", type=int, default=1)
    ap.add_argument("--replay-idx", type=int, default=None)
    ap.add_argument("--out", default=None)
    args = ap.parse_args(argv)
    args.prop = args.prop.upper()
    if args.worker:
        return core.run_worker(args)
    return core.run_parent(args)


if __name__ == "__main__":
    sys.exit(main())
