"""Matcher protocol monitor (C11), quality-bound monitor (C12) and helpers.

Reference list: obtained by plain stepping (is_active/id/next + reads) of a *fresh* matcher
for the same (query, searcher, context). Programs are then executed on other fresh matchers
and every observable is compared with the reference entry the model cursor points at.
"""
import math

TOL = 1e-9


def close(a, b, rel=1e-9):
    if a == b:
        return True
    try:
        return abs(a - b) <= rel * max(1.0, abs(a), abs(b))
    except TypeError:
        return False


class Entry(object):
    __slots__ = ("id", "score", "weight", "value", "spans", "terms")

    def __init__(self, id):
        self.id = id
        self.score = self.weight = self.value = self.spans = self.terms = None

    def brief(self):
        return {"id": self.id, "score": self.score}


def read_entry(m, scored, want_values=True):
    """Read everything readable at the current entry. Unsupported reads stay None."""
    e = Entry(m.id())
    if scored:
        e.score = m.score()
    try:
        e.weight = m.weight()
    except Exception:  # noqa - composite matchers need not support weight()
        e.weight = None
    if True:
        try:
            e.value = m.value() if want_values else None
        except Exception:  # noqa
            e.value = None
        try:
            e.terms = sorted(set(m.matching_terms()))
        except Exception:  # noqa
            e.terms = None
    if want_values:
        try:
            if m.supports("positions"):
                e.spans = [(s.start, s.end) for s in m.spans()]
        except Exception:  # noqa
            e.spans = None
    return e


def reference_list(make, scored, want_values=True, cap=100000):
    m = make()
    out = []
    while m.is_active():
        out.append(read_entry(m, scored, want_values))
        m.next()
        if len(out) > cap:
            raise RuntimeError("reference list exceeds cap")
    return out


class ProtocolViolation(Exception):
    def __init__(self, mech, detail):
        Exception.__init__(self, "%s: %s" % (mech, detail))
        self.mech = mech
        self.detail = detail


def mclass_tree(m, depth=0):
    name = type(m).__name__
    if depth > 6:
        return name
    try:
        ch = list(m.children())
    except Exception:  # noqa
        ch = []
    if not ch:
        return name
    return "%s(%s)" % (name, ",".join(mclass_tree(c, depth + 1) for c in ch))


def mclasses(m, acc=None, depth=0):
    acc = acc if acc is not None else set()
    acc.add(type(m).__name__)
    if depth < 8:
        try:
            for c in m.children():
                mclasses(c, acc, depth + 1)
        except Exception:  # noqa
            pass
    return acc


class Cursor(object):
    """Executes protocol operations on a real matcher while maintaining the model cursor."""

    def __init__(self, ctx, make, ref, scored, tag="", prefix="c11"):
        self.prefix = prefix
        self.ctx = ctx
        self.make = make
        self.ref = ref
        self.scored = scored
        self.m = make()
        self.i = 0
        self.replaced = False
        self.trace = []
        self.tag = tag
        self.top = type(self.m).__name__
        self.bounds = False
        self.qmax = None
        self.twins = []   # [matcher, model index]: other cursors over the same list (copies) that must stay independent

    # -- helpers
    def _cls(self):
        return type(self.m).__name__

    def viol(self, mech, detail):
        raise ProtocolViolation("%s:%s" % (self._cls(), mech), detail)

    def check_position(self, op):
        """Strict until a quality threshold has been used (self.qmax is None): the matcher must be
        exactly on ref[i]. After skip_to_quality(q) sub-matchers may legitimately have been moved past
        postings that cannot reach q, so the stream is a subsequence of the reference that still
        contains every entry scoring more than the largest threshold used (that is all the top-N
        collector relies on): entries passed silently must score <= qmax."""
        m, ref, i = self.m, self.ref, self.i
        self.ctx.count(self.prefix + ".position_checks")
        act = bool(m.is_active())
        if self.qmax is None:
            if act != (i < len(ref)):
                self.viol("%s:is_active" % op, "is_active=%r but model cursor %d of %d (next expected id %r)" % (
                    act, i, len(ref), ref[i].id if i < len(ref) else None))
            if act:
                got = m.id()
                if got != ref[i].id:
                    self.viol("%s:id" % op, "id=%r expected %r (model cursor %d)" % (got, ref[i].id, i))
            return
        if not act:
            j = len(ref)
        else:
            nid = m.id()
            j = i
            while j < len(ref) and ref[j].id < nid:
                j += 1
            if j >= len(ref) or ref[j].id != nid:
                self.viol("%s:id" % op, "on id %r which is not a remaining reference entry (model cursor %d)" % (nid, i))
        for e in ref[i:j]:
            if e.score is not None and e.score > self.qmax + TOL * max(1.0, abs(self.qmax)):
                self.viol("%s:lost-better-entry" % op, "after quality threshold %r the entry id %r scoring %r is no longer reachable" % (
                    self.qmax, e.id, e.score))
        self.i = j

    def check_reads(self, op):
        m, i = self.m, self.i
        if i >= len(self.ref):
            return
        exp = self.ref[i]
        self.ctx.count(self.prefix + ".read_checks")
        if (self.qmax is not None and exp.score is not None
                and exp.score <= self.qmax + TOL * max(1.0, abs(self.qmax))):
            # an entry that cannot beat a threshold already used may be reported with only part of its
            # score (a sub-matcher was moved past it); it must not be reported with MORE than its score
            got = m.score()
            if got > exp.score + 1e-9 * max(1.0, abs(exp.score)):
                self.viol("%s:score-inflated" % op, "score=%r > true score %r at id %r (threshold %r)" % (
                    got, exp.score, exp.id, self.qmax))
            self.ctx.count(self.prefix + ".degraded_reads_allowed")
            return
        if self.scored and exp.score is not None:
            got = m.score()
            if not close(got, exp.score):
                self.viol("%s:score" % op, "score=%r expected %r at id %r" % (got, exp.score, exp.id))
        if self.qmax is not None and self.qmax > 0:
            # once a positive quality threshold was used, sub-matchers that cannot contribute may have
            # been moved on: only ids and scores of the entries that can still win are pinned down
            return
        if exp.weight is not None:
            try:
                got = m.weight()
            except Exception as e:  # noqa
                got = e
            if isinstance(got, Exception) or not close(got, exp.weight):
                self.viol("%s:weight" % op, "weight=%r expected %r at id %r" % (got, exp.weight, exp.id))
        if exp.value is not None:
            try:
                got = m.value()
            except Exception as e:  # noqa
                got = e
            if isinstance(got, Exception) or got != exp.value:
                self.viol("%s:value" % op, "value=%r expected %r at id %r" % (got, exp.value, exp.id))
        if exp.spans is not None:
            try:
                got = [(s.start, s.end) for s in m.spans()]
            except Exception as e:  # noqa
                got = e
            if isinstance(got, Exception) or got != exp.spans:
                self.viol("%s:spans" % op, "spans=%r expected %r at id %r" % (got, exp.spans, exp.id))
        if exp.terms is not None:
            try:
                got = sorted(set(m.matching_terms()))
            except Exception as e:  # noqa
                got = e
            if isinstance(got, Exception) or got != exp.terms:
                self.viol("%s:matching_terms" % op, "terms=%r expected %r at id %r" % (got, exp.terms, exp.id))

    # -- operations
    def op_next(self):
        self.trace.append("next")
        self.m.next()
        self.i += 1
        self.check_position("next")

    def op_skip_to(self, t):
        self.trace.append("skip_to(%d)" % t)
        self.m.skip_to(t)
        while self.i < len(self.ref) and self.ref[self.i].id < t:
            self.i += 1
        self.check_position("skip_to")

    def op_reads(self):
        self.trace.append("reads")
        self.check_reads("reads")

    def op_replace0(self):
        self.trace.append("replace(0)")
        r = self.m.replace(0)
        if r is None:
            self.viol("replace", "replace() returned None")
        self.m = r
        self.replaced = True
        self.check_position("replace0")

    def op_reset(self):
        self.trace.append("reset")
        self.m.reset()
        self.i = 0
        self.check_position("reset")

    def op_copy(self, advance, follow_copy):
        self.trace.append("copy(adv=%d,follow=%s)" % (advance, follow_copy))
        c = self.m.copy()
        if c is None:
            self.viol("copy", "copy() returned None")
        old_i = self.i
        # advance the original; the copy must stay where it was
        for _ in range(advance):
            if not self.m.is_active():
                break
            self.m.next()
            self.i += 1
        self.check_position("copy:original-after-advance")
        orig, orig_i = self.m, self.i
        self.m, self.i = c, old_i
        self.check_position("copy:copy-unmoved")
        self.check_reads("copy:copy-reads")
        # keep the other cursor alive as a twin: whatever happens to one must never move the other
        if follow_copy:
            self.twins.append([orig, orig_i])
        else:
            self.twins.append([c, old_i])
            self.m, self.i = orig, orig_i
        del self.twins[:-2]

    def check_twins(self, op):
        """Every live copy/original pair is an independent cursor: operations on the main cursor must
        not have moved a twin (position and score are re-read)."""
        if self.qmax is not None and self.qmax > 0:
            return
        for tw in self.twins:
            tm, ti = tw
            self.ctx.count(self.prefix + ".twin_checks")
            act = bool(tm.is_active())
            if act != (ti < len(self.ref)):
                self.viol("%s:twin:is_active" % op, "a copy taken earlier changed activity (is_active=%r, its cursor %d of %d) after %s on the other cursor" % (
                    act, ti, len(self.ref), op))
            if act:
                got = tm.id()
                if got != self.ref[ti].id:
                    self.viol("%s:twin:id" % op, "a copy taken earlier moved from id %r to %r after %s on the other cursor" % (
                        self.ref[ti].id, got, op))
                if self.scored and self.ref[ti].score is not None:
                    sc = tm.score()
                    if not close(sc, self.ref[ti].score):
                        self.viol("%s:twin:score" % op, "a copy taken earlier now scores %r instead of %r at id %r" % (sc, self.ref[ti].score, got))

    def op_twin(self, what, arg=None):
        """Operate on the most recent twin, then make sure the MAIN cursor did not move."""
        if not self.twins:
            return
        tw = self.twins[-1]
        tm, ti = tw
        self.trace.append("twin.%s%s" % (what, "" if arg is None else "(%r)" % (arg,)))
        if what == "next":
            if ti < len(self.ref):
                tm.next()
                tw[1] = ti + 1
        elif what == "reset":
            if not self.replaced:
                tm.reset()
                tw[1] = 0
        elif what == "skip_to":
            if ti < len(self.ref):
                tm.skip_to(arg)
                while tw[1] < len(self.ref) and self.ref[tw[1]].id < arg:
                    tw[1] += 1
        self.check_position("twin.%s:main-unmoved" % what)
        self.check_reads("twin.%s:main-reads" % what)
        self.check_twins("twin.%s" % what)

    def op_skip_to_quality(self, q):
        """C12: never passes an entry scoring more than q; lands on a reference entry."""
        self.trace.append("skip_to_quality(%r)" % q)
        i0 = self.i
        self.m.skip_to_quality(q)
        self.ctx.count("c12.skip_to_quality_checks")
        if q > 0 or self.qmax is not None:
            self.qmax = q if self.qmax is None else max(self.qmax, q)
            self.check_position("skip_to_quality")
        else:
            # threshold <= 0: entries scoring <= q may be passed, nothing else
            save = self.qmax
            self.qmax = q
            try:
                self.check_position("skip_to_quality")
            finally:
                self.qmax = save
        if self.i != i0:
            self.ctx.count("c12.skip_to_quality_moved")

    def op_replace_q(self, q):
        """C12: replace(q) never removes an entry scoring more than q (and keeps its score);
        everything the replacement yields is a remaining reference entry."""
        self.trace.append("replace(%r)" % q)
        r = self.m.replace(q)
        self.ctx.count("c12.replace_checks")
        if r is None:
            self.viol("replace", "replace(q) returned None")
        qeff = q if self.qmax is None else max(q, self.qmax)
        rest = {e.id: e for e in self.ref[self.i:]}
        got = {}
        last = -1
        n = 0
        while r.is_active():
            did = r.id()
            if did <= last:
                self.viol("replace_q:order", "ids not increasing after replace(%r): %r then %r" % (q, last, did))
            last = did
            if did not in rest:
                self.viol("replace_q:foreign-entry", "replace(%r) yields id %r which is not a remaining entry" % (q, did))
            got[did] = r.score() if self.scored else None
            r.next()
            n += 1
            if n > len(rest) + 5:
                self.viol("replace_q:runaway", "replacement yields more entries than remain")
        dropped = 0
        for did, e in rest.items():
            if e.score is None:
                continue
            better = e.score > qeff + TOL * max(1.0, abs(qeff))
            if did not in got:
                dropped += 1
                if better:
                    self.viol("replace_q:dropped-better-entry",
                              "replace(%r) dropped id %r whose score is %r" % (q, did, e.score))
            elif better and not close(got[did], e.score):
                self.viol("replace_q:score-changed",
                          "after replace(%r) id %r scores %r, before %r" % (q, did, got[did], e.score))
        if dropped:
            self.ctx.count("c12.replace_pruned")
        # the replacement has been consumed: the program ends here
        self.i = len(self.ref)
        self.m = r

    def check_bounds(self):
        """C12: block_quality() >= score of the current entry; max_quality() >= every remaining score.
        After a quality threshold q was used, entries that cannot beat q may be partially scored, so the
        bounds have to dominate (a) what the matcher itself reports for the current entry and (b) the
        true score of every remaining entry that can still beat q."""
        m = self.m
        if not (self.scored and m.is_active() and m.supports_block_quality()):
            return
        self.ctx.count("c12.bound_checks")
        cur = self.ref[self.i]
        qmax = self.qmax
        bq = m.block_quality()
        own = m.score()

        def live(e):
            return e.score is not None and (qmax is None or e.score > qmax + TOL * max(1.0, abs(qmax)))
        if bq < own - TOL * max(1.0, abs(own)):
            self.viol("block_quality<score", "block_quality=%r < score()=%r at id %r" % (bq, own, cur.id))
        if live(cur) and bq < cur.score - TOL * max(1.0, abs(cur.score)):
            self.viol("block_quality<score", "block_quality=%r < score=%r at id %r" % (bq, cur.score, cur.id))
        mq = m.max_quality()
        rest = [e.score for e in self.ref[self.i:] if live(e)] + [own]
        rest_max = max(rest)
        if mq < rest_max - TOL * max(1.0, abs(rest_max)):
            self.viol("max_quality<remaining-score", "max_quality=%r < a remaining score %r (at id %r, cursor %d)" % (
                mq, rest_max, cur.id, self.i))


def gen_program(rng, ref, allow_quality, allow_reset=True, length=(4, 14)):
    """A finite program over the protocol; targets chosen relative to the reference ids."""
    n = rng.randint(*length)
    prog = []
    ids = [e.id for e in ref]
    maxid = (ids[-1] if ids else 0)
    for _ in range(n):
        r = rng.random()
        if r < 0.28:
            prog.append(("next",))
        elif r < 0.55:
            if ids and rng.random() < 0.7:
                base = rng.choice(ids)
                t = base + rng.choice([-1, 0, 0, 1])
            else:
                t = rng.randint(0, maxid + 3)
            prog.append(("skip_to", max(0, t)))
        elif r < 0.70:
            prog.append(("reads",))
        elif r < 0.78:
            prog.append(("replace0",))
        elif r < 0.84:
            prog.append(("copy", rng.randint(0, 3), rng.random() < 0.5))
        elif r < 0.87:
            what = rng.choice(["next", "next", "reset", "skip_to"])
            prog.append(("twin", what, (rng.choice(ids) if ids else 0) if what == "skip_to" else None))
        elif r < 0.91 and allow_reset:
            prog.append(("reset",))
        elif r < 0.96 and allow_quality:
            prog.append(("skip_to_quality0",))
        else:
            prog.append(("bounds",))
    return prog


def gen_quality_program(rng, ref, length=(3, 10)):
    """Program for C12: protocol moves interleaved with skip_to_quality(q) for thresholds at, below and
    above remaining scores, optionally ending with replace(q) (which consumes the matcher)."""
    ids = [e.id for e in ref]
    scores = sorted(set(e.score for e in ref if e.score is not None))
    maxid = ids[-1] if ids else 0

    def threshold():
        r = rng.random()
        if not scores or r < 0.15:
            return 0
        if r < 0.25:
            return -1.5
        if r < 0.65:
            return rng.choice(scores)
        if r < 0.8:
            return rng.choice(scores) * rng.choice([0.999, 1.001])
        if r < 0.9:
            return (scores[0] + scores[-1]) / 2.0
        return scores[-1] * 2 + 1
    prog = []
    for _ in range(rng.randint(*length)):
        r = rng.random()
        if r < 0.3:
            prog.append(("next",))
        elif r < 0.45:
            t = (rng.choice(ids) + rng.choice([-1, 0, 1])) if ids else rng.randint(0, maxid + 2)
            prog.append(("skip_to", max(0, t)))
        elif r < 0.8:
            prog.append(("skip_to_quality", threshold()))
        elif r < 0.88:
            prog.append(("replace0",))
        else:
            prog.append(("bounds",))
    if rng.random() < 0.6:
        prog.append(("replace_q", threshold()))
    return prog


def gen_copy_program(rng, ref):
    """Copy stress: move well into the list, copy, then reset / step BOTH cursors alternately; every step
    re-checks the other cursor (a copy must stay independent of its original whatever either does later)."""
    ids = [e.id for e in ref]
    prog = [("skip_to", rng.choice(ids[len(ids) // 2:]))]
    prog.append(("copy", rng.randint(0, 2), rng.random() < 0.5))
    for _ in range(rng.randint(4, 10)):
        r = rng.random()
        if r < 0.2:
            prog.append(("reset",))
        elif r < 0.45:
            prog.append(("next",))
        elif r < 0.6:
            prog.append(("twin", "reset", None))
        elif r < 0.85:
            prog.append(("twin", "next", None))
        elif r < 0.93:
            prog.append(("twin", "skip_to", rng.choice(ids)))
        else:
            prog.append(("skip_to", rng.choice(ids)))
    return prog


def run_program(cur, prog):
    """Execute prog on Cursor cur; raises ProtocolViolation."""
    cur.check_position("fresh")
    for op in prog:
        kind = op[0]
        active = cur.i < len(cur.ref)
        if kind == "next":
            if active:
                cur.op_next()
        elif kind == "skip_to":
            if active:
                cur.op_skip_to(op[1])
        elif kind == "reads":
            cur.op_reads()
        elif kind == "replace0":
            cur.op_replace0()
        elif kind == "copy":
            cur.op_copy(op[1], op[2])
        elif kind == "twin":
            cur.op_twin(op[1], op[2])
        elif kind == "reset":
            if not cur.replaced:
                cur.op_reset()
        elif kind == "skip_to_quality0":
            if active and cur.scored and cur.m.supports_block_quality():
                cur.op_skip_to_quality(0)
        elif kind == "skip_to_quality":
            if active and cur.scored and cur.m.supports_block_quality():
                cur.op_skip_to_quality(op[1])
        elif kind == "replace_q":
            # thresholds are only meaningful for matchers that report quality support (C12 statement;
            # the collectors pass a threshold to replace() only then)
            if cur.scored and cur.m.supports_block_quality():
                cur.op_replace_q(op[1])
                return
        elif kind == "bounds":
            if cur.bounds:
                cur.check_bounds()
        if cur.i < len(cur.ref):
            cur.check_reads(kind)
            if cur.bounds:
                cur.check_bounds()
        if cur.twins:
            cur.check_twins(kind)
