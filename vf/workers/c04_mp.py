"""MpWriter (procs=2) as one of the racing writers for C04, in its own interpreter (a dead or hung sub-writer process can only
cost the caller a timeout).

usage: python -m vf.workers.c04_mp <dir> <mode> <multisegment 0|1> <seed>
    mode in {commit, cancel, with-exception, mp-second}
      commit / cancel / with-exception : an MpWriter holds the index (documents fed, sub-writer processes running); meanwhile a
          second ix.writer() is attempted from the same thread, from another thread and from another (forked) process; then the
          MpWriter finishes the given way; then a fresh writer adds a document and commits.
      mp-second : a plain writer holds the index; MpWriter(ix, timeout=small) is attempted meanwhile (must raise LockError);
          the plain writer commits; then an MpWriter is obtained, fed and committed.
prints one JSON line with everything observed; exit 0 when the scenario ran (the verdict is the caller's); exit 3: whoosh
raised where nothing may be raised; exit 4: harness problem.
"""
import json
import os
import random
import sys
import threading
import time
import traceback


class Boom(Exception):
    pass


def attempt(ix, timeout, delay=0.01):
    """-> ("lockerror" | "ok", seconds waited). An obtained writer is cancelled at once."""
    from whoosh import index
    t0 = time.monotonic()
    try:
        w = ix.writer(timeout=timeout, delay=delay)
    except index.LockError:
        return "lockerror", time.monotonic() - t0
    w.cancel()
    return "ok", time.monotonic() - t0


def attempt_in_thread(ix, timeout):
    box = {}

    def body():
        try:
            box["r"] = attempt(ix, timeout)
        except Exception as e:  # noqa
            box["r"] = ("exc:%s" % type(e).__name__, 0.0)
    t = threading.Thread(target=body)
    t.start()
    t.join(60)
    return box.get("r", ("hang", 60.0))


def attempt_in_process(d, timeout):
    """A forked process opens the directory itself and asks for a writer. exit 7 = LockError, 0 = obtained, 9 = exception."""
    from whoosh import index
    pid = os.fork()
    if pid == 0:
        code = 9
        try:
            ix = index.open_dir(d)
            r, _ = attempt(ix, timeout)
            code = 7 if r == "lockerror" else 0
        except BaseException:  # noqa
            code = 9
        finally:
            os._exit(code)
    deadline = time.time() + 60
    while time.time() < deadline:
        p, st = os.waitpid(pid, os.WNOHANG)
        if p:
            code = os.waitstatus_to_exitcode(st)
            return {7: "lockerror", 0: "ok"}.get(code, "exit:%s" % code)
        time.sleep(0.005)
    os.kill(pid, 9)
    os.waitpid(pid, 0)
    return "hang"


def reap(w):
    n = 0
    for t in list(getattr(w, "tasks", ())):
        try:
            if t.is_alive():
                n += 1
                t.kill()
            t.join(5)
        except Exception:  # noqa
            pass
    return n


def ids_of(ix):
    with ix.searcher() as s:
        return sorted(f["id"] for f in s.all_stored_fields())


def main(argv):
    d, mode, multiseg, seed = argv[0], argv[1], argv[2] == "1", argv[3]
    from vf import core
    core.bootstrap()
    core.private_tmp()
    from whoosh import fields, index
    from whoosh.multiproc import MpWriter
    rng = random.Random("c04-mp:" + seed)
    random.seed("c04-mp-global:" + seed)
    schema = fields.Schema(id=fields.ID(stored=True, unique=True), t=fields.TEXT(stored=True))
    out = {"mode": mode, "multisegment": multiseg}
    mw = None
    try:
        ix = index.create_in(d, schema)
        w = ix.writer()
        w.add_document(id=u"a", t=u"alfa")
        w.commit()
        out["g0"] = ix.latest_generation()
        ndocs = rng.randint(3, 6)
        batch = rng.choice([1, 2])
        small = rng.choice([0.02, 0.05])
        out["small_timeout"] = small
        if mode == "mp-second":
            w1 = ix.writer()
            w1.add_document(id=u"p0", t=u"papa")
            t0 = time.monotonic()
            try:
                mw = MpWriter(ix, procs=2, batchsize=batch, multisegment=multiseg, timeout=small, delay=0.01)
                out["mp_while_held"] = "ok"
                mw.cancel()
                reap(mw)
            except index.LockError:
                out["mp_while_held"] = "lockerror"
            out["mp_while_held_waited"] = time.monotonic() - t0
            w1.commit()
            out["g_after_first"] = ix.latest_generation()
            mw = MpWriter(ix, procs=2, batchsize=batch, multisegment=multiseg, timeout=0)
            for i in range(ndocs):
                mw.add_document(id=u"m%d" % i, t=u"mike bravo")
            out["nested_while_mp"] = attempt(ix, 0.0)[0]
            mw.commit()
            out["alive_after_finish"] = reap(mw)
            out["g_after_mp"] = ix.latest_generation()
            out["expected_ids"] = sorted(["a", "p0", "z"] + ["m%d" % i for i in range(ndocs)])
        else:
            mw = MpWriter(ix, procs=2, batchsize=batch, multisegment=multiseg)
            out["mp_generation_attr"] = mw.generation
            for i in range(ndocs - 1):
                mw.add_document(id=u"m%d" % i, t=u"mike bravo")
            if rng.random() < 0.5:
                mw.delete_by_term("id", u"a")
                out["deleted_a"] = True
            out["subwriters_running"] = sum(1 for t in mw.tasks if t.is_alive())
            r, waited = attempt(ix, small)
            out["same_thread"], out["same_thread_waited"] = r, waited
            r, waited = attempt_in_thread(ix, rng.choice([0.0, small]))
            out["other_thread"] = r
            out["other_process"] = attempt_in_process(d, rng.choice([0.0, small]))
            out["g_while_held"] = ix.latest_generation()
            mw.add_document(id=u"m%d" % (ndocs - 1), t=u"mike bravo")
            if mode == "commit":
                mw.commit(merge=rng.random() < 0.5)
            elif mode == "cancel":
                mw.cancel()
            else:
                try:
                    with mw:
                        raise Boom()
                except Boom:
                    pass
            out["alive_after_finish"] = reap(mw)
            out["g_after_mp"] = ix.latest_generation()
            exp = ["z"]
            if mode == "commit":
                exp += ["m%d" % i for i in range(ndocs)]
            if not (mode == "commit" and out.get("deleted_a")):
                exp.append("a")
            out["expected_ids"] = sorted(exp)
        out["ids_after_mp"] = ids_of(ix)
        out["other_process_after"] = attempt_in_process(d, 0.0)
        try:
            w2 = ix.writer(timeout=0.0)
            w2.add_document(id=u"z", t=u"zulu")
            w2.commit(merge=False)
            out["fresh_writer"] = "ok"
        except index.LockError:
            out["fresh_writer"] = "lockerror"
        out["g_final"] = ix.latest_generation()
        out["ids_final"] = ids_of(ix)
    except Exception as e:  # noqa
        traceback.print_exc()
        site, in_harness = core.whoosh_site(e)
        out["error"] = "%s@%s" % (type(e).__name__, site)
        print(json.dumps(out))
        sys.stdout.flush()
        if mw is not None:
            reap(mw)
        return 4 if in_harness else 3
    finally:
        if mw is not None:
            reap(mw)
    print(json.dumps(out))
    sys.stdout.flush()
    return 0


if __name__ == "__main__":
    sys.exit(main(sys.argv[1:]))
