"""Racing writer process for C04 (free-running, seeded random delays injected at storage events).

usage: python -m vf.workers.c04_writer <dir> <proc-id> <seed-string> <attempts> <log.jsonl> <compound 0|1>
Appends one JSON line per client-side operation: {proc, attempt, op, args, t_call, t_return, result, ...} with
time.monotonic() (system-wide on Linux, so the parent can order the records of all processes).
exit 0: done; exit 3: an exception came out of whoosh (line 'C04-WORKER-WHOOSH-EXC <Type>@<site>' printed).
"""
import json
import random
import sys
import time
import traceback


class Boom(Exception):
    pass


def main(argv):
    d, proc, seedstr, nattempts, logpath, compound = argv[0], int(argv[1]), argv[2], int(argv[3]), argv[4], argv[5] == "1"
    from vf import core
    core.bootstrap()
    core.private_tmp()
    from vf.tap import Tap
    from whoosh import index, writing
    rng = random.Random("c04-proc:" + seedstr)
    drng = random.Random("c04-proc-delay:" + seedstr)
    random.seed("c04-proc-global:" + seedstr)       # segment names must differ between processes
    tap = Tap(root=d, unbuffered=False, track=False, keep_events=False)
    pdelay = rng.choice([0.02, 0.1, 0.3])

    def on_event(n, kind, name, detail):
        if drng.random() < pdelay:
            time.sleep(drng.choice([0.0002, 0.001, 0.004]))
    tap.on_event = on_event
    tap.install()
    log = open(logpath, "a")

    def emit(rec):
        log.write(json.dumps(rec) + "\n")
        log.flush()
    vocab = ["alfa", "bravo", "charlie", "delta"]
    try:
        ix = index.open_dir(d)
        for j in range(nattempts):
            delay = rng.choice([0.005, 0.02])
            timeout = rng.choice([0.0, 0.0, 0.03, 0.2, 3.0])
            rec = {"proc": proc, "attempt": j, "op": "writer", "args": {"timeout": timeout, "delay": delay}}
            rec["t_call"] = time.monotonic()
            try:
                w = ix.writer(timeout=timeout, delay=delay, compound=compound)
            except index.LockError:
                rec["t_return"] = time.monotonic()
                rec["result"] = "lockerror"
                emit(rec)
                time.sleep(rng.choice([0, 0.002, 0.02]))
                continue
            rec["t_return"] = time.monotonic()
            rec["result"] = "ok"
            rec["gen"] = w.generation
            with w.searcher() as s:
                keys = sorted(sf["id"] for sf in s.all_stored_fields())
            rec["keys_under_lock"] = keys
            emit(rec)
            adds = {}
            for i in range(rng.randint(1, 3)):
                adds["p%d.%d.%d" % (proc, j, i)] = " ".join(rng.choice(vocab) for _ in range(2))
            dels = rng.sample(keys, min(len(keys), rng.randint(0, 2))) if rng.random() < 0.5 else []
            for k, t in sorted(adds.items()):
                w.add_document(id=k, t=t)
            for k in dels:
                w.delete_by_term("id", k)
            kind = rng.choice(["default", "nomerge", "optimize", "with", "cancel", "exception", "clear"
                               if rng.random() < 0.3 else "default"])
            time.sleep(rng.choice([0, 0, 0.001, 0.01]))
            f = {"proc": proc, "attempt": j, "op": "finish", "args": {"kind": kind}, "gen": w.generation,
                 "adds": adds, "dels": dels, "clear": kind == "clear"}
            f["t_call"] = time.monotonic()
            if kind == "cancel":
                w.cancel()
                f["result"] = "cancelled"
            elif kind == "exception":
                try:
                    with w:
                        raise Boom()
                except Boom:
                    pass
                f["result"] = "cancelled"
            elif kind == "with":
                with w:
                    pass
                f["result"] = "committed"
            else:
                kw = {"default": {}, "nomerge": {"merge": False}, "optimize": {"optimize": True},
                      "clear": {"mergetype": writing.CLEAR}}[kind]
                w.commit(**kw)
                f["result"] = "committed"
            f["t_return"] = time.monotonic()
            emit(f)
            time.sleep(rng.choice([0, 0.001, 0.01]))
    except Exception as e:  # noqa
        site, in_harness = core.whoosh_site(e)
        traceback.print_exc()
        if in_harness:
            return 4
        print("C04-WORKER-WHOOSH-EXC %s@%s" % (type(e).__name__, site))
        return 3
    finally:
        log.close()
    return 0


if __name__ == "__main__":
    sys.exit(main(sys.argv[1:]))
