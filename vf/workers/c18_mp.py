"""MpWriter driver for C18: executes one history with the multi-process writer in its own interpreter so that a
dead or hung pool child can only cost the parent a timeout.

usage: python -m vf.workers.c18_mp <job.pickle>      (job = {history, cfg, seed, dir})
exit 0: history executed; exit 3: an exception came out of whoosh (line 'C18-WORKER-WHOOSH-EXC <Type>@<site>' printed);
any other exit code: harness problem.
"""
import pickle
import random
import sys
import traceback


def main(argv):
    from vf import core
    core.bootstrap()
    core.private_tmp()
    with open(argv[0], "rb") as f:
        job = pickle.load(f)
    from vf.props import c18
    from whoosh.filedb.filestore import FileStorage
    random.seed(job["seed"])
    cfg = dict(job["cfg"])
    cfg.pop("toram_at", None)      # the parent copies to RAM after the run
    st = FileStorage(job["dir"], supports_mmap=(cfg["storage"] != "nommap"))
    try:
        c18.run_history_inproc(st, job["history"], cfg, random.Random(job["seed"]), {})
    except Exception as e:  # noqa
        site, in_harness = core.whoosh_site(e)
        traceback.print_exc()
        if in_harness:
            return 4
        print("C18-WORKER-WHOOSH-EXC %s@%s" % (type(e).__name__, site))
        return 3
    return 0


if __name__ == "__main__":
    sys.exit(main(sys.argv[1:]))
