"""Crash victim for C02: executes one transaction on a directory under a *passive* storage tap (real, buffered
file objects exactly as whoosh opens them) and SIGKILLs itself from the tap callback just before event k.

usage: python -m vf.workers.c02_victim <dir> <tx-json> <global-random-seed-string> <k>
exit: killed by SIGKILL (rc -9) when event k was reached; 0 when the transaction had fewer than k events.
"""
import json
import os
import random
import signal
import sys


def main(argv):
    d, txjson, seedstr, k = argv[0], argv[1], argv[2], int(argv[3])
    from vf import core
    core.bootstrap()
    if hasattr(core, "private_tmp"):
        core.private_tmp()      # RamStorage temp files (add_reader / BufferedWriter) must not collide with other processes
    from vf.tap import Tap
    from vf.props import c02
    tx = json.loads(txjson)
    tap = Tap(root=os.path.dirname(os.path.abspath(d)), unbuffered=False, track=False, keep_events=False)

    def on_event(n, kind, name, detail):
        if n == k:
            os.kill(os.getpid(), signal.SIGKILL)
    tap.on_event = on_event
    tap.install()
    random.seed(seedstr)
    c02.exec_tx(d, tx)
    return 0


if __name__ == "__main__":
    sys.exit(main(sys.argv[1:]))
