"""Fork-while-locked scenario for C04: a writer holds the index lock, the process forks (os.fork - what a pre-forking
server or multiprocessing's fork start method does), the writer then finishes (commit / cancel / failing with-block /
BufferedWriter flush) while the forked child is still alive. The lock must be free afterwards: a second writer opens.

usage: python -m vf.workers.c04_fork <dir> <mode> <seed>      mode in {commit, cancel, with-exception, buffered}
prints one JSON line {"mode", "second_writer": "ok"|"lockerror"|"exc:<Type>", "docs": [...], "generation": n}
exit 0 always when the scenario ran (the verdict is in the JSON); exit 3: whoosh raised outside the second-writer attempt.
"""
import json
import os
import random
import sys
import traceback


class Boom(Exception):
    pass


def main(argv):
    d, mode, seed = argv[0], argv[1], argv[2]
    from vf import core
    core.bootstrap()
    core.private_tmp()
    from whoosh import fields, index, writing
    random.seed("c04-fork:" + seed)
    schema = fields.Schema(id=fields.ID(stored=True, unique=True), t=fields.TEXT(stored=True))
    ix = index.create_in(d, schema)
    w = ix.writer()
    w.add_document(id=u"a", t=u"alfa")
    w.commit()
    r, wfd = os.pipe()
    out = {"mode": mode}
    pid = None
    try:
        if mode == "buffered":
            bw = writing.BufferedWriter(ix, period=None, limit=100)
            bw.add_document(id=u"b", t=u"bravo")
        else:
            w = ix.writer()
            w.add_document(id=u"b", t=u"bravo")
        pid = os.fork()
        if pid == 0:
            # the child never touches the index: it only lives on, holding copies of the parent's descriptors
            try:
                os.close(wfd)
                os.read(r, 1)
            finally:
                os._exit(0)
        os.close(r)
        if mode == "commit":
            w.commit()
        elif mode == "cancel":
            w.cancel()
        elif mode == "with-exception":
            try:
                with w:
                    raise Boom()
            except Boom:
                pass
        elif mode == "buffered":
            bw.commit()          # commits the held writer and re-opens one
            bw.add_document(id=u"c", t=u"charlie")
            bw.close()
        try:
            w2 = ix.writer(timeout=1.0, delay=0.05)
            w2.add_document(id=u"z", t=u"zulu")
            w2.commit()
            out["second_writer"] = "ok"
        except index.LockError:
            out["second_writer"] = "lockerror"
        with ix.searcher() as s:
            out["docs"] = sorted(f["id"] for f in s.all_stored_fields())
        out["generation"] = ix.latest_generation()
    except Exception as e:  # noqa
        traceback.print_exc()
        site, in_harness = core.whoosh_site(e)
        out["error"] = "%s@%s" % (type(e).__name__, site)
        print(json.dumps(out))
        return 4 if in_harness else 3
    finally:
        try:
            os.close(wfd)        # lets the child exit
        except OSError:
            pass
        if pid:
            try:
                os.waitpid(pid, 0)
            except OSError:
                pass
    print(json.dumps(out))
    return 0


if __name__ == "__main__":
    sys.exit(main(sys.argv[1:]))
