"""Subprocess entry points (crash victims, racing writers)."""
