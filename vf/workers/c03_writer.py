"""Scripted writer process for C03 (free-running, seeded random delays injected at storage events).

usage: python -m vf.workers.c03_writer <job.json>     job = {dir, script: [tx...], compound, seed}
Every transaction of the script is committed in order (one generation each), so the parent knows the model of every
generation in advance.  exit 0: done; exit 3: an exception came out of whoosh ('C03-WORKER-WHOOSH-EXC <Type>@<site>').
"""
import json
import random
import sys
import time
import traceback


def main(argv):
    with open(argv[0]) as f:
        job = json.load(f)
    from vf import core
    core.bootstrap()
    core.private_tmp()
    from vf.props import c03
    from vf.tap import Tap
    from whoosh import index
    drng = random.Random("c03-proc-delay:" + job["seed"])
    random.seed("c03-proc-global:" + job["seed"])
    tap = Tap(root=job["dir"], unbuffered=False, track=False, keep_events=False)
    p = drng.choice([0.01, 0.05, 0.2])

    def on_event(n, kind, name, detail):
        if drng.random() < p:
            time.sleep(drng.choice([0.0005, 0.002, 0.01]))
    tap.on_event = on_event
    tap.install()
    try:
        ix = index.open_dir(job["dir"])
        time.sleep(0.05)
        for tx in job["script"]:
            tx["ops"] = [tuple(op) for op in tx["ops"]]
            w = ix.writer(timeout=5.0, compound=job["compound"])
            c03.apply_tx(w, tx)
            c03.finish_tx(w, tx)
            time.sleep(drng.choice([0, 0.01, 0.05, 0.15]))
    except Exception as e:  # noqa
        site, in_harness = core.whoosh_site(e)
        traceback.print_exc()
        if in_harness:
            return 4
        print("C03-WORKER-WHOOSH-EXC %s@%s" % (type(e).__name__, site))
        return 3
    return 0


if __name__ == "__main__":
    sys.exit(main(sys.argv[1:]))
