"""Canonical *logical dump* of an IndexReader, keyed by a stored unique key (not by doc number).

Two indexes holding the same live documents must produce equal dumps whatever their segment
layout (C02, C03, C06, C18). Layout-dependent statistics (doc_count_all, df/cf when deleted
documents are still physically present) are returned separately under "stats".
"""
import struct


def _f32(x):
    return struct.unpack("<f", struct.pack("<f", x))[0]


def field_items(reader):
    """(name, field) for every static field of the schema AND every concrete name of a dynamic (glob) field that
    has terms in this reader (dynamic names are not listed by Schema.items())."""
    schema = reader.schema
    names = set(schema.names())
    try:
        names.update(n for n in reader.indexed_field_names() if n in schema)
    except Exception:  # noqa
        pass
    return [(n, schema[n]) for n in sorted(names)]


def dump(reader, keyfield="id", vectors=True, columns=True, postings=True, lengths=True):
    """Return a JSON-like dict. Raises whatever the reader raises (callers guard)."""
    schema = reader.schema
    fitems = field_items(reader)
    static = set(schema.names())
    docnums = list(reader.all_doc_ids())
    key_of = {}
    stored = {}
    for dn in docnums:
        sf = reader.stored_fields(dn)
        k = sf.get(keyfield)
        if k is None:
            k = "?doc%d" % dn
        if k in stored:
            k = "%s#dup@%d" % (k, dn)
        key_of[dn] = k
        stored[k] = dict(sf)
    out = {
        "keys_in_doc_order": [key_of[dn] for dn in docnums],
        "doc_count": reader.doc_count(),
        "stored": stored,
    }
    if postings:
        terms = {}
        for fieldname, tbytes in reader.all_terms():
            m = reader.postings(fieldname, tbytes)
            plist = []
            while m.is_active():
                dn = m.id()
                w = m.weight()
                v = m.value() if m.supports("frequency") or True else None
                plist.append((key_of.get(dn, "?deleted%d" % dn), round(_f32(w), 6), v))
                m.next()
            terms["%s:%r" % (fieldname, tbytes)] = sorted(plist, key=lambda t: repr(t[0]))
        out["terms"] = terms
    if lengths:
        ln = {}
        for fieldname, field in fitems:
            if field.scorable:
                per = {key_of[dn]: reader.doc_field_length(dn, fieldname) for dn in docnums}
                if fieldname not in static:
                    # a concrete dynamic name is only discoverable while some live or not-yet-merged document has
                    # terms in it: list only the documents that have a length, drop the field when none has
                    per = {k: v for k, v in per.items() if v}
                    if not per:
                        continue
                ln[fieldname] = per
        out["lengths"] = ln
    if vectors:
        vec = {}
        for fieldname in sorted(n for n, f in fitems if f.vector):
            per = {}
            for dn in docnums:
                if reader.has_vector(dn, fieldname):
                    v = reader.vector(dn, fieldname)
                    items = []
                    while v.is_active():
                        items.append((v.id(), round(_f32(v.weight()), 6), v.value()))
                        v.next()
                    per[key_of[dn]] = items
            if fieldname not in static and not per:
                continue
            vec[fieldname] = per
        out["vectors"] = vec
    if columns:
        cols = {}
        for fieldname, field in fitems:
            if field.column_type is not None and reader.has_column(fieldname):
                cr = reader.column_reader(fieldname)
                per = {key_of[dn]: cr[dn] for dn in docnums}
                if fieldname not in static:
                    dflt = field.from_column_value(field.column_type.default_value())
                    per = {k: v for k, v in per.items() if v != dflt}
                    if not per:
                        continue
                cols[fieldname] = per
        out["columns"] = cols
    return out


def stats(reader):
    """Layout-dependent-with-deletions statistics (compared only between deletion-free layouts)."""
    st = {"doc_count_all": reader.doc_count_all(), "has_deletions": reader.has_deletions(), "fields": {}, "terms": {}}
    static = set(reader.schema.names())
    for fieldname, field in field_items(reader):
        if field.scorable:
            v = (reader.field_length(fieldname), reader.min_field_length(fieldname), reader.max_field_length(fieldname))
            if fieldname not in static and not v[0]:
                continue
            st["fields"][fieldname] = v
    for fieldname, tbytes in reader.all_terms():
        ti = reader.term_info(fieldname, tbytes)
        st["terms"]["%s:%r" % (fieldname, tbytes)] = (ti.doc_frequency(), round(_f32(ti.weight()), 4),
                                                       ti.min_length(), ti.max_length(), round(_f32(ti.max_weight()), 6))
    return st


def diff(a, b, path="", out=None, limit=8):
    """Human-readable list of differences between two dumps."""
    if out is None:
        out = []
    if len(out) >= limit:
        return out
    if isinstance(a, dict) and isinstance(b, dict):
        for k in sorted(set(a) | set(b), key=repr):
            if k not in a:
                out.append("%s/%s: missing on left (right=%r)" % (path, k, _short(b[k])))
            elif k not in b:
                out.append("%s/%s: missing on right (left=%r)" % (path, k, _short(a[k])))
            else:
                diff(a[k], b[k], "%s/%s" % (path, k), out, limit)
            if len(out) >= limit:
                break
    elif a != b:
        out.append("%s: %s != %s" % (path, _short(a), _short(b)))
    return out


def _short(x):
    r = repr(x)
    return r if len(r) < 300 else r[:300] + "..."
