"""Canonical *logical dump* of an IndexReader, keyed by a stored unique key (not by doc number).

Two indexes holding the same live documents must produce equal dumps whatever their segment
layout (C02, C03, C06, C18). Layout-dependent statistics (doc_count_all, df/cf when deleted
documents are still physically present) are returned separately under "stats".
"""
import struct


def _f32(x):
    return struct.unpack("<f", struct.pack("<f", x))[0]


def dump(reader, keyfield="id", vectors=True, columns=True, postings=True, lengths=True):
    """Return a JSON-like dict. Raises whatever the reader raises (callers guard)."""
    schema = reader.schema
    docnums = list(reader.all_doc_ids())
    key_of = {}
    stored = {}
    for dn in docnums:
        sf = reader.stored_fields(dn)
        k = sf.get(keyfield)
        if k is None:
            k = "?doc%d" % dn
        if k in stored:
            k = "%s#dup@%d" % (k, dn)
        key_of[dn] = k
        stored[k] = dict(sf)
    out = {
        "keys_in_doc_order": [key_of[dn] for dn in docnums],
        "doc_count": reader.doc_count(),
        "stored": stored,
    }
    if postings:
        terms = {}
        for fieldname, tbytes in reader.all_terms():
            m = reader.postings(fieldname, tbytes)
            plist = []
            while m.is_active():
                dn = m.id()
                w = m.weight()
                v = m.value() if m.supports("frequency") or True else None
                plist.append((key_of.get(dn, "?deleted%d" % dn), round(_f32(w), 6), v))
                m.next()
            terms["%s:%r" % (fieldname, tbytes)] = sorted(plist, key=lambda t: repr(t[0]))
        out["terms"] = terms
    if lengths:
        ln = {}
        for fieldname in schema.scorable_names():
            ln[fieldname] = {key_of[dn]: reader.doc_field_length(dn, fieldname) for dn in docnums}
        out["lengths"] = ln
    if vectors:
        vec = {}
        for fieldname in sorted(n for n, f in schema.items() if f.vector):
            per = {}
            for dn in docnums:
                if reader.has_vector(dn, fieldname):
                    v = reader.vector(dn, fieldname)
                    items = []
                    while v.is_active():
                        items.append((v.id(), round(_f32(v.weight()), 6), v.value()))
                        v.next()
                    per[key_of[dn]] = items
            vec[fieldname] = per
        out["vectors"] = vec
    if columns:
        cols = {}
        for fieldname, field in schema.items():
            if field.column_type is not None and reader.has_column(fieldname):
                cr = reader.column_reader(fieldname)
                cols[fieldname] = {key_of[dn]: cr[dn] for dn in docnums}
        out["columns"] = cols
    return out


def stats(reader):
    """Layout-dependent-with-deletions statistics (compared only between deletion-free layouts)."""
    st = {"doc_count_all": reader.doc_count_all(), "has_deletions": reader.has_deletions(), "fields": {}, "terms": {}}
    for fieldname in reader.schema.scorable_names():
        st["fields"][fieldname] = (reader.field_length(fieldname), reader.min_field_length(fieldname),
                                   reader.max_field_length(fieldname))
    for fieldname, tbytes in reader.all_terms():
        ti = reader.term_info(fieldname, tbytes)
        st["terms"]["%s:%r" % (fieldname, tbytes)] = (ti.doc_frequency(), round(_f32(ti.weight()), 4),
                                                       ti.min_length(), ti.max_length(), round(_f32(ti.max_weight()), 6))
    return st


def diff(a, b, path="", out=None, limit=8):
    """Human-readable list of differences between two dumps."""
    if out is None:
        out = []
    if len(out) >= limit:
        return out
    if isinstance(a, dict) and isinstance(b, dict):
        for k in sorted(set(a) | set(b), key=repr):
            if k not in a:
                out.append("%s/%s: missing on left (right=%r)" % (path, k, _short(b[k])))
            elif k not in b:
                out.append("%s/%s: missing on right (left=%r)" % (path, k, _short(a[k])))
            else:
                diff(a[k], b[k], "%s/%s" % (path, k), out, limit)
            if len(out) >= limit:
                break
    elif a != b:
        out.append("%s: %s != %s" % (path, _short(a), _short(b)))
    return out


def _short(x):
    r = repr(x)
    return r if len(r) < 300 else r[:300] + "..."
