"""Known-findings classification (DESIGN §1.4).

/verif/known_findings.json is committed and never written at run time. An entry
with status "known" names a classifier: a predicate over one recorded failure
(monitor, mech, witness, detail) that recognises *that mechanism* - never a case
hash or a random value. Entries with status "fixed" suppress nothing.
"""
import json
import os

ROOT = os.path.dirname(os.path.dirname(os.path.abspath(__file__)))
_cache = None

CLASSIFIERS = {}


def classifier(name):
    def deco(fn):
        CLASSIFIERS[name] = fn
        return fn
    return deco


def load():
    global _cache
    if _cache is None:
        with open(os.path.join(ROOT, "known_findings.json")) as f:
            _cache = json.load(f)["findings"]
    return _cache


def classify(prop, failure):
    """Return the id of the listed (status=known) finding that explains this failure, else None."""
    for ent in load():
        if ent.get("status") != "known" or ent.get("property") != prop:
            continue
        fn = CLASSIFIERS.get(ent.get("classifier"))
        if fn is None:
            continue
        try:
            if fn(failure, ent):
                return ent["id"]
        except Exception:  # a classifier that cannot decide explains nothing
            continue
    return None


def describe(fid):
    for ent in load():
        if ent["id"] == fid:
            return "%s: %s" % (fid, ent["mechanism"])
    return fid


# ----------------------------------------------------------------------
# classifiers (each recognises one mechanism; see known_findings.json)
# ----------------------------------------------------------------------

@classifier("mech_equals")
def _mech_equals(failure, ent):
    """The property module already computed a second-oracle verdict and encoded it in
    `mech` (e.g. 'known:null-in-and' after verifying that the observation equals what the
    listed mechanism produces). The entry names monitor and mech exactly."""
    return failure["monitor"] == ent["monitor"] and failure["mech"] == ent["mech"]
