"""Run context, sharding, verdict discipline and evidence writer (DESIGN §1, §2).

A property module (vf/props/cNN.py) defines

    LEVEL        "exploration" | "fault_enumeration"
    RULE         how cases are generated / what makes one non-trivial
    ASSUMPTIONS  list of strings
    SHARDS       {"quick": n, "thorough": n}        worker subprocesses
    BUDGET_S     {"quick": s, "thorough": s}        wall-clock *cap* per shard (never a verdict)
    FLOORS       {counter: minimum}                 reach floors (summed over shards) -> inconclusive below
    def run(ctx): ...                               executes this shard's cases

Inside run(): `for idx in ctx.cases(quick=N, thorough=M): rng = ctx.rng(idx) ...`.
A case must depend only on ctx.rng(idx, ...) (and the tier), so that
`check <ID> --replay <file>` can re-execute exactly that case.
"""
import hashlib
import importlib
import json
import os
import random
import subprocess
import sys
import time
import traceback

ROOT = os.path.dirname(os.path.dirname(os.path.abspath(__file__)))
PY = sys.executable


def repo_root():
    return os.environ.get("VERIF_REPO", "/repo")


def bootstrap():
    """Put the working tree under test first on sys.path (before any whoosh import)."""
    src = os.path.join(repo_root(), "src")
    if not os.path.isdir(os.path.join(src, "whoosh")):
        raise SystemExit("INCONCLUSIVE reason=no whoosh sources under %s" % src)
    if sys.path[0] != src:
        sys.path.insert(0, src)
    import warnings
    warnings.filterwarnings("ignore")
    import whoosh
    assert os.path.abspath(whoosh.__file__).startswith(os.path.abspath(src)), whoosh.__file__


def shape_hash(obj):
    return hashlib.sha1(repr(obj).encode("utf-8", "replace")).hexdigest()[:12]


def jsonable(o, depth=0):
    if depth > 12:
        return repr(o)[:200]
    if isinstance(o, (str, int, bool)) or o is None:
        return o
    if isinstance(o, float):
        return o if o == o and abs(o) != float("inf") else repr(o)
    if isinstance(o, bytes):
        return "b:" + o.decode("latin1")
    if isinstance(o, dict):
        return {str(k): jsonable(v, depth + 1) for k, v in o.items()}
    if isinstance(o, (list, tuple)):
        return [jsonable(v, depth + 1) for v in o]
    if isinstance(o, (set, frozenset)):
        try:
            return [jsonable(v, depth + 1) for v in sorted(o)]
        except TypeError:
            return sorted(repr(v) for v in o)
    return repr(o)[:400]


def whoosh_site(tb_exc):
    """Innermost frame inside the whoosh package of an exception -> 'file.py:func' (mechanism key).
    Returns (site, in_harness) where in_harness is True when no whoosh frame is on the stack."""
    frames = traceback.extract_tb(tb_exc.__traceback__)
    site = None
    for fr in frames:
        fn = fr.filename.replace("\\", "/")
        if "/whoosh/" in fn:
            site = "%s:%s" % (fn.split("/whoosh/", 1)[1], fr.name)
    return site, site is None


class HarnessError(Exception):
    pass


class Ctx(object):
    def __init__(self, prop, tier, seed, shard=0, nshards=1, budget_s=60.0, replay_idx=None):
        self.prop = prop
        self.tier = tier
        self.seed = seed
        self.shard = shard
        self.nshards = nshards
        self.budget_s = budget_s
        self.replay_idx = replay_idx
        self.t0 = time.time()
        self.counters = {}
        self.shapes = set()
        self.evaluations = 0
        self.samples = []
        self.failures = []
        self.fail_keys = {}
        self.notes = []
        self.truncated = False
        self.extra = {}
        self.cur_idx = None

    # ---- case stream -------------------------------------------------
    @property
    def quick(self):
        return self.tier == "quick"

    def pick(self, quick, thorough):
        return quick if self.tier == "quick" else thorough

    def expired(self):
        return (time.time() - self.t0) > self.budget_s

    def cases(self, quick, thorough=None):
        """Yield this shard's case indices (global idx = k*nshards+shard)."""
        n = quick if self.tier == "quick" else (thorough if thorough is not None else quick)
        if self.replay_idx is not None:
            self.cur_idx = self.replay_idx
            yield self.replay_idx
            return
        for k in range(n):
            if self.expired():
                self.truncated = True
                self.note("time cap reached after %d of %d cases in shard %d" % (k, n, self.shard))
                break
            idx = k * self.nshards + self.shard
            self.cur_idx = idx
            yield idx

    def rng(self, idx, label=""):
        return random.Random("%s:%d:%d:%s" % (self.prop, self.seed, idx, label))

    def reseed_global(self, idx):
        """whoosh draws segment names from the global random module: make them replayable."""
        random.seed("%s:%d:%d:global" % (self.prop, self.seed, idx))

    # ---- recording ---------------------------------------------------
    def count(self, name, n=1):
        self.counters[name] = self.counters.get(name, 0) + n

    def case(self, shape, nontrivial=True, sample=None):
        """Record one evaluated case. `shape` is any repr-able canonical description."""
        self.evaluations += 1
        if nontrivial:
            self.shapes.add(shape_hash(shape))
        if sample is not None and len(self.samples) < 4:
            self.samples.append(jsonable(sample))

    def note(self, text):
        if len(self.notes) < 40:
            self.notes.append(text)

    def fail(self, monitor, mech, witness, detail=""):
        """Record a monitor disagreement. `mech` is a short stable mechanism key used
        for de-duplication (e.g. access path, exception site); never random values."""
        key = (monitor, mech)
        n = self.fail_keys.get(key, 0)
        self.fail_keys[key] = n + 1
        self.count("fail:" + monitor)
        if n >= 3:
            return
        self.failures.append({
            "monitor": monitor, "mech": mech, "witness": jsonable(witness),
            "detail": str(detail)[:3000], "idx": self.cur_idx, "shard": self.shard,
        })
        # a failure must survive the shard: if the code under test makes the rest of the run crawl and the parent's
        # watchdog kills this process, the parent still reads what was observed so far
        pp = getattr(self, "partial_path", None)
        if pp:
            try:
                res = self.result()
                res["status"] = "partial"
                res["error"] = None
                with open(pp + ".tmp", "w") as f:
                    f.write(json.dumps(res))
                os.replace(pp + ".tmp", pp)
            except Exception:  # noqa
                pass

    def guard(self, monitor, witness, fn, *args, **kw):
        """Run fn; an exception coming out of whoosh code is a failure of `monitor`.
        Returns (ok, value)."""
        try:
            return True, fn(*args, **kw)
        except (KeyboardInterrupt, SystemExit, HarnessError):
            raise
        except Exception as e:  # noqa
            site, in_harness = whoosh_site(e)
            if in_harness:
                raise
            self.fail(monitor, "exc:%s@%s" % (type(e).__name__, site), witness,
                      "".join(traceback.format_exception(type(e), e, e.__traceback__))[-2500:])
            return False, e

    def result(self):
        return {
            "shard": self.shard, "evaluations": self.evaluations,
            "shapes": sorted(self.shapes), "samples": self.samples,
            "counters": self.counters, "failures": self.failures,
            "fail_counts": {"%s|%s" % k: v for k, v in self.fail_keys.items()},
            "notes": self.notes, "truncated": self.truncated, "extra": jsonable(self.extra),
            "wall_s": round(time.time() - self.t0, 2),
        }


def load_prop(prop):
    return importlib.import_module("vf.props.%s" % prop.lower())


# ----------------------------------------------------------------------
# worker entry
# ----------------------------------------------------------------------

def private_tmp():
    """RamStorage.temp_storage() and several writers use <tempdir>/<indexname>.tmp, a path shared by
    every process on the machine; with replayable (seeded) random file names concurrent workers would
    collide there. Give each worker process its own temp root (removed at exit)."""
    import atexit
    import shutil
    import tempfile
    d = tempfile.mkdtemp(prefix="vf-w%d-" % os.getpid())
    tempfile.tempdir = d
    os.environ["TMPDIR"] = d
    atexit.register(shutil.rmtree, d, True)
    return d


def run_worker(args):
    bootstrap()
    private_tmp()
    mod = load_prop(args.prop)
    budget = float(os.environ.get("VERIF_BUDGET_S", getattr(mod, "BUDGET_S", {}).get(args.tier, 120)))
    ctx = Ctx(args.prop, args.tier, args.seed, args.shard, args.nshards, budget, args.replay_idx)
    if args.out:
        ctx.partial_path = args.out + ".partial"
    status = "ok"
    err = None
    try:
        mod.run(ctx)
    except BaseException as e:  # harness problem -> inconclusive, never a verdict
        if isinstance(e, KeyboardInterrupt):
            raise
        status = "harness-error"
        err = "".join(traceback.format_exception(type(e), e, e.__traceback__))[-4000:]
    res = ctx.result()
    res["status"] = status
    res["error"] = err
    out = json.dumps(res)
    if args.out:
        with open(args.out, "w") as f:
            f.write(out)
    else:
        print(out)
    return 0


# ----------------------------------------------------------------------
# parent: shard, merge, classify, verdict, evidence
# ----------------------------------------------------------------------

def run_parent(args):
    from . import findings
    t0 = time.time()
    prop = args.prop
    sys.path.insert(0, os.path.join(repo_root(), "src"))
    mod = load_prop(prop)
    tier = args.tier
    nshards = int(os.environ.get("VERIF_SHARDS", getattr(mod, "SHARDS", {}).get(tier, 4)))
    budget = float(os.environ.get("VERIF_BUDGET_S", getattr(mod, "BUDGET_S", {}).get(tier, 120)))
    replay = None
    if args.replay:
        with open(args.replay) as f:
            replay = json.load(f)
        tier = replay.get("tier", tier)
        args.seed = replay.get("seed", args.seed)
        nshards = 1
    outdir = os.path.join(ROOT, ".work", "%s-%s-%d-%d" % (prop, tier, args.seed, os.getpid()))
    os.makedirs(outdir, exist_ok=True)
    env = dict(os.environ)
    env["PYTHONHASHSEED"] = "0"
    env["PYTHONPATH"] = ROOT + os.pathsep + env.get("PYTHONPATH", "")
    env["PYTHONDONTWRITEBYTECODE"] = "1"
    procs = []
    for sh in range(nshards):
        out = os.path.join(outdir, "shard%d.json" % sh)
        cmd = [PY, "-m", "vf.check", prop, "--worker", "--tier", tier, "--seed", str(args.seed),
               "--shard", str(sh), "--nshards", str(nshards), "--out", out]
        if replay is not None:
            cmd += ["--replay-idx", str(replay["idx"]), "--nshards", str(replay.get("nshards", 1)),
                    "--shard", str(replay.get("shard", 0))]
        log = open(os.path.join(outdir, "shard%d.log" % sh), "w")
        procs.append((sh, out, log, subprocess.Popen(cmd, cwd=ROOT, env=env, stdout=log, stderr=subprocess.STDOUT)))
    watchdog = budget * 2.5 + 120
    results, problems = [], []
    for sh, out, log, p in procs:
        try:
            p.wait(timeout=max(5.0, watchdog - (time.time() - t0)))
        except subprocess.TimeoutExpired:
            p.kill()
            p.wait()
            problems.append("shard %d watchdog (%.0fs) fired" % (sh, watchdog))
        log.close()
        if os.path.exists(out):
            try:
                with open(out) as f:
                    results.append(json.load(f))
            except Exception as e:  # noqa
                problems.append("shard %d result unreadable: %s" % (sh, e))
        elif os.path.exists(out + ".partial"):
            try:
                with open(out + ".partial") as f:
                    pr = json.load(f)
                pr["status"] = "ok"
                pr["truncated"] = True
                results.append(pr)
                problems.append("shard %d did not finish (rc=%s); the failures it had recorded before were kept" % (sh, p.returncode))
            except Exception as e:  # noqa
                problems.append("shard %d partial result unreadable: %s" % (sh, e))
        else:
            tail = ""
            try:
                with open(log.name) as f:
                    tail = f.read()[-1500:]
            except Exception:  # noqa
                pass
            problems.append("shard %d produced no result (rc=%s): %s" % (sh, p.returncode, tail))
    # ---- merge
    evaluations = sum(r["evaluations"] for r in results)
    shapes = set()
    counters, samples, notes, failures, fail_counts = {}, [], [], [], {}
    extra = {}
    for r in results:
        shapes.update(r["shapes"])
        for k, v in r["counters"].items():
            counters[k] = counters.get(k, 0) + v
        for k, v in r.get("fail_counts", {}).items():
            fail_counts[k] = fail_counts.get(k, 0) + v
        if len(samples) < 5:
            samples.extend(r["samples"][: 5 - len(samples)])
        notes.extend(r["notes"])
        failures.extend(r["failures"])
        if r.get("status") != "ok":
            problems.append("shard %d harness error: %s" % (r["shard"], r.get("error")))
        for k, v in (r.get("extra") or {}).items():
            extra.setdefault(k, v)
    # ---- classify failures against the committed known-findings file
    known_met, violations = {}, []
    seen = set()
    for f in failures:
        fid = findings.classify(prop, f)
        if fid is not None:
            known_met.setdefault(fid, f)
            continue
        key = (f["monitor"], f["mech"])
        if key in seen:
            continue
        seen.add(key)
        violations.append(f)
    # ---- floors
    inconclusive = list(problems)
    floors = getattr(mod, "FLOORS", {})
    if isinstance(floors.get(tier), dict):
        floors = floors[tier]
    elif any(isinstance(v, dict) for v in floors.values()):
        floors = {}
    if replay is None:
        for name, minimum in floors.items():
            if counters.get(name, 0) < minimum:
                inconclusive.append("reach floor %s=%d < %d" % (name, counters.get(name, 0), minimum))
        if evaluations == 0:
            inconclusive.append("no case was evaluated")
        if len(shapes) < 2:
            inconclusive.append("fewer than 2 distinct non-trivial cases")
    # ---- output
    lines = []
    for fid, f in sorted(known_met.items()):
        lines.append("KNOWN-FINDING: property=%s %s" % (prop, findings.describe(fid)))
    rc = 0
    if violations:
        rc = 1
        rdir = os.path.join(ROOT, "replays", prop)
        os.makedirs(rdir, exist_ok=True)
        for n, f in enumerate(violations[:5]):
            path = os.path.join(rdir, "%d-%d.json" % (args.seed, n))
            with open(path, "w") as fh:
                json.dump({"prop": prop, "tier": tier, "seed": args.seed, "shard": f["shard"],
                           "nshards": nshards if replay is None else replay.get("nshards", 1),
                           "idx": f["idx"], "monitor": f["monitor"], "mech": f["mech"],
                           "witness": f["witness"], "detail": f["detail"]}, fh, indent=1)
            lines.append("VIOLATION property=%s replay=%s" % (prop, path))
            lines.append("  monitor=%s mech=%s" % (f["monitor"], f["mech"]))
            lines.append("  witness=%s" % json.dumps(f["witness"])[:1500])
            if f["detail"]:
                lines.append("  detail=%s" % f["detail"][-1200:].replace("\n", "\n    "))
        for why in inconclusive[:6]:
            lines.append("  (also inconclusive: %s)" % why[:1500])
    elif inconclusive:
        rc = 2
        for why in inconclusive[:6]:
            lines.append("INCONCLUSIVE property=%s reason=%s" % (prop, why[:1500]))
    wall = round(time.time() - t0, 2)
    if replay is None:
        ev = {
            "property_id": prop, "tier": tier, "seed": args.seed,
            "level": getattr(mod, "LEVEL", "exploration"),
            "coverage": {
                "evaluations": evaluations,
                "distinct_nontrivial": len(shapes),
                "rule": getattr(mod, "RULE", ""),
                "samples": samples,
                "monitor_and_reach_counters": dict(sorted(counters.items())),
                "shards": nshards, "shards_reporting": len(results),
                "truncated_by_time_cap": any(r["truncated"] for r in results),
                "known_findings_met": sorted(known_met),
                "failure_counts_by_monitor_and_mechanism": fail_counts,
                "verdict": {0: "held", 1: "violated", 2: "inconclusive"}[rc],
                "inconclusive_reasons": inconclusive[:6],
                "notes": notes[:20],
                "repo": repo_root(),
            },
            "assumptions": list(getattr(mod, "ASSUMPTIONS", [])),
            "wall_s": wall,
            "violations": len(violations),
        }
        ev["coverage"].update(extra)
        if getattr(mod, "EXHAUSTIVE", None):
            ev["coverage"]["exhaustive_scope"] = mod.EXHAUSTIVE
        check_evidence(ev)
        # audits against scratch/mutated trees must not overwrite the evidence of /repo itself
        evdir = os.environ.get("VERIF_EVIDENCE_DIR") or os.path.join(ROOT, "evidence")
        os.makedirs(evdir, exist_ok=True)
        with open(os.path.join(evdir, "%s.json" % prop), "w") as fh:
            json.dump(ev, fh, indent=1, sort_keys=True)
            fh.write("\n")
    print("%s tier=%s seed=%d shards=%d evaluations=%d distinct_nontrivial=%d wall=%.1fs verdict=%s" % (
        prop, tier, args.seed, nshards, evaluations, len(shapes), wall,
        {0: "held", 1: "VIOLATED", 2: "INCONCLUSIVE"}[rc]))
    keys = sorted(counters)
    print("  counters: " + ", ".join("%s=%d" % (k, counters[k]) for k in keys[:60]))
    for ln in lines:
        print(ln)
    if rc == 0 or os.environ.get("VERIF_KEEP_WORK") is None:
        import shutil
        shutil.rmtree(outdir, ignore_errors=True)
    return rc


def check_evidence(ev):
    for k in ("property_id", "tier", "seed", "level", "coverage", "wall_s"):
        assert k in ev, k
    cov = ev["coverage"]
    for k in ("evaluations", "distinct_nontrivial", "rule", "samples"):
        assert k in cov, k
    assert isinstance(cov["samples"], list)
    if not cov["samples"]:
        cov["samples"] = ["(no sample recorded)"]
    json.dumps(ev)
