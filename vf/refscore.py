"""Reference scorer for C09: re-derives every input of the weighting formulas from the model
corpus (never from the index) and re-implements the documented formulas.

Inputs: term weight = float32(term frequency x field boost x document boost); field length =
the length-byte approximation (smallest table value >= true length, table generated from the
documented formula int(round((1.033**i - 1) * 27))); collection statistics over every document
physically in the index (deleted ones included until merged away, as documented for whoosh).
"""
import math
import struct


def f32(x):
    return struct.unpack("<f", struct.pack("<f", x))[0]


_TABLE = None


def approx_length(n):
    global _TABLE
    if _TABLE is None:
        _TABLE = sorted(set(int(round((pow(1.033, i) - 1) * 27)) for i in range(256)))
    if n >= _TABLE[-1]:
        return _TABLE[-1]
    lo, hi = 0, len(_TABLE) - 1
    while lo < hi:
        mid = (lo + hi) // 2
        if _TABLE[mid] < n:
            lo = mid + 1
        else:
            hi = mid
    return _TABLE[lo]


class Stats(object):
    def __init__(self, alldocs, field_boosts):
        """alldocs: key -> model doc; field_boosts: fieldname -> schema field_boost."""
        self.docs = alldocs
        self.fb = field_boosts
        self.N = len(alldocs)
        self._df = {}
        self._cf = {}
        self._fl = {}

    def toks(self, d, f):
        v = d.get(f)
        return v.split() if isinstance(v, str) else []

    def weight(self, d, f, term):
        tf = self.toks(d, f).count(term)
        boost = d.get("_%s_boost" % f, d.get("_boost", 1.0))
        return f32(tf * self.fb.get(f, 1.0) * boost)

    def length(self, d, f):
        return approx_length(len(self.toks(d, f)))

    def df(self, f, term):
        k = (f, term)
        if k not in self._df:
            self._df[k] = sum(1 for d in self.docs.values() if term in self.toks(d, f))
        return self._df[k]

    def cf(self, f, term):
        k = (f, term)
        if k not in self._cf:
            self._cf[k] = sum(self.weight(d, f, term) for d in self.docs.values())
        return self._cf[k]

    def field_length(self, f):
        if f not in self._fl:
            self._fl[f] = sum(len(self.toks(d, f)) for d in self.docs.values())
        return self._fl[f]

    def avgfl(self, f):
        return (self.field_length(f) / self.N) or 1

    def idf(self, f, term):
        return math.log(self.N / (self.df(f, term) + 1)) + 1


def bm25f(st, d, f, term, B=0.75, K1=1.2):
    w = st.weight(d, f, term)
    fl = st.length(d, f)
    return st.idf(f, term) * ((w * (K1 + 1)) / (w + K1 * ((1 - B) + B * fl / st.avgfl(f))))


def tf_idf(st, d, f, term):
    return st.weight(d, f, term) * st.idf(f, term)


def frequency(st, d, f, term):
    return st.weight(d, f, term)


def pl2(st, d, f, term, c=1.0):
    tf = st.weight(d, f, term)
    cf = st.cf(f, term)
    dc = st.N
    fl = st.length(d, f)
    avgfl = st.avgfl(f)
    rec_log2_of_e = 1.0 / math.log(2)
    TF = tf * math.log(1.0 + (c * avgfl) / fl)
    norm = 1.0 / (TF + 1.0)
    fq = cf / dc
    return norm * (TF * math.log(1.0 / fq) + fq * rec_log2_of_e + 0.5 * math.log(2 * math.pi * TF)
                   + TF * (math.log(TF) - rec_log2_of_e))


def dfree(st, d, f, term):
    tf = st.weight(d, f, term)
    cf = st.cf(f, term)
    dl = st.length(d, f)
    fl = st.field_length(f)
    prior = tf / dl
    post = (tf + 1.0) / (dl + 1.0)
    invpriorcol = fl / cf
    norm = tf * math.log(post / prior)
    return norm * (tf * (math.log(prior * invpriorcol)) + (tf + 1.0) * (math.log(post * invpriorcol))
                   + 0.5 * math.log(post / prior))
