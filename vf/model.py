"""Corpus / history / query generators and the independent reference evaluator
(DESIGN §2 gen+model) shared by the search-semantics and matcher clusters.

The model never calls whoosh analysis or matching code: texts are drawn from a controlled
lowercase vocabulary (no stop words, every word >= 2 chars) on which the shipped analyzers
equal str.split(); `check_analysis()` asserts that equality once per process so the oracle
does not silently inherit whoosh's analysis.
"""
import contextlib
import datetime
import fnmatch
import re

VOCAB = ["alfa", "bravo", "charlie", "delta", "echo", "foxtrot", "golf", "hotel", "india",
         "al", "alf", "brav", "bravox", "juliet", "kilo", "lima"]
KVOCAB = ["red", "green", "blue", "cyan", "re"]
EPOCH = datetime.datetime(2020, 1, 1)


def zipf_choice(rng, words, s=1.1):
    # cumulative 1/(rank+1)^s weights -> long skewed posting lists
    ws = [1.0 / ((i + 1) ** s) for i in range(len(words))]
    return rng.choices(words, weights=ws, k=1)[0]


USECS = (0, 0, 0, 0, 1, 2, 3, 5)


def make_schema(field_boosts=False, chars=False, vector=False, sortable=False):
    from whoosh import fields
    # b (BOOLEAN) is always in the schema; documents carry it only when generated with boolean=True
    return fields.Schema(
        b=fields.BOOLEAN(stored=True),
        id=fields.ID(stored=True, unique=True, sortable=sortable),
        t=fields.TEXT(stored=True, chars=chars, vector=vector, sortable=sortable),
        u=fields.TEXT(stored=True, field_boost=(2.5 if field_boosts is True else float(field_boosts)) if field_boosts else 1.0),
        k=fields.KEYWORD(stored=True, scorable=True, sortable=sortable),
        n=fields.NUMERIC(int, stored=True, sortable=sortable),
        d=fields.DATETIME(stored=True, sortable=sortable),
    )


def gen_doc(rng, key, maxlen=6, sparse=0.15, boosts=False, burst=0.0, boolean=False):
    """A model document: plain dict; absent fields are simply missing.
    burst: probability that one word is repeated 3..10 times (a few documents with much higher term
    weights than their posting block neighbours: what makes block-quality skipping bite)."""
    d = {"id": str(key)}
    if rng.random() > sparse:
        words = [zipf_choice(rng, VOCAB) for _ in range(rng.randint(0, maxlen))]
        if burst and rng.random() < burst:
            words += [zipf_choice(rng, VOCAB[:6])] * rng.randint(3, 10)
            rng.shuffle(words)
        d["t"] = " ".join(words)
    if rng.random() > 0.5:
        d["u"] = " ".join(zipf_choice(rng, VOCAB[:8]) for _ in range(rng.randint(1, 4)))
    if rng.random() > sparse:
        d["k"] = " ".join(rng.choice(KVOCAB) for _ in range(rng.randint(0, 2)))
    if rng.random() > sparse:
        d["n"] = rng.randint(-5, 5)
    if rng.random() > 0.4:
        # a few values only microseconds apart: the sortable encoding must keep them distinct
        d["d"] = EPOCH + datetime.timedelta(days=rng.randint(0, 9), microseconds=USECS[rng.randrange(len(USECS))])
    if boosts and rng.random() < 0.3:
        # 0.3 / 1.1: products that float32 cannot represent (the stored weight is rounded, sometimes upwards)
        # (only where the caller asks for it: monitors that compare with a double-precision reference keep to exact boosts,
        # float32 rounding of the stored statistics is amplified by DFree / PL2 beyond any fixed tolerance otherwise)
        d["_boost"] = rng.choice([0.5, 2.0, 3.0, 0.3, 1.1] if boosts == "fractional" else [0.5, 2.0, 3.0])
    if boolean and rng.random() < 0.6:
        d["b"] = rng.random() < 0.5
    if boosts:
        # per-field document boosts (_<field>_boost replaces the document boost for that field only); drawn from a private
        # stream so that the documents themselves stay what they were
        import random as _random
        brng = _random.Random("field-boost:%r:%r" % (key, d.get("t")))
        vals = [0.5, 2.0, 3.0, 0.3, 1.1] if boosts == "fractional" else [0.5, 2.0, 3.0]
        if brng.random() < 0.15:
            d["_t_boost"] = brng.choice(vals)
        if brng.random() < 0.08:
            d["_k_boost"] = brng.choice(vals)
        if brng.random() < 0.05:
            d["_u_boost"] = brng.choice(vals)
    return d


def gen_history(rng, ndocs=(1, 40), nseg=(1, 4), delete_modes=("none", "none", "few", "many", "segment"),
                maxlen=6, boosts=False, burst=0.0, boolean=False):
    """History = list of commits (each a list of model docs, merge=False) + a final delete set.
    Returns dict(commits=[[doc..]..], deletes=[key..], blocklimit=int, storage='ram'|'file')."""
    n = rng.randint(*ndocs)
    segs = rng.randint(*nseg)
    docs = [gen_doc(rng, i, maxlen=maxlen, boosts=boosts, burst=burst, boolean=boolean) for i in range(n)]
    cuts = sorted(rng.sample(range(1, n), min(segs - 1, max(0, n - 1)))) if n > 1 else []
    commits, prev = [], 0
    for c in cuts + [n]:
        commits.append(docs[prev:c])
        prev = c
    commits = [c for c in commits if c]
    mode = rng.choice(delete_modes)
    deletes = []
    if mode == "few":
        deletes = [d["id"] for d in rng.sample(docs, min(len(docs), rng.randint(1, 3)))]
    elif mode == "many":
        deletes = [d["id"] for d in rng.sample(docs, rng.randint(0, max(0, len(docs) - 1)))]
    elif mode == "segment":
        seg = rng.choice(commits)
        deletes = [d["id"] for d in seg]
        if rng.random() < 0.5:
            deletes += [d["id"] for d in rng.sample(docs, min(len(docs), 2)) if d["id"] not in deletes]
    return {"commits": commits, "deletes": deletes,
            "blocklimit": rng.choice([2, 4, 16, 128]), "storage": rng.choice(["ram", "ram", "file"])}


def layout_sig(h):
    return (tuple(min(len(c), 9) if len(c) < 10 else (len(c) // 10) * 10 for c in h["commits"]),
            "del" if h["deletes"] else "nodel", h["blocklimit"])


class Built(object):
    """An index built from a history together with its model."""

    def __init__(self, ix, live, order, tmpdir=None, alldocs=None):
        self.ix = ix
        self.live = live          # key -> model doc (live documents)
        self.order = order        # keys in insertion order (all, incl. deleted)
        self.tmpdir = tmpdir
        self.alldocs = alldocs or dict(live)  # key -> model doc for every document physically in the index

    def close(self):
        import shutil
        try:
            self.ix.close()
        except Exception:  # noqa
            pass
        if self.tmpdir:
            shutil.rmtree(self.tmpdir, ignore_errors=True)


def build(history, schema=None, **schema_kw):
    import tempfile
    from whoosh.codec.whoosh3 import W3Codec
    from whoosh.filedb.filestore import RamStorage, FileStorage
    schema = schema or make_schema(**schema_kw)
    tmpdir = None
    if history.get("storage") == "file":
        tmpdir = tempfile.mkdtemp(prefix="vf-ix-")
        st = FileStorage(tmpdir)
    else:
        st = RamStorage()
    ix = st.create_index(schema)
    live, order, alldocs = {}, [], {}
    ncommits = len(history["commits"])
    for ci, commit in enumerate(history["commits"]):
        codec = W3Codec(blocklimit=history.get("blocklimit", 128))
        mp_last = history.get("front") == "serialmp-optimize" and ci == ncommits - 1 and ncommits > 1
        if mp_last:
            # the last commit goes through the multi-process writer's machinery (in process) and folds the earlier segments
            # into the same final segment: sub-segments and merged segments meet in one writer
            from whoosh.multiproc import SerialMpWriter
            w = SerialMpWriter(ix, procs=2, codec=codec)
        else:
            w = ix.writer(codec=codec)
        for d in commit:
            w.add_document(**d)
            live[d["id"]] = d
            alldocs[d["id"]] = d
            order.append(d["id"])
        if mp_last:
            w.commit(optimize=True)
        else:
            w.commit(merge=False)
    if history["deletes"]:
        w = ix.writer()
        for key in history["deletes"]:
            w.delete_by_term("id", key)
            live.pop(key, None)
        w.commit(merge=False)
    if (len(order) + len(history["deletes"])) % 2 == 1:
        # every second index is re-opened from its storage, as a separate search process would do it: the schema (field
        # types, analyzers, boosts, numeric encodings) then comes from the pickle in the TOC
        ix = st.open_index()
    return Built(ix, live, order, tmpdir, alldocs)


_analysis_checked = False


def check_analysis():
    """The model tokenises by str.split(); assert the shipped analyzers agree on the vocabulary."""
    global _analysis_checked
    if _analysis_checked:
        return
    schema = make_schema()
    text = " ".join(VOCAB)
    for f in ("t", "u"):
        got = [t.text for t in schema[f].analyzer(text)]
        assert got == text.split(), ("analysis differs from split() on the model vocabulary", f, got)
    got = [t.text for t in schema["k"].analyzer(" ".join(KVOCAB))]
    assert got == KVOCAB, got
    _analysis_checked = True


# ----------------------------------------------------------------------
# query generation (whoosh query objects) and canonical shapes
# ----------------------------------------------------------------------

def gen_leaf(rng, fuzzy=True, scoring=False, boolean=False):
    from whoosh import query
    if boolean and rng.random() < 0.06:
        return rng.choice([query.Term("b", True), query.Term("b", False), query.Every("b")])
    r = rng.random()
    if r < 0.40:
        q = query.Term("t", zipf_choice(rng, VOCAB))
    elif r < 0.47:
        q = query.Term("u", rng.choice(VOCAB[:8]))
    elif r < 0.54:
        q = query.Term("k", rng.choice(KVOCAB))
    elif r < 0.60:
        q = query.Prefix("t", rng.choice(["a", "al", "b", "brav", "", "z", "alfa"]))
    elif r < 0.65:
        q = query.Wildcard("t", rng.choice(["a*", "*a", "?l*", "b?avo", "*", "al?a", "*o*", "alfa"]))
    elif r < 0.68:
        q = query.Regex("t", rng.choice(["a.*", ".*o", "b(ra)+v.*", "alf?", "[a-c].*", "x", "alfx{0,2}a", "brx{0}avo", "ch{1,2}arlie",
                                         "ec{0,1}ho", "delt{0,}a", "gol+f", "(?i)ALFA", "^alfa$", "\\Abravo"]))
    elif r < 0.74:
        a, b = sorted([rng.randint(-6, 6), rng.randint(-6, 6)])
        q = query.NumericRange("n", rng.choice([a, None]), rng.choice([b, None]), rng.random() < .3, rng.random() < .3)
    elif r < 0.77:
        a, b = sorted([rng.randint(0, 9), rng.randint(0, 9)])
        us = lambda: USECS[rng.randrange(len(USECS))]  # noqa
        q = query.DateRange("d", rng.choice([EPOCH + datetime.timedelta(days=a, microseconds=us()), None]),
                            rng.choice([EPOCH + datetime.timedelta(days=b, microseconds=us()), None]), rng.random() < .3, rng.random() < .3)
    elif r < 0.83:
        ws = [rng.choice(VOCAB[:6]) for _ in range(rng.randint(2, 3))]
        q = query.Phrase("t", ws, slop=rng.randint(1, 3))
    elif r < 0.87:
        q = query.Every()
    elif r < 0.90:
        q = query.Every(rng.choice(["k", "t", "u"]))
    elif r < 0.94:
        a, b = sorted([rng.choice(VOCAB), rng.choice(VOCAB)])
        q = query.TermRange("t", rng.choice([a, None]), rng.choice([b, None]), rng.random() < .3, rng.random() < .3)
    elif r < 0.975 and fuzzy:
        q = query.FuzzyTerm("t", rng.choice(VOCAB + ["alfo", "brvo", "ecoh"]), maxdist=rng.randint(1, 2), prefixlength=rng.randint(0, 2))
    elif r < 0.985:
        q = query.NullQuery
    else:
        q = query.Term("t", "zzzabsent")
    if scoring and q is not query.NullQuery and rng.random() < 0.25:
        q = q.with_boost(rng.choice([0.5, 2.0, 3.0]))
    return q


def gen_query(rng, depth=3, fuzzy=True, scoring=False, big_or=True, boolean=False):
    from whoosh import query
    if depth == 0 or rng.random() < 0.3:
        return gen_leaf(rng, fuzzy, scoring, boolean)
    r = rng.random()

    def sub():
        return gen_query(rng, depth - 1, fuzzy, scoring, big_or, boolean)
    if r < 0.24:
        q = query.And([sub() for _ in range(rng.randint(1, 3))])
    elif r < 0.48:
        q = query.Or([sub() for _ in range(rng.randint(1, 4))])
    elif r < 0.57:
        q = query.Not(sub())
    elif r < 0.66:
        q = query.AndNot(sub(), sub())
    elif r < 0.74:
        q = query.AndMaybe(sub(), sub())
    elif r < 0.82:
        q = query.Require(sub(), sub())
    elif r < 0.90:
        q = query.DisjunctionMax([sub() for _ in range(rng.randint(1, 3))],
                                 tiebreak=rng.choice([0.0, 0.0, 0.3]) if scoring else 0.0)
    elif r < 0.94 and scoring:
        q = query.ConstantScoreQuery(sub(), score=rng.choice([0.5, 1.0, 4.0]))
    elif big_or:
        # >= 8 clauses forces the array / preloaded union (query/compound.py Or._matcher)
        q = query.Or([gen_leaf(rng, fuzzy, scoring, boolean) for _ in range(rng.randint(8, 10))])
    else:
        q = query.Or([sub(), sub()])
    if scoring and rng.random() < 0.15:
        q = q.with_boost(rng.choice([0.5, 2.0]))
    return q


def qshape(q):
    """Type tree of a query (canonical shape for distinct-case counting)."""
    from whoosh import query
    if q is query.NullQuery:
        return "Null"
    name = type(q).__name__
    if isinstance(q, query.compound.CompoundQuery):
        return "%s(%s)" % (name, ",".join(qshape(s) for s in q.subqueries))
    if hasattr(q, "a") and hasattr(q, "b") and isinstance(q, query.compound.BinaryQuery):
        return "%s(%s,%s)" % (name, qshape(q.a), qshape(q.b))
    if isinstance(q, query.Not):
        return "Not(%s)" % qshape(q.query)
    if isinstance(q, query.ConstantScoreQuery):
        return "Const(%s)" % qshape(q.child)
    if hasattr(q, "fieldname"):
        return "%s:%s" % (name, q.fieldname)
    return name


def qclasses(q, acc=None):
    from whoosh import query
    acc = acc if acc is not None else set()
    if q is query.NullQuery:
        acc.add("NullQuery")
        return acc
    acc.add(type(q).__name__)
    for c in q.children():
        qclasses(c, acc)
    return acc


# ----------------------------------------------------------------------
# reference evaluator: does model document `d` satisfy query `q`?
# ----------------------------------------------------------------------

def toks(d, f):
    v = d.get(f)
    return v.split() if isinstance(v, str) else []


def lev(a, b, transpositions):
    la, lb = len(a), len(b)
    dd = [[0] * (lb + 1) for _ in range(la + 1)]
    for i in range(la + 1):
        dd[i][0] = i
    for j in range(lb + 1):
        dd[0][j] = j
    for i in range(1, la + 1):
        for j in range(1, lb + 1):
            c = 0 if a[i - 1] == b[j - 1] else 1
            dd[i][j] = min(dd[i - 1][j] + 1, dd[i][j - 1] + 1, dd[i - 1][j - 1] + c)
            if transpositions and i > 1 and j > 1 and a[i - 1] == b[j - 2] and a[i - 2] == b[j - 1]:
                dd[i][j] = min(dd[i][j], dd[i - 2][j - 2] + 1)
    return dd[la][lb]


def _in_range(v, start, end, startexcl, endexcl):
    if start is not None and (v < start or (startexcl and v == start)):
        return False
    if end is not None and (v > end or (endexcl and v == end)):
        return False
    return True


class Undecided(Exception):
    """The model deliberately does not decide this query (e.g. fuzzy term whose plain and
    transposition-aware distances disagree: mechanism owned by C19)."""


def matches(q, d):
    from whoosh import query
    if q is query.NullQuery:
        return False
    if isinstance(q, query.FuzzyTerm):
        pre = q.text[:min(q.prefixlength, len(q.text))]
        res = None
        for t in toks(d, q.fieldname):
            if not t.startswith(pre):
                continue
            a = lev(t, q.text, False) <= q.maxdist
            b = lev(t, q.text, True) <= q.maxdist
            if a != b:
                raise Undecided("fuzzy transposition")
            if a:
                res = True
        return bool(res)
    if isinstance(q, query.Term):
        if q.fieldname == "b":
            return d.get("b") is not None and d["b"] == bool(q.text)
        return q.text in toks(d, q.fieldname)
    if isinstance(q, query.Prefix):
        return any(t.startswith(q.text) for t in toks(d, q.fieldname))
    if isinstance(q, query.Wildcard):
        rx = re.compile(fnmatch.translate(q.text))
        return any(rx.match(t) for t in toks(d, q.fieldname))
    if isinstance(q, query.Regex):
        rx = re.compile(q.text)
        return any(rx.match(t) for t in toks(d, q.fieldname))  # whoosh documents "terms that match": re.match semantics (DESIGN §7)
    if isinstance(q, query.DateRange):
        v = d.get(q.fieldname)
        return v is not None and _in_range(v, q.startdate, q.enddate, q.startexcl, q.endexcl)
    if isinstance(q, query.NumericRange):
        v = d.get(q.fieldname)
        if isinstance(v, (list, tuple)):   # a numeric field given several values: the document has each of them
            return any(_in_range(x, q.start, q.end, q.startexcl, q.endexcl) for x in v)
        return v is not None and _in_range(v, q.start, q.end, q.startexcl, q.endexcl)
    if isinstance(q, query.TermRange):
        return any(_in_range(t, q.start, q.end, q.startexcl, q.endexcl) for t in toks(d, q.fieldname))
    if isinstance(q, query.Phrase):
        ts = toks(d, q.fieldname)
        pos = {}
        for i, t in enumerate(ts):
            pos.setdefault(t, []).append(i)
        cur = pos.get(q.words[0], [])
        for w in q.words[1:]:
            nxt = set()
            for p in cur:
                for p2 in pos.get(w, []):
                    if 1 <= p2 - p <= q.slop:
                        nxt.add(p2)
            cur = sorted(nxt)
            if not cur:
                return False
        return bool(cur)
    if isinstance(q, query.Every):
        if q.fieldname is None:
            return True
        v = d.get(q.fieldname)
        if q.fieldname in ("n", "d", "b") or (v is not None and not isinstance(v, str)):
            return v is not None and v != [] and v != ()
        return bool(toks(d, q.fieldname))
    if isinstance(q, query.And):
        return bool(q.subqueries) and all(matches(s, d) for s in q.subqueries)
    if isinstance(q, (query.Or, query.DisjunctionMax)):
        return any(matches(s, d) for s in q.subqueries)
    if isinstance(q, query.Not):
        return not matches(q.query, d)
    if isinstance(q, query.AndNot):
        return matches(q.a, d) and not matches(q.b, d)
    if isinstance(q, query.AndMaybe):
        return matches(q.a, d)
    if isinstance(q, query.Require):
        return matches(q.a, d) and matches(q.b, d)
    if isinstance(q, query.ConstantScoreQuery):
        return matches(q.child, d)
    raise Undecided("no model for %s" % type(q).__name__)


def expected_keys(q, live):
    return set(k for k, d in live.items() if matches(q, d))


# ----------------------------------------------------------------------
# grouped (parent/child) corpora and nested queries
# ----------------------------------------------------------------------

def gen_group_history(rng, ngroups=(2, 12), nseg=(1, 3)):
    """Documents come in groups: a parent (k contains the token 'parent') followed by 0..4 children.
    Groups never span commits. Deletions remove whole groups or single children (never a parent alone)."""
    groups = []
    key = 0
    for _ in range(rng.randint(*ngroups)):
        g = []
        p = gen_doc(rng, key, sparse=0.0)
        p["k"] = "parent " + rng.choice(KVOCAB)
        key += 1
        g.append(p)
        for _ in range(rng.choice([0, 1, 1, 2, 3, 4])):
            c = gen_doc(rng, key, sparse=0.0)
            c["k"] = rng.choice(KVOCAB)
            key += 1
            g.append(c)
        groups.append(g)
    segs = min(rng.randint(*nseg), len(groups))
    cuts = sorted(rng.sample(range(1, len(groups)), segs - 1)) if segs > 1 else []
    commits, prev = [], 0
    for c in cuts + [len(groups)]:
        commits.append([d for g in groups[prev:c] for d in g])
        prev = c
    deletes = []
    mode = rng.choice(["none", "none", "children", "groups"])
    if mode == "children":
        for g in groups:
            for c in g[1:]:
                if rng.random() < 0.3:
                    deletes.append(c["id"])
    elif mode == "groups":
        for g in groups:
            if rng.random() < 0.25:
                deletes.extend(d["id"] for d in g)
    return {"commits": commits, "deletes": deletes, "blocklimit": rng.choice([2, 4, 128]),
            "storage": rng.choice(["ram", "ram", "file"]), "groups": [[d["id"] for d in g] for g in groups]}


def gen_nested_query(rng):
    from whoosh import query
    parents = query.Term("k", "parent")
    r = rng.random()
    if r < 0.5:
        child = rng.choice([query.Term("t", zipf_choice(rng, VOCAB)), query.Term("k", rng.choice(KVOCAB)),
                            query.Or([query.Term("t", "alfa"), query.Term("t", "bravo")]), query.NumericRange("n", -2, 3)])
        return query.NestedParent(parents, child)
    wanted = rng.choice([query.And([parents, query.Term("k", rng.choice(KVOCAB))]),
                         query.And([parents, query.Term("t", zipf_choice(rng, VOCAB))]), parents])
    return query.NestedChildren(parents, wanted)


def nested_expected(q, history, live):
    """Set of keys a NestedParent / NestedChildren query over the grouped corpus must return.
    NestedParent(P, C): the parent of every live document matching C (a matching parent is its own parent).
    NestedChildren(P, W): the live children of every live parent matching W."""
    from whoosh import query
    out = set()
    for g in history["groups"]:
        pkey = g[0]
        if isinstance(q, query.NestedParent):
            if pkey not in live:
                continue
            if any(k in live and matches(q.child, live[k]) for k in g):
                out.add(pkey)
        else:
            if pkey in live and matches(q.child, live[pkey]):
                out.update(k for k in g[1:] if k in live)
    return out


def gen_skip_stress(rng):
    """Trees of frequent plain Term leaves: long multi-block posting lists on every side, so that the
    block-skipping paths of the binary matchers (skip_to_quality of And/Or/AndMaybe/Require) are driven hard."""
    from whoosh import query

    def term():
        if rng.random() < 0.12:
            # a positional leaf: its matcher filters an intersection of long posting lists by positions, and must stay on a
            # real phrase match after every block skip
            ws = rng.sample(VOCAB[:5], 2)
            return query.Phrase("t", ws, slop=rng.choice([1, 1, 2, 3]))
        f = rng.choice(["t", "t", "t", "u"])
        t = query.Term(f, rng.choice(VOCAB[:5]))
        if rng.random() < 0.3:
            t = t.with_boost(rng.choice([0.5, 2.0, 3.0]))
        return t

    def node(depth):
        if depth == 0 or rng.random() < 0.35:
            return term()
        r = rng.random()
        if r < 0.4:
            return query.And([node(depth - 1) for _ in range(rng.randint(2, 3))])
        if r < 0.6:
            return query.Or([node(depth - 1) for _ in range(rng.choice([2, 2, 3]))], boost=rng.choice([1.0, 1.0, 3.0]))
        if r < 0.7:
            # three or more alternatives: a DisjunctionMax matcher nested in another one
            return query.DisjunctionMax([node(depth - 1) for _ in range(rng.choice([2, 3, 3, 4]))], boost=rng.choice([1.0, 1.0, 2.0]))
        if r < 0.8:
            return query.AndMaybe(node(depth - 1), node(depth - 1))
        if r < 0.9:
            return query.Require(node(depth - 1), node(depth - 1))
        return query.AndNot(node(depth - 1), term())
    q = node(rng.choice([1, 2, 2]))
    if isinstance(q, query.Term):
        q = query.And([q, term()])
    elif isinstance(q, query.Phrase) and rng.random() < 0.6:
        q = query.Or([q, term()])
    return q


def gen_big_history(rng, small_first=False):
    """One BIG sparse segment (2100..4600 documents, more than one 2048-document buffer part of the array
    union matcher), optionally preceded by a small dense segment (which fills a top-N heap first). Most documents
    of the big segment carry no text; matching documents sit in clusters and around the part boundaries."""
    n = rng.randint(2100, 4600)
    hot = set()
    for base in (0, 2048, 4096):
        for off in (-3, -2, -1, 0, 1, 2, 5):
            if 0 <= base + off < n and rng.random() < 0.5:
                hot.add(base + off)
    for _ in range(rng.randint(3, 30)):
        c = rng.randrange(n)
        for j in range(rng.randint(1, 6)):
            if c + j < n:
                hot.add(c + j)
    commits = []
    key = 0
    if small_first:
        first = []
        for _ in range(rng.randint(20, 60)):
            first.append(gen_doc(rng, key, maxlen=6, sparse=0.0, burst=0.1))
            key += 1
        commits.append(first)
    big = []
    for i in range(n):
        if i in hot:
            d = gen_doc(rng, key, maxlen=5, sparse=0.0, burst=0.3)
        else:
            d = {"id": str(key)}
            if rng.random() < 0.02:
                d["n"] = rng.randint(-5, 5)
        big.append(d)
        key += 1
    commits.append(big)
    deletes = []
    if rng.random() < 0.4:
        deletes = [big[i]["id"] for i in rng.sample(sorted(hot), min(len(hot), rng.randint(1, 5)))]
    return {"commits": commits, "deletes": deletes, "blocklimit": rng.choice([4, 128]), "storage": "ram"}


def gen_staged_history(rng):
    """Hostile workload for top-N searching: most documents hold the frequent words once (long, flat, multi-block
    posting lists); a few STRONG documents (one or two words repeated 3..10 times) sit in an early cluster (they fill
    the heap and raise the threshold), then a long weak stretch follows (whole blocks become skippable), and the
    best documents come late (in blocks the optimisation is tempted to skip)."""
    n = rng.randint(120, 420)
    words = VOCAB[:4]
    strong = set(rng.sample(range(0, min(12, n)), rng.randint(2, 5)))
    late0 = rng.randint(n // 2, n - 5)
    strong |= set(rng.sample(range(late0, n), rng.randint(1, 4)))
    strong |= set(rng.sample(range(n), rng.randint(0, 4)))
    docs = []
    for i in range(n):
        present = [w for w in words if rng.random() < (0.9 if w in words[:2] else 0.5)]
        toks = list(present)
        if i in strong and present:
            for w in rng.sample(present, min(len(present), rng.randint(1, 2))):
                toks += [w] * rng.randint(2, 9)
        rng.shuffle(toks)
        d = {"id": str(i), "t": " ".join(toks)}
        if rng.random() < 0.5:
            d["u"] = " ".join(rng.choice(words) for _ in range(rng.randint(1, 3)))
        if rng.random() < 0.5:
            d["k"] = rng.choice(KVOCAB)
        docs.append(d)
    segs = rng.choice([1, 1, 2, 3])
    cuts = sorted(rng.sample(range(1, n), segs - 1)) if segs > 1 else []
    commits, prev = [], 0
    for c in cuts + [n]:
        commits.append(docs[prev:c])
        prev = c
    deletes = [d["id"] for d in rng.sample(docs, rng.choice([0, 0, 3, 20]))]
    return {"commits": commits, "deletes": deletes, "blocklimit": rng.choice([2, 4, 8, 16]), "storage": "ram"}


# ----------------------------------------------------------------------
# scale-down of a tunable: the buffer part size of the array union matcher
# ----------------------------------------------------------------------

@contextlib.contextmanager
def array_partsize(n):
    """whoosh.matching.combo.ArrayUnionMatcher buffers scores in parts of `partsize` document numbers (constructor
    parameter, default 2048; an Or of >= 3 clauses uses this matcher on segments of <= 5000 documents). What it
    returns must not depend on the part size. Inside this context the DEFAULT of that parameter is n, so that the
    part-refill paths (reached in production only by segments beyond 2048 documents) run on small corpora too.
    n=None: no change."""
    if n is None:
        yield
        return
    import inspect
    from whoosh.matching import combo
    f = combo.ArrayUnionMatcher.__init__
    names = list(inspect.signature(f).parameters)
    if names[-1] != "partsize" or not f.__defaults__:
        raise RuntimeError("ArrayUnionMatcher.__init__ has no trailing partsize parameter any more: %r" % (names,))
    old = f.__defaults__
    f.__defaults__ = old[:-1] + (n,)
    try:
        yield
    finally:
        f.__defaults__ = old


def partsize_for(idx, every=3):
    """Deterministic choice per case index: None (production default) for most cases, a small part size for every
    `every`-th."""
    if idx % every != 1:
        return None
    return (2, 5, 16, 64, 3, 300)[(idx // every) % 6]
