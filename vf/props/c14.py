"""C14 - sorting, grouping, collapsing, filtering and paging are exact views of the results.

Reference-model monitors: the model is Python's sort / group-by over the generated documents (never
whoosh's sorting helpers); the real engine runs on an index of the same documents in 1..4 segments,
with deletions, whose sort fields have a column in all / none / only some of the segments.
"""
import datetime
import itertools
import random

LEVEL = "exploration"
RULE = ("case = (corpus of 3..45 documents with missing values in every key field; 1..4 unmerged segments; deletions; column layout "
        "in {all segments, none, only the newer segments, only the older segments, added afterwards with sorting.add_sortable}; a "
        "query) on which ~60 views are evaluated: single-key sorts over {ID text, NUMERIC, DATETIME, BOOLEAN, STORED-only, id} "
        "ascending/reversed per facet or per collector, multi-key sorts with mixed directions incl. Score/Function/Query/Range/"
        "DateRange facets, limit k vs unlimited; groupedby over the same facets (+ overlapping KEYWORD) with the four map types; "
        "collapse (limit N, optional order facet, with sorted or scored ranking); filter/mask given as Query / Results / doc-number set "
        "incl. empty ones; search_page for every page number up to two past the end. Non-trivial when the matched set has >= 2 "
        "distinct keys and (for sorts) at least one document lacks the key or a tie exists; distinct = (view family, facet kinds and "
        "directions, column layout, #segments, deletions, limit class).")
ASSUMPTIONS = [
    "order: per-facet reverse=True reverses the key only (ties stay in ascending document order); collector-level reverse=True is the "
    "exact reverse of the non-reversed list; documents lacking a key must form ONE contiguous run at either end of the run of their "
    "tie group (either end accepted, per key level); among themselves they are in document order (reversed under collector reverse)",
    "sort keys are single-valued fields (ID, NUMERIC int, DATETIME, BOOLEAN, STORED); multi-valued KEYWORD is used only for overlapping "
    "grouping - what 'the value' of a multi-token field is for sorting is not defined by the docs",
    "BOOLEAN group names are compared through the field's own from_bytes(to_bytes(value)) ('t'/'f'), not literally",
    "the scored ranking search(q, limit=None) (score desc, doc number asc) is the oracle ranking for collapse / filter / paging and its "
    "scores are the ScoreFacet keys (scoring itself: C05/C09); it is checked to contain exactly the model's matched set",
    "groups: the name of the group holding documents WITHOUT the key is not specified (None, '' or the column default): required is only that "
    "these documents sit together in one group that holds nothing else (float columns: the default is NaN, and since NaN != NaN each such document "
    "is a NaN-named group of its own - accepted); for allow_overlap facets documents without any value may also be in no group",
    "QueryFacet dictionaries used for sorting/non-overlapping grouping are disjoint (which name wins for a document matching two queries is unspecified)",
    "collapse: documents without the collapse key are never eliminated (documented); with a numeric collapse column the missing documents carry the column "
    "default and are indistinguishable from a real key, so numeric collapse keys are only used on corpora where every matched document has the key",
    "page number beyond the last page: the ResultsPage docstring (clamp to the last page) and the search_page docstring (ValueError) disagree; both accepted",
    "filtered_count is compared only for unlimited or sorted searches (a top-N collector that skips blocks does not see every filtered document)",
]
SHARDS = {"quick": 4, "thorough": 16}
BUDGET_S = {"quick": 80, "thorough": 800}
FLOORS = {
    "quick": {"c14.layout.segment_over_2048_docs": 1, "c14.layout.rewritten_with_deletions": 3, "c14.cases": 80, "c14.sort.evals": 2200, "c14.sort.nontrivial": 1500, "c14.sort.multikey": 1000, "c14.group.evals": 1300,
              "c14.collapse.evals": 1200, "c14.collapse.eliminating": 600, "c14.filter.evals": 1200, "c14.filter.empty_operand": 300,
              "c14.page.evals": 1200, "c14.page.empty_results": 120, "c14.page.beyond_last": 500, "c14.len.evals": 7000,
              "c14.layout.mixed_columns": 18, "c14.layout.added": 8, "c14.layout.multiseg_with_deletions": 20},
    "thorough": {"c14.cases": 2500, "c14.sort.evals": 70000, "c14.sort.nontrivial": 50000, "c14.sort.multikey": 30000,
                 "c14.group.evals": 40000, "c14.collapse.evals": 40000, "c14.collapse.eliminating": 20000, "c14.filter.evals": 40000,
                 "c14.filter.empty_operand": 10000, "c14.page.evals": 40000, "c14.page.empty_results": 4000, "c14.page.beyond_last": 15000,
                 "c14.len.evals": 240000, "c14.layout.mixed_columns": 600, "c14.layout.added": 300,
                 "c14.layout.multiseg_with_deletions": 700},
}

WORDS = ["alfa", "bravo", "charlie", "delta"]
TAGS = ["a", "b", "c", "aa", "ab", "B", "é"]
KWS = ["red", "green", "blue", "cyan"]
GRPS = ["g1", "g2", "g3", "g4"]
EPOCH = datetime.datetime(2020, 1, 1)
COLFIELDS = ["tag", "n", "d", "grp", "o", "fl", "w"]


class Missing(object):
    def __repr__(self):
        return "<missing>"


MISSING = Missing()


class Rev(object):
    """Reverses the order of the wrapped value."""
    __slots__ = ("v",)

    def __init__(self, v):
        self.v = v

    def __lt__(self, other):
        return other.v < self.v

    def __gt__(self, other):
        return other.v > self.v

    def __eq__(self, other):
        return self.v == other.v

    def __hash__(self):
        return hash(self.v)


# ----------------------------------------------------------------------
# corpus and index
# ----------------------------------------------------------------------

def make_schema(sortable, kvector):
    from whoosh import fields
    return fields.Schema(
        id=fields.ID(stored=True, unique=True),
        tag=fields.ID(stored=True, sortable=sortable),
        n=fields.NUMERIC(int, stored=True, sortable=sortable),
        d=fields.DATETIME(stored=True, sortable=sortable),
        b=fields.BOOLEAN(stored=True),
        st=fields.STORED,
        t=fields.TEXT(stored=True),
        k=fields.KEYWORD(stored=True, vector=kvector),
        grp=fields.ID(stored=True, sortable=sortable),
        o=fields.NUMERIC(int, stored=True, sortable=sortable),
        fl=fields.NUMERIC(float, stored=True, sortable=sortable),
        w=fields.TEXT(stored=True, sortable=sortable),
    )


def gen_doc(rng, i, sparse):
    d = {"id": "%03d" % i, "t": " ".join(rng.choice(WORDS) for _ in range(rng.randint(1, 5))), "o": rng.randint(0, 4)}
    if rng.random() > sparse:
        d["tag"] = rng.choice(TAGS)
    if rng.random() > sparse:
        d["n"] = rng.randint(-3, 3)
    if rng.random() > sparse:
        d["d"] = EPOCH + datetime.timedelta(days=rng.randint(0, 5), hours=rng.choice([0, 0, 12]))
    if rng.random() > sparse:
        d["b"] = rng.random() < 0.5
    if rng.random() > sparse:
        d["st"] = rng.randint(0, 4)
    if rng.random() > sparse:
        d["k"] = " ".join(rng.sample(KWS, rng.randint(1, 3)))
    if rng.random() > sparse:
        d["grp"] = rng.choice(GRPS)
    if rng.random() > sparse:
        d["fl"] = rng.choice([-2.5, -0.5, 0.0, 0.25, 1.5, 1e3])
    if rng.random() > sparse:
        d["w"] = rng.choice(["kilo", "lima", "mike", "november"])   # one word per document: a single-valued TEXT key
    return d


class Case(object):
    def __init__(self, rng):
        self.colmode = rng.choice(["all", "all", "none", "none", "late", "early", "added", "added_then_more"])
        self.nseg = rng.randint(1, 4)
        if self.colmode in ("late", "early", "added_then_more") and self.nseg < 2:
            self.nseg = 2
        self.kvector = rng.random() < 0.3
        self.sparse = rng.choice([0.0, 0.15, 0.15, 0.3, 0.5])
        small = rng.random() < 0.25
        self.big = rng.random() < 0.12
        self.blocklimit = rng.choice([2, 4, 128, 128])
        hr = random.Random("c14-huge:%r" % rng.random()).random()
        self.huge = hr < 0.035
        if self.huge:
            # one segment beyond the 2048-document part size of the array union (plus, sometimes, a small one before it)
            self.nseg = 1 if hr < 0.02 else 2
            sizes = ([rng.randint(3, 30)] if self.nseg == 2 else []) + [rng.randint(2100, 2900)]
            if self.colmode in ("late", "early", "added_then_more") and self.nseg < 2:
                self.colmode = "all"
        elif self.big:
            sizes = [rng.randint(30, 90) for _ in range(self.nseg)]
        else:
            sizes = [rng.randint(1, 4 if small else 12) for _ in range(self.nseg)]
        self.segments, i = [], 0
        for sz in sizes:
            seg = []
            for _ in range(sz):
                seg.append(gen_doc(rng, i, self.sparse))
                i += 1
            self.segments.append(seg)
        ids = [d["id"] for seg in self.segments for d in seg]
        self.deletes = []
        r = rng.random()
        if r < 0.25:
            self.deletes = rng.sample(ids, min(len(ids) - 1, rng.randint(1, 3)))
        elif r < 0.35:
            self.deletes = rng.sample(ids, rng.randint(0, len(ids) - 1))
        self.split = rng.randint(1, self.nseg - 1) if self.nseg > 1 else 1   # where the schema changes (late/early)
        lr = random.Random("c14-late-add:%r" % rng.random())
        self.late_add = lr.random() < 0.6
        if self.colmode == "added" and self.late_add and ids and lr.random() < 0.7:
            # make sure the LAST document of some segment is among the deleted ones
            tail = lr.choice([seg[-1]["id"] for seg in self.segments if seg])
            if tail not in self.deletes and len(self.deletes) < len(ids) - 1:
                self.deletes.append(tail)
        # final layout step (own stream: keeps the earlier case stream unchanged): the segments - with their deletions - are
        # rewritten by an optimize or by the default merge policy. Only for uniform column layouts: merging a segment written
        # without a column into one with the column gives those documents the column default (a format limitation)
        r2 = random.Random("c14-after:%r" % rng.random()).random()
        self.after = None
        if self.colmode in ("all", "none"):
            self.after = "optimize" if r2 < 0.2 else ("merge" if r2 < 0.35 else None)

    def layout(self):
        return {"colmode": self.colmode, "segments": [len(s) for s in self.segments], "deletes": len(self.deletes),
                "kvector": self.kvector, "sparse": self.sparse, "schema_change_after_segment": self.split, "blocklimit": self.blocklimit,
                "after": self.after, "add_sortable_after_deletes": self.colmode == "added" and self.late_add}

    def build(self):
        from whoosh import sorting
        from whoosh.codec.whoosh3 import W3Codec
        from whoosh.filedb.filestore import RamStorage
        st = RamStorage()
        cm = self.colmode
        first_sortable = cm in ("all", "early")
        ix = st.create_index(make_schema(first_sortable, self.kvector))
        for si, seg in enumerate(self.segments):
            if cm in ("late", "early") and si == self.split:
                ix = st.open_index(schema=make_schema(cm == "late", self.kvector))
            if cm == "added_then_more" and si == self.nseg - 1:
                self.add_sortable(ix)
            w = ix.writer(codec=W3Codec(blocklimit=self.blocklimit))
            for d in seg:
                w.add_document(**d)
            w.commit(merge=False)
        late_add = cm == "added" and self.late_add
        if cm == "added" and not late_add:
            self.add_sortable(ix)
        if self.deletes:
            w = ix.writer()
            for k in self.deletes:
                w.delete_by_term("id", k)
            w.commit(merge=False)
        if late_add:
            # the columns are retrofitted into segments that already carry deletions (also of their last documents)
            self.add_sortable(ix)
        if self.after:
            w = ix.writer(codec=W3Codec(blocklimit=self.blocklimit))
            if self.after == "optimize":
                w.commit(optimize=True)
            else:
                w.commit()
        self.ix = ix
        self.docs = dict((d["id"], d) for seg in self.segments for d in seg if d["id"] not in self.deletes)
        return ix

    def add_sortable(self, ix):
        from whoosh import sorting
        w = ix.writer()
        for f in COLFIELDS:
            sorting.add_sortable(w, f, sorting.FieldFacet(f))
        w.commit(merge=False)


def gen_query(rng):
    from whoosh import query
    r = rng.random()
    if r < 0.4:
        return query.Every(), (lambda d: True)
    if r < 0.7:
        w = rng.choice(WORDS)
        return query.Term("t", w), (lambda d: w in d["t"].split())
    if r < 0.78:
        # three clauses: the union buffers scores per 2048-document part (array union) and is consumed through all_ids()
        # by sorted / filtered / faceted searches
        w1, w2, w3 = rng.sample(WORDS, 3)
        # (constant score: a sum of three term scores depends in its last bit on the order of the additions, which
        # differs between matcher implementations - score ties must be exact ties for the tie-order clause)
        return (query.ConstantScoreQuery(query.Or([query.Term("t", w1), query.Term("t", w2), query.Term("t", w3)]), 1.0),
                (lambda d: bool({w1, w2, w3} & set(d["t"].split()))))
    if r < 0.9:
        w1, w2 = rng.sample(WORDS, 2)
        return query.Or([query.Term("t", w1), query.Term("t", w2)]), (lambda d: w1 in d["t"].split() or w2 in d["t"].split())
    if r >= 0.95:
        # list-backed and negated matchers (Every / numeric range as the positive side of AndNot, Not inside And): sorted,
        # unscored, filtered and faceted views consume them through all_ids()
        w1 = rng.choice(WORDS)
        lo = rng.choice([-3, -1, 0, 1])
        kind = rng.choice(["every-andnot", "range-andnot", "range", "and-not", "everyfield-andnot"])
        has = (lambda d: w1 in d["t"].split())
        inr = (lambda d: d.get("n") is not None and d["n"] >= lo)
        if kind == "every-andnot":
            return query.AndNot(query.Every(), query.Term("t", w1)), (lambda d: not has(d))
        if kind == "range-andnot":
            return query.AndNot(query.NumericRange("n", lo, None), query.Term("t", w1)), (lambda d: inr(d) and not has(d))
        if kind == "range":
            return query.NumericRange("n", lo, None), inr
        if kind == "everyfield-andnot":
            return query.AndNot(query.Every("n"), query.Term("t", w1)), (lambda d: d.get("n") is not None and not has(d))
        return query.And([query.NumericRange("n", lo, None), query.Not(query.Term("t", w1))]), (lambda d: inr(d) and not has(d))
    w1, w2 = rng.sample(WORDS, 2)
    return query.And([query.Term("t", w1), query.Term("t", w2)]), (lambda d: w1 in d["t"].split() and w2 in d["t"].split())


# ----------------------------------------------------------------------
# facet specifications: (whoosh facet object, model key function, description)
# ----------------------------------------------------------------------

class Spec(object):
    def __init__(self, kind, desc, make, keyfn, reverse=False, names=None):
        self.kind = kind          # shape label
        self.desc = desc          # human readable
        self.make = make          # () -> whoosh facet (fresh object per search)
        self.keyfn = keyfn        # (docnum) -> value or MISSING
        self.reverse = reverse
        self.names = names        # for grouping: (value) -> expected group name


def field_key(env, f):
    def keyfn(dn):
        v = env.doc(dn).get(f)
        return MISSING if v is None else v
    return keyfn


def gen_spec(rng, env, allow_reverse=True, for_sort=True):
    from whoosh import sorting, query
    r = rng.random()
    rev = allow_reverse and rng.random() < 0.4
    if r < 0.55:
        f = rng.choice(["tag", "n", "d", "b", "id", "grp", "o", "tag", "n", "fl", "w"])
        return Spec("field:%s%s" % (f, ":rev" if rev else ""), "FieldFacet(%r, reverse=%r)" % (f, rev),
                    lambda: sorting.FieldFacet(f, reverse=rev), field_key(env, f), rev)
    if r < 0.63:
        return Spec("stored", "StoredFieldFacet('st')", lambda: sorting.StoredFieldFacet("st"), field_key(env, "st"))
    if r < 0.71:
        return Spec("score", "ScoreFacet()", lambda: sorting.ScoreFacet(), lambda dn: -env.score[dn])
    if r < 0.79:
        mod = rng.choice([2, 3, 4])

        def fn(searcher, docid):
            return int(searcher.stored_fields(docid)["id"]) % mod
        return Spec("function", "FunctionFacet(int(id) %% %d)" % mod, lambda: sorting.FunctionFacet(fn),
                    lambda dn: int(env.doc(dn)["id"]) % mod)
    if r < 0.87:
        other = rng.choice([None, "zz_other", "zz_other"])
        which = rng.random()
        if which < 0.5:
            tags = rng.sample(TAGS[:5], 2)
            qd = dict((tg, query.Term("tag", tg)) for tg in tags)

            def keyfn(dn):
                v = env.doc(dn).get("tag")
                return v if v in tags else (MISSING if other is None else other)
            desc = "QueryFacet({tag:%s, tag:%s}, other=%r)" % (tags[0], tags[1], other)
        else:
            qd = {"neg": query.NumericRange("n", None, -1), "pos": query.NumericRange("n", 1, None)}

            def keyfn(dn):
                v = env.doc(dn).get("n")
                if v is not None and v <= -1:
                    return "neg"
                if v is not None and v >= 1:
                    return "pos"
                return MISSING if other is None else other
            desc = "QueryFacet({neg:n<=-1, pos:n>=1}, other=%r)" % (other,)
        return Spec("queryfacet:%s" % ("none" if other is None else "other"), desc,
                    lambda: sorting.QueryFacet(dict(qd), other=other), keyfn)
    if r < 0.94:
        start, end, gap = rng.choice([(-3, 3, 2), (-3, 4, 3), (-2, 2, 1), (0, 3, 2), (-3, 4, [1, 2]), (-3, 3, [3, 1, 2])])
        hard = rng.random() < 0.3

        def keyfn(dn):
            # documented: a sequence of gaps gives the sizes of the first buckets, the last size is used for all subsequent buckets
            v = env.doc(dn).get("n")
            if v is None:
                return MISSING
            gaps = list(gap) if isinstance(gap, list) else [gap]
            c, i = start, 0
            while c < end:
                e = c + gaps[min(i, len(gaps) - 1)]
                i += 1
                if hard:
                    e = min(e, end)
                if c <= v < e:
                    return (c, e)
                c = e
            return MISSING
        return Spec("rangefacet", "RangeFacet('n', %d, %d, %r, hardend=%r)" % (start, end, gap, hard),
                    lambda: sorting.RangeFacet("n", start, end, gap, hardend=hard), keyfn)
    days = rng.choice([1, 2, 3])
    start, end = EPOCH, EPOCH + datetime.timedelta(days=rng.choice([4, 6, 7]))
    gap = datetime.timedelta(days=days)

    def keyfn(dn):
        v = env.doc(dn).get("d")
        if v is None:
            return MISSING
        c = start
        while c < end:
            e = c + gap
            if c <= v < e:
                return (c, e)
            c = e
        return MISSING
    return Spec("daterangefacet", "DateRangeFacet('d', 2020-01-01, +%dd, gap %dd)" % ((end - start).days, days),
                lambda: sorting.DateRangeFacet("d", start, end, gap), keyfn)


def expected_orders(docnums, levels, collector_reverse):
    """All orders the statement allows: per level the documents lacking the key go to either end."""
    has_missing = [any(kf(dn) is MISSING for dn in docnums) for kf, _ in levels]
    choices = [(0, 1) if hm else (0,) for hm in has_missing]
    out = []
    for ends in itertools.product(*choices):
        def sk(dn):
            parts = []
            for (kf, rev), end in zip(levels, ends):
                v = kf(dn)
                if v is MISSING:
                    parts.append((1 if end else -1, None))
                else:
                    parts.append((0, Rev(v) if rev else v))
            parts.append(dn)
            return tuple(parts)
        order = sorted(docnums, key=sk)
        if collector_reverse:
            order.reverse()
        if order not in out:
            out.append(order)
    return out


# ----------------------------------------------------------------------
# the environment of one case: searcher, matched set, oracle ranking
# ----------------------------------------------------------------------

class Env(object):
    def __init__(self, ctx, rng, case, s, q, qfn, wit):
        self.ctx, self.rng, self.case, self.s, self.q = ctx, rng, case, s, q
        self.wit = wit
        self.id_of = {}
        for dn, sf in s.reader().iter_docs():
            self.id_of[dn] = sf["id"]
        self.matched = sorted(dn for dn, k in self.id_of.items() if qfn(case.docs[k]))
        self.score = {}
        self.full = []

    def doc(self, dn):
        return self.case.docs[self.id_of[dn]]

    def fail(self, family, mech, extra, detail=""):
        self.ctx.fail("c14." + family, mech, dict(self.wit, **extra), detail)

    def ids(self, dns):
        return [self.id_of.get(dn, "?%r" % (dn,)) for dn in dns]

    def guard(self, family, extra, fn):
        ok, val = self.ctx.guard("c14." + family, dict(self.wit, **extra), fn)
        return ok, val

    def check_len(self, family, what, r, expected, extra):
        self.ctx.count("c14.len.evals")
        ok, n = self.guard(family, dict(extra, call="len(results)"), lambda: len(r))
        if not ok:
            return False
        if n != expected:
            self.fail(family, "len:" + what, dict(extra, expected_len=expected, observed_len=n))
            return False
        return True


def base_ranking(env):
    """The scored exhaustive ranking; validated against the model's matched set."""
    s, q = env.s, env.q
    ok, r = env.guard("ranking", {"view": "search(q, limit=None)"}, lambda: [(h.docnum, h.score) for h in s.search(q, limit=None)])
    if not ok:
        return False
    full = [dn for dn, _ in r]
    if sorted(full) != env.matched:
        env.fail("ranking", "matched-set", {"expected": env.ids(env.matched), "observed": env.ids(full)})
        return False
    for (d1, s1), (d2, s2) in zip(r, r[1:]):
        if s1 < s2 or (s1 == s2 and d1 > d2):
            env.fail("ranking", "score-order", {"observed": r})
            return False
    env.full = full
    env.score = dict(r)
    return True


def limit_class(k, n):
    return "all" if k is None else ("k<n" if k < n else "k>=n")


# ----------------------------------------------------------------------
# monitor families
# ----------------------------------------------------------------------

def check_sorts(env, nviews):
    from whoosh import sorting
    ctx, rng, s, q = env.ctx, env.rng, env.s, env.q
    shapes = []
    for _ in range(nviews):
        nlev = rng.choice([1, 1, 1, 2, 2, 3])
        specs = [gen_spec(rng, env) for _ in range(nlev)]
        creverse = rng.random() < 0.3
        style = rng.choice(["facet", "facet", "name"])
        if style == "name" and nlev == 1 and specs[0].kind.startswith("field:"):
            # plain field name + collector-level reverse
            f = specs[0].kind.split(":")[1]
            specs[0] = Spec("field:%s" % f, "sortedby=%r" % f, lambda f=f: f, field_key(env, f), False)
        levels = [(sp.keyfn, sp.reverse) for sp in specs]
        desc = "sortedby=[%s]%s" % (", ".join(sp.desc for sp in specs), ", reverse=True" if creverse else "")
        k = rng.choice([None, None, 1, 2, 3, 5, 10])
        extra = {"view": desc, "limit": k}

        def make():
            if len(specs) > 1 and all(sp.kind.startswith("field:") for sp in specs) and rng.random() < 0.5:
                # the add_field() builder API
                mf = sorting.MultiFacet()
                for sp in specs:
                    mf.add_field(sp.kind.split(":")[1], reverse=sp.reverse)
                return mf
            objs = [sp.make() for sp in specs]
            if len(objs) == 1:
                return objs[0]
            if rng.random() < 0.5:
                return sorting.MultiFacet(objs)
            return objs

        ctx.count("c14.sort.evals")
        if nlev > 1:
            ctx.count("c14.sort.multikey")
        sb = make()
        ok, r = env.guard("sort", extra, lambda: s.search(q, limit=None, sortedby=sb, reverse=creverse))
        if not ok:
            continue
        got = [h.docnum for h in r]
        exps = expected_orders(env.matched, levels, creverse)
        keys = [[kf(dn) for kf, _ in levels] for dn in env.matched]
        nontrivial = len(set(repr(x) for x in keys)) >= 2 and (len(keys) > len(set(repr(x) for x in keys)) or any(MISSING in x for x in keys))
        if nontrivial:
            ctx.count("c14.sort.nontrivial")
        kinds = sorted(set(sp.kind.split(":")[0] + (":" + sp.kind.split(":")[1] if sp.kind.startswith("field:") and nlev == 1 else "")
                           for sp in specs))
        mech = "order:%s%s%s%s" % ("multi:" if nlev > 1 else "", "+".join(kinds), ":rev" if any(sp.reverse for sp in specs) else "",
                                   ":creverse" if creverse else "")
        if got not in exps:
            env.fail("sort", mech, dict(extra, expected_any_of=[env.ids(e) for e in exps[:2]], observed=env.ids(got),
                                        keys=[(env.id_of[dn], repr([kf(dn) for kf, _ in levels])) for dn in got[:40]]))
            continue
        if not env.check_len("sort", "sorted", r, len(env.matched), extra):
            continue
        if k is not None:
            sb = make()
            ok, r2 = env.guard("sort", extra, lambda: s.search(q, limit=k, sortedby=sb, reverse=creverse))
            if not ok:
                continue
            got2 = [h.docnum for h in r2]
            if got2 != got[:k]:
                env.fail("sort", "limit-prefix:" + mech, dict(extra, expected=env.ids(got[:k]), observed=env.ids(got2)))
                continue
            if not env.check_len("sort", "sorted+limit", r2, len(env.matched), extra):
                continue
        shapes.append(("sort", tuple(sp.kind for sp in specs), creverse, limit_class(k, len(env.matched)), nontrivial))
    # collector-level reverse of a scored search
    ctx.count("c14.sort.evals")
    ok, r = env.guard("sort", {"view": "search(q, limit=None, reverse=True)"}, lambda: s.search(q, limit=None, reverse=True))
    if ok:
        got = [h.docnum for h in r]
        if got != list(reversed(env.full)):
            env.fail("sort", "order:scored:creverse", {"view": "search(q, limit=None, reverse=True)", "expected": env.ids(reversed(env.full)),
                                                      "observed": env.ids(got)})
        env.check_len("sort", "scored+reverse", r, len(env.matched), {"view": "reverse=True"})
    # plain scored top-k: prefix of the exhaustive ranking (C05's subject; here for len() under a limit)
    for k in (1, 3, 10):
        ctx.count("c14.sort.evals")
        extra = {"view": "search(q, limit=%d)" % k}
        ok, r = env.guard("sort", extra, lambda: s.search(q, limit=k))
        if ok:
            got = [h.docnum for h in r]
            if got != env.full[:k]:
                env.fail("sort", "limit-prefix:scored", dict(extra, expected=env.ids(env.full[:k]), observed=env.ids(got)))
            env.check_len("sort", "scored+limit", r, len(env.matched), extra)
    return shapes


def gen_group_spec(rng, env):
    """Facets usable for grouping, with the model's group key(s) per document."""
    from whoosh import sorting
    r = rng.random()
    if r < 0.2:
        kind = "overlap:k"

        def keysfn(dn):
            v = env.doc(dn).get("k")
            return sorted(set(v.split())) if v else []
        return Spec(kind, "FieldFacet('k', allow_overlap=True)", lambda mt=None: sorting.FieldFacet("k", allow_overlap=True, maptype=mt),
                    keysfn), True
    if r < 0.27:
        def keysfn(dn):
            v = env.doc(dn).get("k")
            return sorted(set(v.split())) if v else []
        return Spec("overlap:stored:k", "StoredFieldFacet('k', allow_overlap=True)",
                    lambda mt=None: sorting.StoredFieldFacet("k", allow_overlap=True, maptype=mt), keysfn), True
    sp = gen_spec(rng, env, allow_reverse=rng.random() < 0.3)
    while sp.kind in ("score", ):
        sp = gen_spec(rng, env, allow_reverse=False)
    return sp, False


def check_groups(env, nviews):
    from whoosh import sorting
    ctx, rng, s, q = env.ctx, env.rng, env.s, env.q
    shapes = []
    for _ in range(nviews):
        sp, overlap = gen_group_spec(rng, env)
        mtname = rng.choice(["OrderedList", "OrderedList", "UnorderedList", "Count", "Best", "default"])
        mt = {"default": None}.get(mtname, getattr(sorting, mtname, None))
        how = rng.choice(["facet.maptype", "search.maptype"]) if mt is not None else "default"
        sortedby = rng.choice([None, None, "o", "id", "st"])
        k = rng.choice([None, None, 2, 5])
        if overlap and sp.kind == "overlap:stored:k" and any(env.doc(dn).get("k") is None for dn in env.matched):
            # StoredFieldFacet(allow_overlap) calls value.split(): a missing stored value is None (documented precondition: the field holds a string)
            ctx.count("c14.group.skipped_stored_overlap_missing")
            continue
        desc = "groupedby=%s maptype=%s(%s) sortedby=%r limit=%r" % (sp.desc, mtname, how, sortedby, k)
        extra = {"view": desc}
        ctx.count("c14.group.evals")

        def run():
            kw = {}
            if overlap:
                facet = sp.make(mt if how == "facet.maptype" else None)
            else:
                facet = sp.make()
                if how == "facet.maptype":
                    facet.maptype = mt
            if how == "search.maptype":
                kw["maptype"] = mt
            if sortedby == "st":
                kw["sortedby"] = sorting.StoredFieldFacet("st")     # key None for documents without the stored value
            elif sortedby:
                kw["sortedby"] = sortedby
            r = s.search(q, limit=k, groupedby=facet, **kw)
            return r, r.groups(), [h.docnum for h in r]
        ok, val = env.guard("group", extra, run)
        if not ok:
            continue
        r, groups, hits = val
        # the ranking the groups refer to
        if sortedby == "st":
            # documents without the key sit at one end (either): take the end from the observed unlimited order
            present = sorted((dn for dn in env.matched if env.doc(dn).get("st") is not None), key=lambda dn: (env.doc(dn)["st"], dn))
            absent = [dn for dn in env.matched if env.doc(dn).get("st") is None]
            ok2, allhits = env.guard("group", extra, lambda: [h.docnum for h in s.search(q, limit=None, sortedby=sorting.StoredFieldFacet("st"))])
            if not ok2:
                continue
            if allhits == absent + present:
                ranking = absent + present
            elif allhits == present + absent:
                ranking = present + absent
            else:
                env.fail("group", "order:stored-with-missing", dict(extra, observed=env.ids(allhits), expected_either=[env.ids(absent + present), env.ids(present + absent)]))
                continue
            ctx.count("c14.group.sorted_by_none_keys")
        elif sortedby:
            ranking = sorted(env.matched, key=lambda dn: (env.doc(dn)[sortedby], dn))
        else:
            ranking = env.full
        if hits != (ranking if k is None or not sortedby else ranking[:k]) and (sortedby or k is None):
            env.fail("group", "hits-with-groupedby", dict(extra, observed=env.ids(hits), expected=env.ids(ranking)))
            continue
        # model groups
        model = {}
        nokey = []
        for dn in ranking:
            if overlap:
                ks = sp.keyfn(dn)
                if not ks:
                    nokey.append(dn)
                for kx in ks:
                    model.setdefault(kx, []).append(dn)
            else:
                kx = sp.keyfn(dn)
                if kx is MISSING:
                    nokey.append(dn)
                else:
                    model.setdefault(kx, []).append(dn)

        def norm(v):
            if mtname == "Count":
                return v
            if mtname == "Best":
                return v
            if mtname == "UnorderedList":
                return sorted(v)
            return list(v)

        def expect(dns):
            if mtname == "Count":
                return len(dns)
            if mtname == "Best":
                return dns[0]
            if mtname == "UnorderedList":
                return sorted(dns)
            return list(dns)
        mech = "groups:%s:%s" % (sp.kind, mtname)
        bad = None
        rest = dict(groups)
        if sp.kind in ("field:b", "field:b:rev"):
            # BOOLEAN has no column: group names are the field's own from_bytes(to_bytes(value)) (assumption: not literal True/False)
            fb = env.s.schema["b"]
            rest = dict((({fb.from_bytes(fb.to_bytes(True)): True, fb.from_bytes(fb.to_bytes(False)): False}.get(kx, kx)
                          if kx is not None else kx), v) for kx, v in rest.items())
        for name, dns in model.items():
            if name not in rest:
                bad = "no group named %r (expected members %r)" % (name, env.ids(dns))
                break
            if norm(rest[name]) != expect(dns):
                bad = "group %r holds %r, expected %r" % (name, rest[name], expect(dns))
                break
            del rest[name]
        if bad is None and sp.kind.startswith("field:fl") and len(rest) > 1 and all(isinstance(nm, float) and nm != nm for nm in rest):
            # float column: the default is NaN and NaN != NaN, so every document without a value is a group of its own (assumption)
            ctx.count("c14.group.nan_singletons")
            members = sorted(dn for v in rest.values() for dn in ([v] if isinstance(v, int) and mtname == "Best" else (v if isinstance(v, list) else [])))
            if mtname == "Count":
                if sum(rest.values()) != len(nokey):
                    bad = "NaN groups count %r documents, %d lack the key" % (sum(rest.values()), len(nokey))
            elif members != sorted(nokey):
                bad = "NaN groups hold %r, documents without the key: %r" % (members, sorted(nokey))
        elif bad is None:
            # what remains may only be the single group of the documents without the key
            if len(rest) > 1:
                bad = "extra groups %r" % (sorted(map(repr, rest)),)
            elif len(rest) == 1:
                (name, val), = rest.items()
                if not nokey:
                    bad = "extra group %r = %r" % (name, val)
                elif norm(val) != expect(nokey):
                    bad = "group %r of the documents without a key holds %r, expected %r" % (name, val, expect(nokey))
            elif nokey and not overlap:
                bad = "documents without the key are in no group: %r" % (env.ids(nokey),)
        if bad:
            env.fail("group", mech, dict(extra, observed_groups=dict((repr(kx), v) for kx, v in groups.items()),
                                         model_groups=dict((repr(kx), v) for kx, v in model.items()), without_key=nokey), bad)
            continue
        if not env.check_len("group", "grouped", r, len(env.matched), extra):
            continue
        shapes.append(("group", sp.kind, mtname, bool(sortedby), len(model) >= 2))
    # several facets at once
    ctx.count("c14.group.evals")
    extra = {"view": "groupedby=['tag', 'n', 'b']"}
    form = rng.choice(["list", "dict", "Facets"])

    def multi():
        from whoosh import sorting
        if form == "list":
            return s.search(q, limit=3, groupedby=["tag", "n", "b"])
        if form == "dict":
            return s.search(q, limit=3, groupedby={"tag": sorting.FieldFacet("tag"), "n": sorting.FieldFacet("n"), "b": sorting.FieldFacet("b")})
        fs = sorting.Facets()
        fs.add_field("tag").add_field("n")
        fs.add_facet("b", sorting.FieldFacet("b"))
        return s.search(q, limit=3, groupedby=fs)
    extra = {"view": "groupedby=['tag', 'n', 'b'] given as %s" % form}
    ok, val = env.guard("group", extra, multi)
    if ok:
        for f in ("tag", "n", "b"):
            g = val.groups(f)
            flat = sorted(dn for dns in g.values() for dn in dns)
            if flat != env.matched:
                env.fail("group", "groups:multi-facets:partition", dict(extra, facet=f, observed=flat, expected=env.matched))
                break
            for name, dns in g.items():
                vals = set(env.doc(dn).get(f) for dn in dns)
                if f == "b" and name is not None:
                    fb = s.schema["b"]
                    name = {fb.from_bytes(fb.to_bytes(True)): True, fb.from_bytes(fb.to_bytes(False)): False}.get(name, name)
                if len(vals) != 1 or (None not in vals and vals != set([name])):
                    env.fail("group", "groups:multi-facets:key", dict(extra, facet=f, group=repr(name), values=repr(vals)))
                    break
    return shapes


def check_collapse(env, nviews):
    from whoosh import sorting, query
    ctx, rng, s, q = env.ctx, env.rng, env.s, env.q
    shapes = []
    for _ in range(nviews):
        keyf = rng.choice(["grp", "grp", "tag", "n", "b"])
        if keyf in ("n",) and any(env.doc(dn).get(keyf) is None for dn in env.matched):
            keyf = "grp"
        n = rng.choice([1, 1, 2, 3])
        k = rng.choice([None, None, 1, 2, 3, 5, 10])
        sortedby = rng.choice([None, None, "o", "id", "n", "st"])
        order = rng.choice([None, None, None, "o", "o-rev"])
        kw = {"collapse": keyf, "collapse_limit": n}
        if rng.random() < 0.2:
            kw["terms"] = True
        if rng.random() < 0.15:
            fw = rng.choice(WORDS)
            kw["filter"] = query.Term("t", fw)
        if sortedby == "n" and any(env.doc(dn).get("n") is None for dn in env.matched):
            sortedby = "o"
        if sortedby == "st":
            kw["sortedby"] = sorting.StoredFieldFacet("st")
            present = sorted((dn for dn in env.matched if env.doc(dn).get("st") is not None), key=lambda dn: (env.doc(dn)["st"], dn))
            absent = [dn for dn in env.matched if env.doc(dn).get("st") is None]
            ok2, allhits = env.guard("collapse", {"view": "sortedby=StoredFieldFacet('st')"},
                                     lambda: [h.docnum for h in s.search(q, limit=None, sortedby=sorting.StoredFieldFacet("st"))])
            if not ok2 or allhits not in (absent + present, present + absent):
                continue     # the sort family reports it
            ranking = allhits
            ctx.count("c14.collapse.sorted_by_none_keys")
        elif sortedby:
            kw["sortedby"] = sortedby
            ranking = sorted(env.matched, key=lambda dn: (env.doc(dn)[sortedby], dn))
        else:
            ranking = env.full
        if "filter" in kw:
            ranking = [dn for dn in ranking if fw in env.doc(dn)["t"].split()]
        pos = dict((dn, i) for i, dn in enumerate(ranking))
        if order == "o":
            kw["collapse_order"] = sorting.FieldFacet("o")
            pref = lambda dn: (env.doc(dn)["o"], dn)
        elif order == "o-rev":
            kw["collapse_order"] = sorting.FieldFacet("o", reverse=True)
            pref = lambda dn: (-env.doc(dn)["o"], dn)
        else:
            pref = lambda dn: pos[dn]
        desc = "collapse=%r collapse_limit=%d collapse_order=%r sortedby=%r limit=%r%s%s" % (
            keyf, n, order, sortedby, k, " terms=True" if kw.get("terms") else "", " filter=Term('t', %r)" % fw if "filter" in kw else "")
        extra = {"view": desc}
        ctx.count("c14.collapse.evals")
        # model: best n per key by `pref`, presented in ranking order
        bykey = {}
        for dn in ranking:
            v = env.doc(dn).get(keyf)
            if v is not None:
                bykey.setdefault(v, []).append(dn)
        keep = set(dn for dn in ranking if env.doc(dn).get(keyf) is None)
        counts = {}
        for v, dns in bykey.items():
            best = sorted(dns, key=pref)[:n]
            keep.update(best)
            if len(dns) > n:
                counts[v] = len(dns) - n
        exp = [dn for dn in ranking if dn in keep]
        ok, r = env.guard("collapse", extra, lambda: s.search(q, limit=k, **kw))
        if not ok:
            continue
        got = [h.docnum for h in r]
        want = exp if k is None else exp[:k]
        mech = "%s%s%s%s" % ("sorted" if sortedby else "scored", "+order" if order else "", "" if k is None else "+limit",
                               "+filter" if "filter" in kw else "")
        if got != want:
            env.fail("collapse", "hits:" + mech, dict(extra, expected=env.ids(want), observed=env.ids(got), uncollapsed_ranking=env.ids(ranking),
                                                     keys=[(env.id_of[dn], env.doc(dn).get(keyf)) for dn in ranking]))
            continue
        if not env.check_len("collapse", "collapse:" + mech, r, len(exp), dict(extra, uncollapsed=len(ranking))):
            continue
        cc = dict((kx, v) for kx, v in dict(r.collapsed_counts).items() if v)
        if keyf == "b":
            fb = s.schema["b"]
            cc = dict(({fb.from_bytes(fb.to_bytes(True)): True, fb.from_bytes(fb.to_bytes(False)): False}.get(kx, kx), v) for kx, v in cc.items())
        ctx.count("c14.collapse.counts_evals")
        if cc != counts:
            env.fail("collapse", "collapsed_counts:" + mech, dict(extra, expected=dict((repr(a), b) for a, b in counts.items()),
                                                                 observed=dict((repr(a), b) for a, b in cc.items())))
            continue
        if counts:
            ctx.count("c14.collapse.eliminating")
        shapes.append(("collapse", keyf, n, mech, limit_class(k, len(exp)), bool(counts)))
    return shapes


def check_filters(env, nviews):
    from whoosh import query
    ctx, rng, s, q = env.ctx, env.rng, env.s, env.q
    shapes = []

    def gen_set(label):
        """Returns (kind, object factory, model set of doc numbers)."""
        r = rng.random()
        live = sorted(env.id_of)
        if r < 0.3:
            w = rng.choice(WORDS + ["zzz"])
            fq = query.Term("t", w)
            docs = set(dn for dn in live if w in env.doc(dn)["t"].split())
            return "query" + (":empty" if not docs else ""), (lambda: fq), docs, "Term('t', %r)" % w
        if r < 0.45:
            tg = rng.choice(TAGS + ["nope"])
            fq = query.Or([query.Term("tag", tg), query.Term("grp", "g1")])
            docs = set(dn for dn in live if env.doc(dn).get("tag") == tg or env.doc(dn).get("grp") == "g1")
            return "query" + (":empty" if not docs else ""), (lambda: fq), docs, "Or(tag:%s, grp:g1)" % tg
        if r < 0.7:
            w = rng.choice(WORDS + ["zzz"])
            lim = rng.choice([None, 1, 2])
            docs = set(dn for dn in live if w in env.doc(dn)["t"].split())
            return ("results" + (":empty" if not docs else "") + (":limited" if lim else ""),
                    (lambda: s.search(query.Term("t", w), limit=lim)), docs, "Results of search(Term('t', %r), limit=%r)" % (w, lim))
        if r < 0.76:
            w = rng.choice(WORDS + ["zzz"])
            docs = set(dn for dn in live if w in env.doc(dn)["t"].split())
            return ("resultspage" + (":empty" if not docs else ""), (lambda: s.search_page(query.Term("t", w), 1, pagelen=2)), docs,
                    "ResultsPage search_page(Term('t', %r), 1, pagelen=2)" % w)
        if r < 0.82:
            return "set:empty", (lambda: set()), set(), "set()"
        if r < 0.88:
            from whoosh.idsets import BitSet
            size = rng.randint(0, max(1, len(live)))
            docs = set(rng.sample(live, min(size, len(live))))
            return "bitset" + (":empty" if not docs else ""), (lambda: BitSet(sorted(docs), size=max(live) + 1)), docs, "BitSet(%r)" % sorted(docs)
        size = rng.randint(1, max(1, len(live)))
        docs = set(rng.sample(live, min(size, len(live))))
        if rng.random() < 0.3:
            docs.add(max(live) + 5)   # a doc number that does not exist is harmless
        return "set", (lambda: set(docs)), docs, "set(%r)" % sorted(docs)

    for _ in range(nviews):
        mode = rng.choice(["filter", "filter", "mask", "mask", "both"])
        fk = mk = None
        allow = restrict = None
        kw_desc = []
        parts = {}
        if mode in ("filter", "both"):
            fk, fmake, allow, fdesc = gen_set("filter")
            parts["filter"] = fmake
            kw_desc.append("filter=" + fdesc)
        if mode in ("mask", "both"):
            mk, mmake, restrict, mdesc = gen_set("mask")
            parts["mask"] = mmake
            kw_desc.append("mask=" + mdesc)
        sortedby = rng.choice([None, None, "o", "id"])
        k = rng.choice([None, None, 1, 2, 3, 10])
        if sortedby:
            ranking = sorted(env.matched, key=lambda dn: (env.doc(dn)[sortedby], dn))
        else:
            ranking = env.full
        exp = [dn for dn in ranking if (allow is None or dn in allow) and (restrict is None or dn not in restrict)]
        desc = "%s sortedby=%r limit=%r" % (" ".join(kw_desc), sortedby, k)
        extra = {"view": desc}
        ctx.count("c14.filter.evals")
        if (fk and "empty" in fk) or (mk and "empty" in mk):
            ctx.count("c14.filter.empty_operand")

        terms = rng.random() < 0.2

        def run():
            kw = dict((name, mk_()) for name, mk_ in parts.items())
            if sortedby:
                kw["sortedby"] = sortedby
            if terms:
                kw["terms"] = True
            return s.search(q, limit=k, **kw)
        ok, r = env.guard("filter", extra, run)
        if not ok:
            continue
        got = [h.docnum for h in r]
        want = exp if k is None else exp[:k]
        mech = "%s%s:%s" % (mode, ":sorted" if sortedby else "", "/".join(x for x in (fk, mk) if x))
        if got != want:
            env.fail("filter", "hits:" + mech, dict(extra, expected=env.ids(want), observed=env.ids(got), unfiltered=env.ids(ranking)))
            continue
        if not env.check_len("filter", mech, r, len(exp), dict(extra, unfiltered=len(ranking))):
            continue
        if k is None or sortedby:
            ctx.count("c14.filter.filtered_count_evals")
            fc = getattr(r, "filtered_count", None)
            if fc != len(ranking) - len(exp):
                env.fail("filter", "filtered_count:" + mech, dict(extra, expected=len(ranking) - len(exp), observed=fc))
                continue
        shapes.append(("filter", mode, fk, mk, bool(sortedby), limit_class(k, len(exp)), 0 < len(exp) < len(ranking)))
    return shapes


def check_pages(env, nviews):
    from whoosh import query
    ctx, rng, s, q = env.ctx, env.rng, env.s, env.q
    shapes = []
    for _ in range(nviews):
        pl = rng.choice([1, 2, 3, 5, 10, 20])
        variant = rng.choice(["scored", "scored", "sorted", "filtered", "empty"])
        kw = {}
        qq = q
        if variant == "sorted":
            kw["sortedby"] = "o"
            ranking = sorted(env.matched, key=lambda dn: (env.doc(dn)["o"], dn))
        elif variant == "filtered":
            w = rng.choice(WORDS)
            kw["filter"] = query.Term("t", w)
            ranking = [dn for dn in env.full if w in env.doc(dn)["t"].split()]
        elif variant == "empty":
            qq = query.Term("t", "zzz")
            ranking = []
        else:
            ranking = env.full
        total = len(ranking)
        pc = -(-total // pl)
        for pn in sorted(set([1, 2, max(1, pc - 1), max(1, pc), pc + 1, pc + 2])):
            desc = "search_page(q%s, %d, pagelen=%d%s)" % ("[no match]" if variant == "empty" else "", pn, pl,
                                                           "".join(", %s=%r" % kv for kv in kw.items()))
            extra = {"view": desc, "total": total}
            ctx.count("c14.page.evals")
            try:
                ok, pg = env.guard("page", extra, lambda: s.search_page(qq, pn, pagelen=pl, **kw))
            except ValueError:
                if pn > pc:
                    ctx.count("c14.page.valueerror_beyond_last")
                    continue
                raise
            if not ok:
                continue
            ok, obs = env.guard("page", extra, lambda: {
                "hits": [h.docnum for h in pg], "total": pg.total, "len": len(pg), "pagecount": pg.pagecount, "pagenum": pg.pagenum,
                "offset": pg.offset, "pagelen": pg.pagelen, "is_last_page": pg.is_last_page()})
            if not ok:
                continue
            epn = min(pn, pc)
            if pc == 0:
                ehits, eoff = [], 0
            else:
                eoff = (epn - 1) * pl
                ehits = ranking[eoff:eoff + pl]
            exp = {"hits": ehits, "total": total, "len": total, "pagecount": pc, "pagenum": epn, "offset": eoff,
                   "pagelen": len(ehits), "is_last_page": epn == pc}
            diffs = [kx for kx in exp if exp[kx] != obs[kx]]
            if diffs:
                where = "empty" if total == 0 else ("beyond-last" if pn > pc else "within")
                env.fail("page", "%s:%s:%s" % (variant if variant != "empty" else "scored", where, "+".join(sorted(diffs))),
                         dict(extra, expected=exp, observed=obs))
                break
            if pn <= pc:
                ctx.count("c14.page.within_range")
            elif total:
                ctx.count("c14.page.beyond_last")
            else:
                ctx.count("c14.page.empty_results")
        shapes.append(("page", variant, pl, min(pc, 4)))
    return shapes


# ----------------------------------------------------------------------

def collapse_stress(ctx, rng, idx):
    """Collapsed, score-ordered, limited searches over documents with pairwise distinct scores and few collapse keys:
    almost every later, better document evicts a queued one with the same key while the top-N heap is full. For every
    limit 2..13 and collapse_limit 1..2 the hits must be the first `limit` entries of the model: walk the full ranking,
    keep the first collapse_limit documents of each key."""
    from whoosh import fields, query, scoring
    from whoosh.filedb.filestore import RamStorage
    schema = fields.Schema(id=fields.ID(stored=True), t=fields.TEXT, g=fields.ID(stored=True, sortable=True))
    n = rng.randint(15, 70)
    m = rng.randint(3, 12)
    tfs = rng.sample(range(1, 200), n)
    keys = ["k%d" % rng.randrange(m) for _ in range(n)]
    w = {"variant": "collapse-stress", "case_idx": idx, "ndocs": n, "nkeys": m, "tf": tfs, "keys": keys}

    def body():
        ix = RamStorage().create_index(schema)
        wr = ix.writer()
        for i in range(n):
            wr.add_document(id=str(i), t=" ".join(["alfa"] * tfs[i]), g=keys[i])
        wr.commit()
        wm = rng.choice([scoring.Frequency(), scoring.TF_IDF()])
        with ix.searcher(weighting=wm) as s:
            q = query.Term("t", "alfa")
            full = [(h.docnum, h["g"]) for h in s.search(q, limit=None)]
            for cl in (1, 2):
                seen, model = {}, []
                for dn, g in full:
                    if seen.get(g, 0) < cl:
                        seen[g] = seen.get(g, 0) + 1
                        model.append(dn)
                for limit in range(2, 14):
                    got = [h.docnum for h in s.search(q, limit=limit, collapse="g", collapse_limit=cl)]
                    ctx.count("c14.collapse_stress.searches")
                    if got != model[:limit]:
                        ctx.fail("c14.collapse", "collapse-stress:limited-hits", dict(w, limit=limit, collapse_limit=cl),
                                 "hits %r, best %d per key in ranking order gives %r" % (got, cl, model[:limit]))
                        return
    ctx.guard("c14.collapse", w, body)


def run(ctx):
    for k in range(ctx.pick(150, 1200)):
        if ctx.replay_idx is not None:
            break
        collapse_stress(ctx, ctx.rng(-1 - k * ctx.nshards - ctx.shard, "collapse-stress"), -1 - k)
    for idx in ctx.cases(quick=60, thorough=500):
        rng = ctx.rng(idx)
        ctx.reseed_global(idx)
        case = Case(rng)
        wit = {"case_idx": idx, "layout": case.layout()}
        ok, ix = ctx.guard("c14.build", wit, case.build)
        ctx.count("c14.cases")
        if not ok:
            continue
        ctx.count("c14.layout.%s" % case.colmode)
        if case.colmode in ("late", "early"):
            ctx.count("c14.layout.mixed_columns")
        if case.nseg > 1 and case.deletes:
            ctx.count("c14.layout.multiseg_with_deletions")
        if case.colmode == "added" and case.late_add and case.deletes:
            ctx.count("c14.layout.add_sortable_over_deletions")
        if case.huge:
            ctx.count("c14.layout.segment_over_2048_docs")
        if case.after:
            ctx.count("c14.layout.rewritten_by_%s" % case.after)
            if case.deletes:
                ctx.count("c14.layout.rewritten_with_deletions")
        sig = (case.colmode, case.nseg, bool(case.deletes), case.after)
        try:
            for qi in range(2):
                q, qfn = gen_query(rng)
                from vf import model as _model
                psz = None if case.huge else _model.partsize_for(idx)
                if psz is not None:
                    ctx.count("c14.small_array_parts")
                with _model.array_partsize(psz), ix.searcher() as s:
                    w = dict(wit, query=repr(q), docs=[case.docs[k] for k in sorted(case.docs)][:45])
                    if psz is not None:
                        w["array_partsize(default of ArrayUnionMatcher)"] = psz
                    env = Env(ctx, rng, case, s, q, qfn, w)
                    if not base_ranking(env):
                        continue
                    shapes = []
                    if case.big:
                        ctx.count("c14.layout.big_corpus")
                    f = 2 if case.big else 1
                    shapes += check_sorts(env, 14 // f)
                    shapes += check_groups(env, 8 // f)
                    shapes += check_collapse(env, 8 // f)
                    shapes += check_filters(env, 8 // f)
                    shapes += check_pages(env, 2)
                    for sh in shapes:
                        ctx.case((sh, sig), bool(sh[-1]),
                                 sample={"layout": case.layout(), "query": repr(q), "view": sh, "matched": len(env.matched)}
                                 if ctx.evaluations % 700 == 0 else None)
        finally:
            ix.close()
