"""C19 - fuzzy matching and spelling suggestions are exact w.r.t. the documented edit distance.

Monitor shape: reference model (brute-force edit distances, Python sets) against the real
readers/searchers. Three blocks of cases, all addressed by the global case index:

  E1  exhaustive over pairs: full lexicon W_L = all non-empty words of length <= L over {a,b}
      (L=4 quick, 5 thorough) in 1-, 2- and 3-segment layouts and every single-term lexicon {t};
      query words = W_L + the empty word; maxdist 0..3; prefix in {0,1,2,5}.
  E2  exhaustive over lexicon subsets: every non-empty subset of W_2 (quick) / W_3 (thorough) as the
      lexicon (one segment and split over two), query words = all words of length <= 3 and "".
  S   sampled: 3-letter, multi-byte (2-, 3- and 4-byte UTF-8) and long-binary alphabets, lexicons
      of mutated base words, term frequencies 1..4, 1-3 segments, RAM and file storage.

The documented distance is the Damerau-Levenshtein distance (docs/source/parsing.rst "insertions,
deletions, and/or transpositions -- ... Damerau-Levenshtein edit distance"; IndexReader.terms_within
docstring; Searcher.correct_query "insertions, deletions, subsitutions, or transpositions").
whoosh.support.levenshtein.damerau_levenshtein (= `distance`) implements the restricted variant
(optimal string alignment, OSA). Where OSA and unrestricted Damerau-Levenshtein differ the oracle
accepts anything between the two sets.
"""
import random
import itertools
import shutil
import tempfile

LEVEL = "exploration"
EXHAUSTIVE = ("E1: every (term t, query word w, maxdist d, prefix p) with t in W_L = all non-empty words of length <= L "
              "over {a,b} (L=4 quick: 30 words, L=5 thorough: 62 words), w in W_L + {''}, d in 0..3, p in {0,1,2,5}, decided "
              "through reader.terms_within on the full lexicon W_L laid out in 1, 2 and 3 segments and on every "
              "single-term lexicon {t} (one segment), plus search(FuzzyTerm) and Searcher.suggest(limit in {1,3,100}) on "
              "the full-lexicon indexes for every (w, d, p). E2: every non-empty subset of W_2 (quick, 63 subsets) / W_3 "
              "(thorough, 16383 subsets) as the lexicon, in one segment and split over two segments, every query word of "
              "length <= 3 over {a,b} plus '', d in 0..3, p in {0,1,2,5}, through reader.terms_within. The reach "
              "floors e1.units / e2.units equal the number of work units, so an incomplete enumeration is inconclusive.")
RULE = ("a case is one (lexicon index, query word): for it every maxdist 0..3 and a set of prefix lengths is run through "
        "reader.terms_within (single- and multi-segment layouts of the same lexicon), search(FuzzyTerm) and "
        "Searcher.suggest, and compared with brute-force OSA / Damerau-Levenshtein / plain Levenshtein distances computed "
        "by the harness. Non-trivial: for some (d,p) the expected term set is neither empty nor the whole lexicon. "
        "Distinct = distinct (block, alphabet, segment count, field kind, len(word), word-in-lexicon, per-d expected-set "
        "size signature). Population A (verdict weight, counters popA.*): the word is not a term and the lexicon holds no term whose "
        "plain-Levenshtein and Damerau distances to the word differ within maxdist on a single segment - any disagreement there is a "
        "violation; population B (the rest, and block SP = TEXT(spelling=True) with a stemming analyzer) is judged through a second "
        "oracle that reproduces the listed mechanism exactly.")
ASSUMPTIONS = [
    "the empty string is a term of the lexicon when an ID field indexed an empty value: terms_within/suggest must treat it as "
    "any other term, but FuzzyTerm (like every multi-term query) expands to non-empty terms only, so documents whose only "
    "qualifying term is the empty string are accepted both as returned and as not returned",
    "documented distance = Damerau-Levenshtein; where the restricted (OSA, what whoosh.support.levenshtein.distance computes) and "
    "the unrestricted Damerau-Levenshtein distance differ (needs >= 3 letters, e.g. 'ca'/'abc') any result between the two sets is accepted, "
    "and suggestion order is then only checked between suggestions whose OSA and DL distances coincide",
    "prefix p longer than the word means p = len(word)",
    "terms_within returns terms 'in no particular order' (docstring): compared as sets; duplicates are counted, not judged",
    "suggestion frequency = reader.frequency (total number of occurrences); ties in (distance, frequency) may come in any order; "
    "with limit=k the result must be a best-k prefix: no omitted candidate may be strictly better than a returned one",
    "term weights are 1.0 per occurrence (no field/term boosts), so frequencies are integers >= 1; ReaderCorrector's score "
    "-(dist + 0.5/f) would let frequency dominate distance for f < 0.5 (boosted fields): not exercised",
    "no deleted documents (the lexicon of a segment keeps terms of deleted documents until merged; the statement speaks of the field's terms)",
]
SHARDS = {"quick": 4, "thorough": 16}
BUDGET_S = {"quick": 80, "thorough": 800}

AB = "ab"
PREFIXES = (0, 1, 2, 5)
DISTS = (0, 1, 2, 3)


def words_upto(alpha, n, minlen=1):
    return ["".join(p) for k in range(minlen, n + 1) for p in itertools.product(alpha, repeat=k)]


def _L(tier):
    return 4 if tier == "quick" else 5


def _L2(tier):
    return 2 if tier == "quick" else 3


E2_CHUNK = {"quick": 8, "thorough": 64}


def e1_units(tier):
    return len(words_upto(AB, _L(tier))) + 1


def e2_units(tier):
    nsub = 2 ** len(words_upto(AB, _L2(tier))) - 1
    return -(-nsub // E2_CHUNK[tier])


FLOORS = {
    "quick": {"e1.units": e1_units("quick"), "e2.units": e2_units("quick"), "e1.pairs": 30 * 31 * 16 * 4, "e2.subsets": 63,
              "sampled.cases": 170, "spelling.cases": 25, "spelling.tw.evals": 1500, "spelling.fuzzy.evals": 1500,
              "spelling.suggest.evals": 1500, "tw.single.evals": 24000, "tw.multi.evals": 22000, "agree.evals": 22000,
              "fuzzy.evals": 16000, "fuzzy.nonempty": 9000, "suggest.evals": 20000, "suggest.nonempty": 12000, "correct.evals": 13000,
              "correct.replaced": 3000, "popA.tw.single.evals": 23000, "popA.tw.multi.evals": 22000, "popA.fuzzy.evals": 15000,
              "popA.suggest.evals": 12000, "suggest.order.pairs": 13000, "suggest.cut.evals": 2500, "alphabet.multibyte.cases": 50,
              "alphabet.abc.cases": 45, "alphabet.edge.cases": 25, "alphabet.surrogate-edge.cases": 12, "reach.empty_term_in_lexicon": 5, "reach.transposition-sensitive": 1200, "reach.osa!=dl": 200,
              "reach.prefix>len": 12000, "layout.multi.built": 250},
    "thorough": {"e1.units": e1_units("thorough"), "e2.units": e2_units("thorough"), "e1.pairs": 62 * 63 * 16 * 4, "e2.subsets": 16383,
                 "sampled.cases": 2300, "spelling.cases": 300, "spelling.tw.evals": 20000, "spelling.fuzzy.evals": 20000,
                 "spelling.suggest.evals": 20000, "tw.single.evals": 1500000, "tw.multi.evals": 1500000, "agree.evals": 1500000,
                 "fuzzy.evals": 230000, "fuzzy.nonempty": 130000, "suggest.evals": 280000, "suggest.nonempty": 170000,
                 "correct.evals": 190000, "correct.replaced": 50000, "popA.tw.single.evals": 1400000, "popA.tw.multi.evals": 1500000,
                 "popA.fuzzy.evals": 220000, "popA.suggest.evals": 180000, "suggest.order.pairs": 160000, "suggest.cut.evals": 35000,
                 "alphabet.multibyte.cases": 700, "alphabet.abc.cases": 700, "alphabet.edge.cases": 350,
                 "reach.transposition-sensitive": 100000, "reach.osa!=dl": 3000, "reach.prefix>len": 900000, "layout.multi.built": 8000},
}


# ----------------------------------------------------------------------
# reference distances (harness-side, independent of whoosh)
# ----------------------------------------------------------------------

_dcache = {}


def dists(a, b):
    """(plain Levenshtein, OSA, unrestricted Damerau-Levenshtein) of a and b."""
    key = (a, b)
    r = _dcache.get(key)
    if r is None:
        if len(_dcache) > 400000:
            _dcache.clear()
        r = _dcache[key] = (_lev(a, b), _osa(a, b), _dl(a, b))
    return r


def _lev(a, b):
    prev = list(range(len(b) + 1))
    for i in range(1, len(a) + 1):
        cur = [i] + [0] * len(b)
        for j in range(1, len(b) + 1):
            cur[j] = min(prev[j] + 1, cur[j - 1] + 1, prev[j - 1] + (a[i - 1] != b[j - 1]))
        prev = cur
    return prev[len(b)]


def _osa(a, b):
    la, lb = len(a), len(b)
    d = [[0] * (lb + 1) for _ in range(la + 1)]
    for i in range(la + 1):
        d[i][0] = i
    for j in range(lb + 1):
        d[0][j] = j
    for i in range(1, la + 1):
        for j in range(1, lb + 1):
            v = min(d[i - 1][j] + 1, d[i][j - 1] + 1, d[i - 1][j - 1] + (a[i - 1] != b[j - 1]))
            if i > 1 and j > 1 and a[i - 1] == b[j - 2] and a[i - 2] == b[j - 1]:
                v = min(v, d[i - 2][j - 2] + 1)
            d[i][j] = v
    return d[la][lb]


def _dl(a, b):
    """Unrestricted Damerau-Levenshtein (Lowrance-Wagner)."""
    la, lb = len(a), len(b)
    inf = la + lb
    da = {}
    d = [[0] * (lb + 2) for _ in range(la + 2)]
    d[0][0] = inf
    for i in range(la + 1):
        d[i + 1][0] = inf
        d[i + 1][1] = i
    for j in range(lb + 1):
        d[0][j + 1] = inf
        d[1][j + 1] = j
    for i in range(1, la + 1):
        db = 0
        for j in range(1, lb + 1):
            k = da.get(b[j - 1], 0)
            l = db
            cost = 1
            if a[i - 1] == b[j - 1]:
                cost = 0
                db = j
            d[i + 1][j + 1] = min(d[i][j] + cost, d[i + 1][j] + 1, d[i][j + 1] + 1,
                                  d[k][l] + (i - k - 1) + 1 + (j - l - 1))
        da[a[i - 1]] = i
    return d[la + 1][lb + 1]


def expected_sets(lexicon, w, d, p):
    """(S_lev, S_osa, S_dl): terms sharing the first min(p,len(w)) characters within d under each distance."""
    pp = min(p, len(w))
    pre = w[:pp]
    s_lev, s_osa, s_dl = set(), set(), set()
    for t in lexicon:
        if t[:pp] != pre:
            continue
        a, b, c = dists(t, w)
        if a <= d:
            s_lev.add(t)
        if b <= d:
            s_osa.add(t)
        if c <= d:
            s_dl.add(t)
    return s_lev, s_osa, s_dl


# ----------------------------------------------------------------------
# index building
# ----------------------------------------------------------------------

class Built(object):
    def __init__(self, docs, nseg, storage, fieldkind):
        self.docs = docs          # list of (id, [terms])
        self.nseg = nseg
        self.storage = storage
        self.fieldkind = fieldkind
        self.tmpdir = None
        self.ix = None
        self.searcher = None
        self.freq = {}
        for _, terms in docs:
            for t in terms:
                self.freq[t] = self.freq.get(t, 0) + 1
        self.lexicon = sorted(self.freq)

    def layout(self):
        return [[d for d in self.docs[i::self.nseg]] for i in range(self.nseg)]

    def open(self):
        from whoosh import fields, analysis
        from whoosh.filedb.filestore import RamStorage, FileStorage
        if self.fieldkind == "id":
            f = fields.ID()         # one term per document: the whole value (possibly the empty string)
        elif self.fieldkind == "keyword":
            f = fields.KEYWORD(stored=False)
        elif self.fieldkind == "text":
            f = fields.TEXT(analyzer=analysis.SpaceSeparatedTokenizer(), phrase=False)
        elif self.fieldkind == "stem-spelling":
            # morphological analyzer + spelling=True => whoosh keeps the unstemmed words in a separate field "spell_t"
            ana = analysis.SpaceSeparatedTokenizer() | analysis.StemFilter(stemfn=c19_stem, cachesize=None)
            f = fields.TEXT(analyzer=ana, phrase=False, spelling=True)
        else:
            f = fields.KEYWORD(stored=False, scorable=True)
        schema = fields.Schema(id=fields.ID(stored=True), t=f)
        if self.storage == "file":
            self.tmpdir = tempfile.mkdtemp(prefix="vf-c19-")
            st = FileStorage(self.tmpdir)
        else:
            st = RamStorage()
        self.ix = st.create_index(schema)
        for part in self.layout():
            w = self.ix.writer()
            for did, terms in part:
                w.add_document(id=did, t=" ".join(terms))
            w.commit(merge=False)
        self.searcher = self.ix.searcher()
        return self

    def close(self):
        try:
            if self.searcher is not None:
                self.searcher.close()
            if self.ix is not None:
                self.ix.close()
        finally:
            if self.tmpdir:
                shutil.rmtree(self.tmpdir, ignore_errors=True)

    def docs_with(self, terms):
        return sorted(did for did, ts in self.docs if any(t in terms for t in ts))

    def describe(self):
        return {"segments": [["%s=%s" % (did, " ".join(ts)) for did, ts in part] for part in self.layout()],
                "storage": self.storage, "field": self.fieldkind}


def c19_stem(word):
    """Harness-side 'stemmer' (picklable by reference): strips trailing 'b's. 'abb' -> 'a', 'b' -> 'b'."""
    return word.rstrip("b") or word


def build(ctx, docs, nseg, storage="ram", fieldkind="keyword"):
    nseg = max(1, min(nseg, len(docs)))
    b = Built(docs, nseg, storage, fieldkind)
    try:
        b.open()
    except BaseException:
        b.close()
        raise
    got = len(b.searcher.reader().leaf_readers())
    if got != nseg:
        raise AssertionError("harness: wanted %d segments, got %d" % (nseg, got))
    ctx.count("layout.multi.built" if nseg > 1 else "layout.single.built")
    return b


def docs_for_lexicon(lexicon, freq_of=None):
    """One document per occurrence: term i occurs freq_of(i, t) times (in distinct documents)."""
    docs = []
    n = 0
    for i, t in enumerate(lexicon):
        k = freq_of(i, t) if freq_of else 1
        for _ in range(k):
            docs.append(("d%d" % n, [t]))
            n += 1
    return docs


# ----------------------------------------------------------------------
# monitors
# ----------------------------------------------------------------------

def _small(s, n=12):
    s = sorted(s)
    return s if len(s) <= n else s[:n] + ["...(%d)" % len(s)]


def check_terms_within(ctx, b, w, d, p, pop):
    """terms_within on index b; returns observed set or None. `pop` collects population flags."""
    lex = b.lexicon
    s_lev, s_osa, s_dl = expected_sets(lex, w, d, p)
    single = b.nseg == 1
    tag = "single" if single else "multi"
    wit = {"api": "reader.terms_within('t', word, maxdist, prefix)", "word": w, "maxdist": d, "prefix": p,
           "index": b.describe(), "lexicon": _small(lex, 70)}
    reader = b.searcher.reader()
    # half of the look-ups are consumed late: the generator is created, ANOTHER complete look-up runs on the same reader and
    # field, and only then the first one is read (two look-ups are independent of each other)
    defer = (len(w) + d + p) % 2 == 0
    other = max(lex) if lex else "b"

    def lookup():
        g = reader.terms_within("t", w, d, prefix=p)
        if defer:
            list(reader.terms_within("t", other, 1))
        return list(g)
    if defer:
        wit["consumed"] = "after another complete terms_within(%r, 1) on the same reader" % (other,)
        ctx.count("tw.deferred_consumption")
    ok, got = ctx.guard("terms_within.%s" % tag, wit, lookup)
    ctx.count("tw.%s.evals" % tag)
    if p > len(w):
        ctx.count("reach.prefix>len")
    sens = s_lev != s_osa
    if sens:
        ctx.count("reach.transposition-sensitive")
    if s_osa != s_dl:
        ctx.count("reach.osa!=dl")
    if not (single and sens):
        ctx.count("popA.tw.%s.evals" % tag)
    if not ok:
        return None
    gs = set(got)
    if len(gs) != len(got):
        ctx.count("tw.%s.duplicates" % tag)
    if s_osa and len(s_osa) < len(lex):
        pop["nontrivial"] = True
    if s_osa <= gs <= s_dl:
        return gs
    wit.update(expected_osa=_small(s_osa, 40), expected_damerau=_small(s_dl, 40), expected_plain_levenshtein=_small(s_lev, 40),
               observed=_small(gs, 40), missing=_small(s_osa - gs, 20), extra=_small(gs - s_dl, 20))
    if single and gs == s_lev:
        # second oracle: the observation is exactly the plain-Levenshtein (no transposition) set
        wit["observed_by"] = "terms_within.single"
        ctx.fail("transposition", "known:automaton-no-transposition", wit,
                 "single-segment terms_within == plain-Levenshtein set != Damerau set")
        return gs
    what = []
    if s_osa - gs:
        what.append("missing")
    if gs - s_dl:
        what.append("extra")
    ctx.fail("terms_within.%s" % tag, "%s:%s" % ("+".join(what), "p>len" if p > len(w) else "p<=len"), wit)
    return gs


def check_agree(ctx, bs, w, d, p, results):
    """Same lexicon, different segment layouts: the term sets must be equal."""
    base = None
    for b, gs in zip(bs, results):
        if gs is None:
            continue
        if base is None:
            base = (b, gs)
            continue
        ctx.count("agree.evals")
        if gs == base[1]:
            continue
        b0, g0 = base
        s_lev, s_osa, s_dl = expected_sets(b.lexicon, w, d, p)
        wit = {"api": "reader.terms_within: same lexicon, %d segment(s) vs %d segment(s)" % (b0.nseg, b.nseg),
               "word": w, "maxdist": d, "prefix": p, "lexicon": _small(b.lexicon, 70),
               "observed_%dseg" % b0.nseg: _small(g0, 40), "observed_%dseg" % b.nseg: _small(gs, 40),
               "only_in_%dseg" % b0.nseg: _small(g0 - gs), "only_in_%dseg" % b.nseg: _small(gs - g0)}
        one, many = (g0, gs) if b0.nseg == 1 else (gs, g0)
        if (b0.nseg == 1) != (b.nseg == 1) and one == s_lev and s_osa <= many <= s_dl:
            wit["observed_by"] = "segments.agree"
            ctx.fail("transposition", "known:automaton-no-transposition", wit,
                     "difference is exactly the terms reachable only through a transposition")
        else:
            ctx.fail("segments.agree", "%dseg-vs-%dseg" % (b0.nseg, b.nseg), wit)


def check_fuzzy(ctx, b, w, d, p, constantscore=True):
    from whoosh import query
    s_lev, s_osa, s_dl = expected_sets(b.lexicon, w, d, p)
    wit = {"api": "searcher.search(FuzzyTerm('t', word, maxdist, prefixlength), limit=None)", "word": w, "maxdist": d,
           "prefixlength": p, "constantscore": constantscore, "index": b.describe()}
    q = query.FuzzyTerm("t", w, maxdist=d, prefixlength=p, constantscore=constantscore)
    ok, got = ctx.guard("fuzzy.docs", wit, lambda: sorted(h["id"] for h in b.searcher.search(q, limit=None)))
    ctx.count("fuzzy.evals")
    if s_lev == s_osa:
        ctx.count("popA.fuzzy.evals")
    if not ok:
        return
    # the empty string can be a term (ID field with an empty value); multi-term queries expand to non-empty terms only
    # (`if word` in MultiTerm.matcher, by design): documents whose only qualifying term is "" may or may not be returned
    lo, hi = b.docs_with(set(s_osa) - {""}), b.docs_with(s_dl)
    if len(got) != len(set(got)):
        ctx.fail("fuzzy.docs", "document-returned-twice", dict(wit, observed=got[:40]))
        return
    if set(lo) <= set(got) <= set(hi):
        if lo:
            ctx.count("fuzzy.nonempty")
        return
    wit.update(expected_docs=lo[:60], observed_docs=got[:60], expected_terms=_small(s_osa, 40),
               plain_levenshtein_terms=_small(s_lev, 40))
    if got in (b.docs_with(s_lev), b.docs_with(set(s_lev) - {""})):
        # FuzzyTerm expands per segment through the automaton => plain Levenshtein in every layout
        wit["observed_by"] = "fuzzy.docs"
        ctx.fail("transposition", "known:automaton-no-transposition", wit,
                 "FuzzyTerm matched exactly the documents of the plain-Levenshtein term set")
        return
    ctx.fail("fuzzy.docs", "%s%s" % ("missing" if set(lo) - set(got) else "", "+extra" if set(got) - set(hi) else ""), wit)


def _suggest_verdict(b, w, d, p, limit, got, which, include_self):
    """Judge a suggestion list under distance index `which` (0 plain Levenshtein, 1 documented OSA/DL).
    Returns None if acceptable else a short reason."""
    lex = b.freq
    pp = min(p, len(w))

    def cand(t):
        if t[:pp] != w[:pp]:
            return None
        a, o, dl = dists(t, w)
        if which == 0:
            return (a, a) if a <= d else None
        return (dl, o) if dl <= d else None       # (lowest, highest) admissible distance

    if len(set(got)) != len(got):
        return "duplicate-suggestion"
    info = {}
    for t in got:
        if t not in lex:
            return "not-a-term"
        if t == w and not include_self:
            return "word-itself"
        c = cand(t)
        if c is None:
            return "beyond-maxdist-or-prefix"
        info[t] = c
    # every term that must be a candidate (certainly within distance)
    must = []
    for t in lex:
        if t == w and not include_self:
            continue
        c = cand(t)
        if c is not None and c[1] <= d:
            must.append((t, c))
    may = sum(1 for t in lex if (t != w or include_self) and cand(t) is not None)
    if len(got) > limit:
        return "more-than-limit"
    if len(got) < min(limit, len(must)):
        return "fewer-than-available"
    if len(got) > may:
        return "more-than-candidates"
    # order: (distance, -frequency) non-decreasing; only between suggestions with an unambiguous distance
    for x, y in zip(got, got[1:]):
        cx, cy = info[x], info[y]
        if cx[0] != cx[1] or cy[0] != cy[1]:
            continue
        if (cx[0], -lex[x]) > (cy[0], -lex[y]):
            return "order"
    # cut: no omitted certain candidate strictly better than a returned one
    if got and len(got) >= limit:
        unamb = [(info[t][0], -lex[t]) for t in got if info[t][0] == info[t][1]]
        if unamb:
            worst = max(unamb)
            gset = set(got)
            for t, c in must:
                if t not in gset and c[0] == c[1] and (c[0], -lex[t]) < worst:
                    return "cut-dropped-better"
    return None


def check_suggest(ctx, b, w, d, p, limit):
    s_lev, s_osa, s_dl = expected_sets(b.lexicon, w, d, p)
    wit = {"api": "searcher.suggest('t', word, limit, maxdist, prefix)", "word": w, "maxdist": d, "prefix": p,
           "limit": limit, "index": b.describe(), "frequencies": {t: b.freq[t] for t in sorted(s_dl | s_lev)[:60]}}
    ok, got = ctx.guard("suggest", wit, lambda: list(b.searcher.suggest("t", w, limit=limit, maxdist=d, prefix=p)))
    ctx.count("suggest.evals")
    single = b.nseg == 1
    popA = w not in b.freq and not (single and _lev_explains(b, w, d, p))
    if popA:
        ctx.count("popA.suggest.evals")
    if not ok:
        return
    if len(got) >= 2:
        ctx.count("suggest.order.pairs", len(got) - 1)
    if len(got) >= limit and len(s_osa - {w}) > limit:
        ctx.count("suggest.cut.evals")
    if got:
        ctx.count("suggest.nonempty")
    why = _suggest_verdict(b, w, d, p, limit, got, 1, False)
    if why is None:
        return
    wit.update(observed=got[:40], reason=why,
               distances={t: dict(zip(("lev", "osa", "dl"), dists(t, w))) for t in (got[:40] + sorted(s_dl)[:40])})
    # second oracles
    self_only = _suggest_verdict(b, w, d, p, limit, got, 1, True) is None
    if self_only and w in got:
        wit["observed_by"] = "suggest"
        ctx.fail("suggest.self", "known:suggest-includes-queried-word", wit,
                 "the list is a correct ranking of the terms within maxdist INCLUDING the queried word itself")
        return
    if single:
        lev_only = _suggest_verdict(b, w, d, p, limit, got, 0, False) is None
        if lev_only and _lev_explains(b, w, d, p):
            wit["observed_by"] = "suggest"
            ctx.fail("transposition", "known:automaton-no-transposition", wit,
                     "single-segment suggestions are a correct ranking under plain Levenshtein distance")
            return
        both = _suggest_verdict(b, w, d, p, limit, got, 0, True) is None
        if both and w in got and _lev_explains(b, w, d, p):
            wit["observed_by"] = "suggest"
            ctx.fail("transposition", "known:automaton-no-transposition", wit,
                     "single-segment suggestions are a correct ranking under plain Levenshtein distance (queried word included)")
            ctx.fail("suggest.self", "known:suggest-includes-queried-word", wit,
                     "the list also contains the queried word itself")
            return
    ctx.fail("suggest", "%s:%s" % (why, "single" if single else "multi"), wit)


def check_correct(ctx, b, w, d, p):
    """Searcher.correct_query on Term('t', w): a word that is not a term is replaced by a best suggestion
    (closest, then most frequent) or left alone when nothing is within maxdist; a word that is a term is kept."""
    from whoosh import query
    wit = {"api": "searcher.correct_query(Term('t', word), None, maxdist, prefix).query", "word": w, "maxdist": d, "prefix": p,
           "index": b.describe()}
    ok, got = ctx.guard("correct_query", wit, lambda: b.searcher.correct_query(query.Term("t", w), None, maxdist=d, prefix=p).query)
    ctx.count("correct.evals")
    if not ok:
        return
    if not isinstance(got, query.Term) or got.fieldname != "t":
        ctx.fail("correct_query", "not-a-term-query", dict(wit, observed=repr(got)))
        return
    rep = got.text
    wit["observed"] = rep
    if w in b.freq:
        if rep != w:
            ctx.fail("correct_query", "existing-term-replaced", wit)
        return
    single = b.nseg == 1

    def verdict(which):
        pp = min(p, len(w))
        cands = []
        for t in b.freq:
            if t[:pp] != w[:pp]:
                continue
            a, o, dl = dists(t, w)
            lo, hi = (a, a) if which == 0 else (dl, o)
            if lo <= d:
                cands.append((t, lo, hi))
        certain = [c for c in cands if c[2] <= d]
        if rep == w:
            return None if not certain else "not-corrected"
        mine = [c for c in cands if c[0] == rep]
        if not mine:
            return "replacement-not-a-candidate"
        _, lo, hi = mine[0]
        for t, l2, h2 in certain:
            # strictly better under every admissible reading of the distances
            if (h2, -b.freq[t]) < (lo, -b.freq[rep]):
                return "replacement-not-best"
        return None
    why = verdict(1)
    if why is None:
        if rep != w:
            ctx.count("correct.replaced")
        return
    wit["reason"] = why
    wit["candidates"] = {t: {"freq": b.freq[t], "lev": dists(t, w)[0], "osa": dists(t, w)[1]} for t in sorted(expected_sets(b.lexicon, w, d, p)[2])[:40]}
    if single and verdict(0) is None and _lev_explains(b, w, d, p):
        wit["observed_by"] = "correct_query"
        ctx.fail("transposition", "known:automaton-no-transposition", wit,
                 "single-segment correction is the best suggestion under plain Levenshtein distance")
        return
    ctx.fail("correct_query", "%s:%s" % (why, "single" if single else "multi"), wit)


def _lev_explains(b, w, d, p):
    """True when plain Levenshtein and the documented distance differ for some term of the lexicon that
    shares the prefix and is within maxdist of the word, i.e. the transposition mechanism is in play."""
    pp = min(p, len(w))
    for t in b.freq:
        if t[:pp] != w[:pp]:
            continue
        a, o, dl = dists(t, w)
        if a != o and o <= d:
            return True
    return False


# ----------------------------------------------------------------------
# blocks
# ----------------------------------------------------------------------

_cache = {}


def _full_indexes(ctx, tier):
    key = ("full", tier)
    if key not in _cache:
        lex = words_upto(AB, _L(tier))
        docs = docs_for_lexicon(lex, lambda i, t: 1 + (i * 7 + len(t)) % 3)
        # interleave so that every segment holds a mix of the lexicon
        _cache[key] = [build(ctx, docs, n) for n in (1, 2, 3)]
    return _cache[key]


def _single_term_indexes(ctx, tier):
    key = ("singles", tier)
    if key not in _cache:
        _cache[key] = [build(ctx, [("d0", [t])], 1) for t in words_upto(AB, _L(tier))]
    return _cache[key]


def shape_sig(block, alpha, b_list, w, sizes, extra=()):
    return (block, alpha, tuple(b.nseg for b in b_list), b_list[0].fieldkind, len(w), w in b_list[0].freq, tuple(sizes)) + tuple(extra)


def _bucket(n, total):
    if n == 0:
        return 0
    if n == total:
        return "all"
    return 1 if n == 1 else (2 if n <= 4 else 3)


def unit_e1(ctx, tier, u):
    lex = words_upto(AB, _L(tier))
    queries = [""] + lex
    w = queries[u]
    fulls = _full_indexes(ctx, tier)
    singles = _single_term_indexes(ctx, tier)
    pop = {}
    sizes = []
    for d in DISTS:
        for p in PREFIXES:
            res = [check_terms_within(ctx, b, w, d, p, pop) for b in fulls]
            check_agree(ctx, fulls, w, d, p, res)
            ctx.count("e1.pairs", len(lex) * len(fulls))
            for sb in singles:
                check_terms_within(ctx, sb, w, d, p, {})
                ctx.count("e1.pairs")
            for b in fulls:
                check_fuzzy(ctx, b, w, d, p, constantscore=(d + p) % 2 == 0)
                for limit in (1, 3, 100):
                    check_suggest(ctx, b, w, d, p, limit)
                check_correct(ctx, b, w, d, p)
            s_osa = expected_sets(lex, w, d, p)[1]
            sizes.append(_bucket(len(s_osa), len(lex)))
    ctx.count("e1.units")
    ctx.case(shape_sig("E1", "ab", fulls, w, sizes), pop.get("nontrivial", False),
             sample={"block": "E1", "word": w, "lexicon": "all %d words of length<=%d over {a,b}" % (len(lex), _L(tier)),
                     "layouts": [1, 2, 3], "maxdist": list(DISTS), "prefix": list(PREFIXES)} if u % 17 == 1 else None)


def unit_e2(ctx, tier, u):
    base = words_upto(AB, _L2(tier))
    queries = [""] + words_upto(AB, 3)
    chunk = E2_CHUNK[tier]
    nsub = 2 ** len(base) - 1
    for mask in range(1 + u * chunk, min(nsub, (u + 1) * chunk) + 1):
        lex = [t for i, t in enumerate(base) if mask >> i & 1]
        docs = docs_for_lexicon(lex)
        bs = [build(ctx, docs, 1)]
        if len(docs) > 1:
            bs.append(build(ctx, docs, 2))
        try:
            for w in queries:
                pop = {}
                sizes = []
                for d in DISTS:
                    for p in PREFIXES:
                        res = [check_terms_within(ctx, b, w, d, p, pop) for b in bs]
                        check_agree(ctx, bs, w, d, p, res)
                    sizes.append(_bucket(len(expected_sets(lex, w, d, 0)[1]), len(lex)))
                ctx.case(shape_sig("E2", "ab", bs, w, sizes, (len(lex),)), pop.get("nontrivial", False))
            ctx.count("e2.subsets")
        finally:
            for b in bs:
                b.close()
    ctx.count("e2.units")


ALPHABETS = {
    "abc": "abc",
    "multibyte": "aéß日\U0001d11e",      # 1-, 2-, 2-, 3- and 4-byte UTF-8
    "ab-long": "ab",
    "wide": "abcdefghé日",
    "edge": "a\x00\uffff\U0010ffff",       # lowest and highest code points (the automaton walk appends U+0000 / takes chr(ord(c)+1))
    "surrogate-edge": "a\ud7ff\ue000b",    # the code points around the surrogate range (chr(ord(c)+1) of U+D7FF is not encodable)
}


def mutate(rng, w, alpha, n):
    w = list(w)
    for _ in range(n):
        op = rng.choice(["ins", "del", "sub", "swap", "swap"])
        if op == "ins" or not w:
            w.insert(rng.randint(0, len(w)), rng.choice(alpha))
        elif op == "del":
            del w[rng.randrange(len(w))]
        elif op == "sub":
            w[rng.randrange(len(w))] = rng.choice(alpha)
        elif len(w) >= 2:
            i = rng.randrange(len(w) - 1)
            w[i], w[i + 1] = w[i + 1], w[i]
    return "".join(w)


def sampled_case(ctx, rng):
    aname = rng.choice(["abc", "abc", "multibyte", "multibyte", "ab-long", "wide", "edge", "surrogate-edge"])
    alpha = ALPHABETS[aname]
    # an ID field indexes the whole value as one term - also the empty string, which is then a term of the lexicon
    idrng = random.Random("c19-idfield:%r" % rng.random())
    use_id = idrng.random() < 0.12
    with_empty = use_id and idrng.random() < 0.6
    maxlen = 8 if aname == "ab-long" else 6
    bases = ["".join(rng.choice(alpha) for _ in range(rng.randint(2, maxlen))) for _ in range(rng.randint(1, 4))]
    lex = set(bases)
    target = rng.choice([1, 2, 3, 6, 12, 25, 40])
    tries = 0
    while len(lex) < target and tries < 400:
        tries += 1
        if rng.random() < 0.75:
            t = mutate(rng, rng.choice(sorted(lex)), alpha, rng.choice([1, 1, 2, 3]))
        else:
            t = "".join(rng.choice(alpha) for _ in range(rng.randint(1, maxlen)))
        if t:
            lex.add(t)
    if with_empty:
        lex.add("")
        ctx.count("reach.empty_term_in_lexicon")
    lex = sorted(lex)
    # documents: each holds 1..3 terms; term frequencies 1..4
    occ = []
    for t in lex:
        occ += [t] * rng.choice([1, 1, 1, 2, 3, 4])
    rng.shuffle(occ)
    docs = []
    i = 0
    while i < len(occ):
        k = 1 if use_id else rng.choice([1, 1, 2, 3])
        docs.append(("d%d" % len(docs), occ[i:i + k]))
        i += k
    fieldkind = rng.choice(["keyword", "keyword", "text", "keyword-scorable"])
    if use_id:
        fieldkind = "id"
        ctx.count("reach.id_field_cases")
    storage = "file" if rng.random() < 0.12 else "ram"
    layouts = [1] + ([rng.choice([2, 3])] if len(docs) > 1 else [])
    if len(docs) > 3 and rng.random() < 0.3:
        layouts = [1, 2, 3]
    bs = [build(ctx, docs, n, storage=storage, fieldkind=fieldkind) for n in layouts]
    ctx.count("alphabet.%s.cases" % aname)
    try:
        queries = []
        for _ in range(rng.randint(5, 9)):
            k = rng.random()
            if k < 0.2:
                q = rng.choice(lex)
            elif k < 0.7:
                q = mutate(rng, rng.choice(lex), alpha, rng.choice([1, 1, 2, 2, 3]))
            elif k < 0.8:
                q = rng.choice(lex)[:rng.randint(0, 2)]
            elif k < 0.85:
                q = ""
            else:
                q = "".join(rng.choice(alpha) for _ in range(rng.randint(1, maxlen)))
            queries.append(q)
        for w in queries:
            pop = {}
            sizes = []
            plist = sorted(set([0, rng.choice([1, 2]), rng.choice([3, 5, len(w), len(w) + 1, 9])]))
            for d in DISTS:
                for p in plist:
                    res = [check_terms_within(ctx, b, w, d, p, pop) for b in bs]
                    check_agree(ctx, bs, w, d, p, res)
                    for b in bs:
                        if rng.random() < 0.5:
                            check_fuzzy(ctx, b, w, d, p, constantscore=rng.random() < 0.7)
                        if rng.random() < 0.6:
                            check_suggest(ctx, b, w, d, p, rng.choice([1, 2, 3, 5, 100]))
                        if rng.random() < 0.4:
                            check_correct(ctx, b, w, d, p)
                sizes.append(_bucket(len(expected_sets(lex, w, d, 0)[1]), len(lex)))
            ctx.case(shape_sig("S", aname, bs, w, sizes, (storage, _bucket(len(lex), -1))), pop.get("nontrivial", False),
                     sample={"block": "sampled", "alphabet": aname, "word": w, "lexicon": _small(lex, 30),
                             "layouts": layouts, "field": fieldkind, "storage": storage} if rng.random() < 0.02 else None)
        ctx.count("sampled.cases")
    finally:
        for b in bs:
            b.close()


def _tw_sets(lexicon, w, d, p):
    return expected_sets(lexicon, w, d, p)


def spelling_case(ctx, rng):
    """Population B: TEXT(spelling=True) with a morphological analyzer. The field's terms are the stems; whoosh
    keeps the unstemmed words in the separate field spell_t. Strict oracle: terms_within('t')/FuzzyTerm('t') speak
    about the terms of field t (the stems). Listed mechanism: SegmentReader.terms_within redirects to the spelling
    field (pinned by tests/test_writing.py::test_add_reader_spelling) while the multi-segment path does not."""
    alpha = rng.choice(["ab", "abc"])
    words = set()
    for _ in range(rng.randint(2, 14)):
        words.add("".join(rng.choice(alpha) for _ in range(rng.randint(1, 5))))
    words = sorted(words)
    docs = []
    occ = []
    for t in words:
        occ += [t] * rng.choice([1, 1, 2, 3])
    rng.shuffle(occ)
    i = 0
    while i < len(occ):
        k = rng.choice([1, 1, 2])
        docs.append(("d%d" % len(docs), occ[i:i + k]))
        i += k
    layouts = [1] + ([2] if len(docs) > 1 else [])
    bs = [build(ctx, docs, n, fieldkind="stem-spelling") for n in layouts]
    ctx.count("spelling.cases")
    stems_of = {did: sorted(set(c19_stem(t) for t in ts)) for did, ts in docs}
    stem_lex = sorted(set(x for v in stems_of.values() for x in v))
    try:
        for _ in range(rng.randint(4, 7)):
            w = rng.choice(words + stem_lex) if rng.random() < 0.3 else mutate(rng, rng.choice(words + stem_lex), alpha, rng.choice([1, 1, 2]))
            nontrivial = False
            for d in (0, 1, 2):
                for p in (0, 1):
                    f_lev, f_osa, f_dl = expected_sets(stem_lex, w, d, p)       # what the statement demands (terms of t)
                    s_lev, s_osa, s_dl = expected_sets(words, w, d, p)          # the spelling field's words
                    if f_osa and len(f_osa) < len(stem_lex):
                        nontrivial = True
                    for b in bs:
                        single = b.nseg == 1
                        wit = {"api": "reader.terms_within('t', word, maxdist, prefix) on TEXT(spelling=True, stemming analyzer)",
                               "word": w, "maxdist": d, "prefix": p, "index": b.describe(), "terms_of_field_t": _small(stem_lex, 40),
                               "words_of_spelling_field": _small(words, 40)}
                        reader = b.searcher.reader()
                        ok, got = ctx.guard("spellfield.terms_within", wit, lambda: set(reader.terms_within("t", w, d, prefix=p)))
                        ctx.count("spelling.tw.evals")
                        if ok and not (f_osa <= got <= f_dl):
                            wit.update(expected=_small(f_osa, 30), observed=_small(got, 30), spelling_words_within=_small(s_lev, 30))
                            if single and got == s_lev:
                                wit["observed_by"] = "terms_within.single"
                                ctx.fail("spellfield", "known:segment-terms_within-reads-spelling-field", wit,
                                         "single-segment terms_within('t') == words of spell_t within (plain Levenshtein) distance")
                            elif single and got == f_lev:
                                wit["observed_by"] = "terms_within.single(spelling field == field)"
                                ctx.fail("transposition", "known:automaton-no-transposition", wit)
                            else:
                                ctx.fail("spellfield.terms_within", "%s:%s" % ("single" if single else "multi",
                                         "missing" if f_osa - got else "extra"), wit)
                        # FuzzyTerm: documents containing a term of t within distance
                        from whoosh import query
                        wit2 = {"api": "search(FuzzyTerm('t', word, maxdist, prefixlength)) on TEXT(spelling=True, stemming analyzer)",
                                "word": w, "maxdist": d, "prefixlength": p, "index": b.describe(), "terms_of_field_t": _small(stem_lex, 40)}
                        q = query.FuzzyTerm("t", w, maxdist=d, prefixlength=p)
                        ok, docs_got = ctx.guard("spellfield.fuzzy", wit2, lambda: sorted(h["id"] for h in b.searcher.search(q, limit=None)))
                        ctx.count("spelling.fuzzy.evals")
                        if not ok:
                            continue
                        lo = sorted(did for did, st in stems_of.items() if any(x in f_osa for x in st))
                        hi = sorted(did for did, st in stems_of.items() if any(x in f_dl for x in st))
                        if set(lo) <= set(docs_got) <= set(hi):
                            if lo:
                                ctx.count("spelling.fuzzy.nonempty-agree")
                            continue
                        # second oracle: per segment, the automaton walked that segment's spell_t words (plain Levenshtein) and
                        # the resulting words were looked up as terms of t
                        second = []
                        for part in b.layout():
                            seg_words = set(t for _, ts in part for t in ts)
                            hit = expected_sets(sorted(seg_words), w, d, p)[0]
                            second += [did for did, _ in part if any(x in hit for x in stems_of[did])]
                        wit2.update(expected_docs=lo[:40], observed_docs=docs_got[:40], expected_terms=_small(f_osa, 30))
                        if docs_got == sorted(second):
                            wit2["observed_by"] = "fuzzy.docs"
                            ctx.fail("spellfield", "known:segment-terms_within-reads-spelling-field", wit2,
                                     "FuzzyTerm expanded to the unstemmed spelling words, which were then looked up in the stemmed field")
                        else:
                            ctx.fail("spellfield.fuzzy", "missing" if set(lo) - set(docs_got) else "extra", wit2)
                    # suggestions come from the spelling field: existing words, within distance, never the word itself
                    for b in bs:
                        single = b.nseg == 1
                        wit3 = {"api": "searcher.suggest('t', word, limit=100, maxdist, prefix) on TEXT(spelling=True, stemming analyzer)",
                                "word": w, "maxdist": d, "prefix": p, "index": b.describe(), "words_of_spelling_field": _small(words, 40)}
                        ok, sug = ctx.guard("spellfield.suggest", wit3, lambda: list(b.searcher.suggest("t", w, limit=100, maxdist=d, prefix=p)))
                        ctx.count("spelling.suggest.evals")
                        if not ok:
                            continue
                        wit3["observed"] = sug[:30]
                        lo_s, hi_s = (s_lev, s_lev) if single else (s_osa, s_dl)
                        body = [x for x in sug if x != w]
                        ds = [dists(x, w)[0 if single else 1] for x in body]
                        if not (lo_s - {w} <= set(body) <= hi_s) or len(set(sug)) != len(sug):
                            ctx.fail("spellfield.suggest", "%s:set" % ("single" if single else "multi"), dict(wit3, expected=_small(lo_s - {w}, 30)))
                        elif ds != sorted(ds) and not any(dists(x, w)[1] != dists(x, w)[2] for x in body):
                            ctx.fail("spellfield.suggest", "%s:not-by-distance" % ("single" if single else "multi"), dict(wit3, distances=ds))
                        elif single and s_lev != s_osa and set(body) != s_osa - {w}:
                            wit3["observed_by"] = "suggest(spelling field)"
                            ctx.fail("transposition", "known:automaton-no-transposition", dict(wit3, expected=_small(s_osa - {w}, 30)))
                        if w in sug:
                            wit3["observed_by"] = "suggest(spelling field)"
                            ctx.fail("suggest.self", "known:suggest-includes-queried-word", wit3)
            ctx.case(("SP", alpha, tuple(b.nseg for b in bs), len(w), w in words, w in stem_lex, _bucket(len(words), -1)), nontrivial)
    finally:
        for b in bs:
            b.close()


def run(ctx):
    tier = ctx.tier
    n1 = e1_units(tier)
    n2 = e2_units(tier)
    nsampled = ctx.pick(440, 6400)
    total = n1 + n2 + nsampled
    per_shard = -(-total // ctx.nshards)
    try:
        for idx in ctx.cases(quick=per_shard, thorough=per_shard):
            if idx >= total:
                continue
            ctx.reseed_global(idx)
            if idx < n1:
                unit_e1(ctx, tier, idx)
            elif idx < n1 + n2:
                unit_e2(ctx, tier, idx - n1)
            elif idx % 8 == 3:
                spelling_case(ctx, ctx.rng(idx))
            else:
                sampled_case(ctx, ctx.rng(idx))
    finally:
        for v in _cache.values():
            for b in v:
                b.close()
        _cache.clear()
