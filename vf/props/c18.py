"""C18 - storage back-ends and writer front-ends are interchangeable.

Monitor shape: differential + reference model.  One seeded *history* of document-level operations
(transactions of deletes / delete-by-query / adds / updates over a schema with stored, vectored,
sortable-column, numeric, date, boolean and stored-only fields) is executed

  * by the reference configuration (FileStorage+mmap, compound segments, plain SegmentWriter), whose
    observations are first checked against an independent dict model (vf.model), and
  * by alternative configurations drawn from
    storage {FileStorage mmap, FileStorage(supports_mmap=False), RamStorage, copy_to_ram at a random point of the
    history} x packing {compound, loose} x front-end {SegmentWriter, SerialMpWriter, MpWriter (in a subprocess with a
    timeout), BufferedWriter (limit 1/3/100, with and without flush timer), AsyncWriter behind a held write lock}.

Every configuration must give the same canonical logical dump (vf.dump, keyed by a stored key), the same answers to a
probe query set (ids always; scores and collection statistics when the history removed nothing) and, for a part of
the cases, the same dump/statistics/scores after a final optimize.

Two further case kinds watch the wrappers themselves:
  * "bw": a BufferedWriter is driven step by step (adds, updates and deletes hitting buffered and committed documents,
    explicit commits, several threads, a commit fired from another thread exactly as the flush timer would, a real
    timer); after every step its own reader()/searcher() must show exactly the model's documents; after close() a
    freshly opened index must show all of them and the write lock must be free.
  * "async": inside product cases an AsyncWriter is created while another writer holds the lock (and does its own
    transaction), with explicit sequencing of hold -> buffer -> commit() -> release -> join and randomized sleeps; the
    observed orders (number of failed retries, release before/after commit()) are counted.  In "async_multi" cases 2..4
    AsyncWriters queue behind one lock holder and race for the lock; whatever order they win in, the index must end up
    holding exactly the model's documents (their transactions touch disjoint keys).

A fourth kind, "groups", runs the product machinery over HIERARCHICAL documents: every transaction is a sequence of
outermost groups (a tree of documents with strict levels l0 > l1 > l2 > l3, written in pre-order inside 1..3 nested
writer.group() / start_group()..end_group() contexts; a long outer group holds many small inner groups, also groups of one
document) with a few ungrouped documents in between.  The history goes through the reference configuration and through
1-2 MpWriter configurations (procs 2..4, batchsize 1..7 and 100, merged and multisegment, in a subprocess) plus 1-2 of
{plain writer with storage/packing/pool variants, BufferedWriter that cannot flush inside a group, AsyncWriter in front of a
plain writer}.  Besides the usual dump / probe / statistics / optimize comparison two monitors watch what groups are for:
  (a) adjacency: in document-number order (leaf readers' all_stored_fields(), cross-checked with reader.iter_docs()) the
      members of every outermost group form one contiguous run, in insertion order, inside one segment - after the commit
      and again after a final optimize; the relative order of different outermost groups and of ungrouped documents is free;
  (b) nested queries: NestedParent / NestedChildren queries (parent set = one level, or "every document not below level j";
      sub-query restricted to the levels for which the answer is decided by the hierarchy alone) return exactly what a dict
      model of the trees says (ancestor at level j / all descendants), for the reference and for every configuration.
The reach counter c18.groups.mp.runs_inner_group_closes_on_full_buffer counts MpWriter runs in which an inner group closes
inside a still open outer group while the document buffer already holds >= batchsize documents (the situation in which a
writer that hands the buffer over too early tears an outer group apart).

Case numbering: every 16th case of a shard is a "groups" case (own random stream ctx.rng(idx, "groups")); the other cases
keep the index - hence the random stream, and the "case_idx" shown in their witnesses - they had before that kind was
interleaved (60 / 300 per shard), the replay index recorded by the framework is the position in the interleaved sequence.
"""
import datetime
import os
import pickle
import random
import shutil
import signal
import subprocess
import sys
import tempfile
import threading
import time

LEVEL = "exploration"
RULE = ("case kinds: 'product' = one seeded history (1..4 transactions; deletes first, then adds/updates of distinct keys; "
        "schema options vector/chars/sortable/boosts) run through the reference configuration and 5 (quick) / 8 (thorough) "
        "sampled configurations of storage x packing x non-multiprocess front-end; 'mp' = the same with 1-2 MpWriter "
        "configurations (procs 2..4 x batchsize 1/3/100 x multisegment) each in its own subprocess; segment / serial-mp / "
        "mp writers get limitmb in {default, 1e-5, 2e-4, 2e-3} (tiny posting pools that spill sorted runs); 'bw' = a step-wise "
        "BufferedWriter program against a dict model (sequential, threaded, timer variants); 'async_multi' = 2..4 AsyncWriters "
        "queued behind one lock holder (AsyncWriter behind a held lock with explicit sequencing is also one of the product "
        "front-ends); 'groups' (every 16th case of a shard) = an add-only history of 1..2 (thorough 1..3) transactions of 12..70 (thorough "
        "..120) hierarchical documents each: outermost groups = pre-order trees with strict levels, 1..3 nested group contexts "
        "(group() context manager, start_group()/end_group() calls or mixed), root fan-out 0..8, inner fan-out 0..4, childless "
        "inner documents wrapped in a group of one half of the time, one top-level item in six an ungrouped document; run through "
        "the reference configuration, 1-2 MpWriter configurations (procs 2..4 x batchsize 1..7/100 x multisegment, subprocess) "
        "and 1-2 of plain / buffered (limit > number of documents, no sub-minute timer) / async-over-plain configurations; "
        "monitors: group adjacency per segment in docnum order (final and after optimize) and 8 NestedParent/NestedChildren "
        "queries per case against a dict model of the trees. A product/mp/groups case is non-trivial when the history has >= 2 documents and the "
        "configuration differs from the reference; distinct = (front-end parameters, storage, packing, transaction-shape "
        "signature, deletions present, final segment count[, group depth, bracket style, number of outermost groups]); "
        "bw/async cases: distinct = (variant, opcode sequence / observed "
        "timing order).")
ASSUMPTIONS = [
    "document numbers and segment layout are not logical content: dumps are keyed by the stored field 'key'",
    "within one transaction deletes come first and target only documents committed by earlier transactions, and every key is "
    "added/updated at most once: a plain writer cannot see (delete, replace) its own uncommitted documents (documented), a "
    "BufferedWriter can, so other programs legitimately differ between front-ends; the 'bw' cases exercise those programs "
    "against the model instead",
    "terms all of whose postings belong to deleted documents stay in the lexicon until the segment is rewritten; such terms are "
    "dropped from both dumps before comparing (same relaxation as C06)",
    "scores and collection statistics (df, field lengths, term infos) are compared only for histories that removed nothing, or "
    "after a final optimize; otherwise only the matching id sets (statistics legitimately count deleted documents until merged)",
    "field lengths are kept <= 10 tokens so that the one-byte length encoding is exact (the byte-approximated total field "
    "length after a merge is C06's listed finding, not this property's)",
    "score comparison tolerance 1e-9 relative",
    "the BufferedWriter front-end cannot be given per-transaction commit arguments; it commits with its configured commitargs",
    "MpWriter runs happen in a subprocess with a timeout; a run that hangs is counted (c18.mp.hang) and makes the check "
    "inconclusive through the floor on completed runs, never a violation",
    "thread timings are sampled by real threads with randomized sleeps and a small switch interval, not enumerated; the flush "
    "timer is mostly emulated by calling BufferedWriter.commit() from a second thread (what threading.Timer does), plus a few "
    "real timers with a sub-second period",
    "an empty posting value (fields whose format stores nothing per posting) is the same as no value (None vs b'')",
    "an exception that ends a flush-timer thread is reported as a failure (monitor c18.thread): a flush that raises did not "
    "save what it was meant to save",
    "a sub-writer process that dies is observed through its traceback on stderr and counted; only a difference in the resulting "
    "index is a violation",
    "groups: the 'groups' cases run through the plain SegmentWriter, MpWriter (small batch sizes), SerialMpWriter, a "
    "BufferedWriter whose limit (1..8) is reached inside groups, and an AsyncWriter in front of a plain writer. On the pinned "
    "tree SerialMpWriter.start_group() raised AttributeError, BufferedWriter flushed inside an open group and AsyncWriter did "
    "not forward start_group/end_group: three genuine defects (start_group() documents that the backend keeps a group in one "
    "segment), fixed in /repo; an AsyncWriter whose writerargs ask for a multi-process writer is not exercised (no in-process "
    "sub-processes in the harness)",
    "groups: histories are add-only (no deletes/updates), keys unique: what NestedParent/NestedChildren do around deleted "
    "documents is another property's business",
    "groups: the relative order of different outermost groups, of ungrouped documents, and the assignment of whole groups to "
    "segments are not promised and not compared; nested queries are generated only in the form whose answer does not depend on "
    "them: strict levels; NestedParent(parents = level j alone | every level <= j plus ungrouped, sub-query AND level > j) = "
    "level-j ancestors of the matching documents; NestedChildren(parents = every level <= j plus ungrouped (level 0 alone only "
    "when there are no 'note' documents), sub-query AND (level j | the parent set)) = all descendants of the matching level-j "
    "documents, optionally AND-ed with a term query. Sub-queries that match documents outside that domain (a NestedParent "
    "sub-query matching a parent, a NestedChildren sub-query matching a non-parent) are not generated; scores of nested "
    "queries are not compared",
]
SHARDS = {"quick": 4, "thorough": 16}
BUDGET_S = {"quick": 90, "thorough": 720}
FLOORS = {"c18.configs": 150, "c18.dump.compares": 200, "c18.fe.seg": 30, "c18.fe.serialmp": 16, "c18.fe.buffered": 35,
          "c18.fe.async": 40, "c18.fe.mp": 18, "c18.mp.completed": 18, "c18.storage.file": 40, "c18.storage.nommap": 40,
          "c18.storage.ram": 32, "c18.storage.toram": 32, "c18.packing.compound": 75, "c18.packing.loose": 75,
          "c18.final.multisegment": 85, "c18.final.spilling_pool": 40, "c18.final.spilling_pool.mp": 3, "c18.final.spilling_pool.serialmp": 3, "c18.model.checks": 40, "c18.model.probe_checks": 320,
          "c18.probe.compares": 1600, "c18.score.compares": 2700, "c18.stats.compares": 80, "c18.optimize.compares": 48,
          "c18.async.blocked_txs": 50, "c18.async.order.blocked.retries0.release_before_commit": 15,
          "c18.async.order.blocked.retries3.release_after_commit": 15, "c18.async.order.free.retries0.release_-": 20,
          "c18.bw.view_checks": 190, "c18.bw.dump_checks": 45, "c18.bw.close_checks": 30, "c18.bw.ops_with_buffered_docs": 25,
          "c18.bw.thread_runs": 12, "c18.bw.commit_overlapped_add": 8, "c18.bw.thread_deletes_updates": 30,
          "c18.bw.timer_flush_observed": 6, "c18.asyncmulti.runs": 6, "c18.asyncmulti.dump_checks": 6,
          "c18.asyncmulti.distinct_lock_orders": 4, "c18.asyncmulti.lock_won_out_of_creation_order": 3,
          "c18.cases.groups": 5, "c18.groups.configs": 12, "c18.groups.fe.mp": 6, "c18.groups.fe.seg": 2,
          "c18.groups.fe.buffered": 1, "c18.groups.fe.async": 1, "c18.groups.mp.merged": 2, "c18.groups.mp.multisegment": 3,
          "c18.groups.mp.runs_inner_group_closes_on_full_buffer": 4,
          "c18.groups.adjacency_checks": 20,
          "c18.groups.adjacency_checks.multisegment": 2, "c18.groups.outer_groups_checked": 60,
          "c18.groups.nested_compares": 160, "c18.groups.nested_compares.nonempty": 140}

MP_TIMEOUT_S = 60
GROUPS_EVERY = 16         # every 16th case of a shard is a 'groups' case


# ----------------------------------------------------------------------
# schema, documents, histories, model
# ----------------------------------------------------------------------

def gen_opts(rng):
    return {
        "vector": rng.choice([False, True, True, "freq"]),
        "chars": rng.random() < 0.4,
        "t_sortable": rng.random() < 0.4,
        "id_sortable": rng.random() < 0.5,
        "k_sortable": rng.random() < 0.6,
        "n_sortable": rng.random() < 0.7,
        "d_sortable": rng.random() < 0.6,
        "u_phrase": rng.random() < 0.5,
        "u_boost": rng.choice([1.0, 1.0, 2.5]),
        "boosts": rng.random() < 0.3,
        # dense: every indexed document has >= 1 token in t, u and k, so that minimum field lengths are > 0
        "dense": rng.random() < 0.35,
    }


def make_schema(o):
    from whoosh import fields, formats
    vec = o["vector"]
    if vec == "freq":
        vec = formats.Frequency()
    schema = fields.Schema(
        id=fields.ID(stored=True, unique=True, sortable=o["id_sortable"]),
        key=fields.STORED,
        t=fields.TEXT(stored=True, vector=vec, chars=o["chars"], sortable=o["t_sortable"]),
        u=fields.TEXT(stored=True, phrase=o["u_phrase"], field_boost=o["u_boost"]),
        k=fields.KEYWORD(stored=True, scorable=True, sortable=o["k_sortable"]),
        n=fields.NUMERIC(int, stored=True, sortable=o["n_sortable"]),
        d=fields.DATETIME(stored=True, sortable=o["d_sortable"]),
        b=fields.BOOLEAN(stored=True),
        s=fields.STORED,
    )
    # dynamic (glob) fields: their concrete names exist only in the documents, not in Schema.names()
    schema.add("*_dyn", fields.KEYWORD(scorable=True, sortable=o["k_sortable"]), glob=True)
    schema.add("*_txt", fields.TEXT(vector=bool(o["vector"])), glob=True)
    if o.get("hier"):
        # 'groups' cases: the level of a document in its hierarchy ("l0".."l3", "note" for an ungrouped document)
        schema.add("kind", fields.ID(stored=True))
    return schema


def gen_doc(rng, key, o, stored_only_ok=True):
    from vf import model
    if stored_only_ok and not o.get("dense") and rng.random() < 0.07:
        # a document without any indexed term (cannot be deleted/updated by term later)
        return {"key": "s%s" % key, "s": {"x": rng.randint(0, 9), "y": [1, u"\xe9"]}}
    d = model.gen_doc(rng, key, maxlen=8, boosts=o["boosts"])
    d["key"] = d["id"]
    if o.get("dense"):
        if not d.get("t"):
            d["t"] = " ".join(model.zipf_choice(rng, model.VOCAB) for _ in range(rng.randint(1, 8)))
        if not d.get("u"):
            d["u"] = " ".join(model.zipf_choice(rng, model.VOCAB[:8]) for _ in range(rng.randint(1, 4)))
        if not d.get("k"):
            d["k"] = " ".join(rng.choice(model.KVOCAB) for _ in range(rng.randint(1, 2)))
    if rng.random() < 0.4:
        d["b"] = rng.random() < 0.5
    if rng.random() < 0.3:
        d["x_dyn"] = " ".join(rng.choice(model.KVOCAB) for _ in range(rng.randint(1, 3)))
    if rng.random() < 0.3:
        d["y_txt"] = " ".join(model.zipf_choice(rng, model.VOCAB) for _ in range(rng.randint(1, 5)))
    if rng.random() < 0.35:
        d["s"] = {"x": rng.randint(0, 9), "y": [1, u"\xe9"]}
    lr = random.Random("c18-long-value:%r" % rng.random())
    if d.get("t") and lr.random() < 0.06:
        # a long value: a sortable text column switches its length / offset arrays to 2-byte (>= 256 bytes) items
        # (one long token, not many: the per-document field LENGTH must stay in the range that the length byte stores
        # exactly - rewritten segments approximate longer fields, which is C06's listed finding, not a front-end matter)
        d["t"] = d["t"] + " " + "z" * lr.choice([256, 300, 700])
    if "t" in d and rng.random() < 0.15:
        d["_stored_t"] = "ALT " + d["t"]
    if o["boosts"] and "t" in d and rng.random() < 0.2:
        d["_t_boost"] = 2.0
    return d


def expected_stored(d):
    out = {}
    for f in ("id", "key", "t", "u", "k", "n", "d", "b", "s", "kind"):
        v = d.get("_stored_%s" % f, d.get(f))
        if v is not None:
            out[f] = v
    return out


def ktoks(d):
    v = d.get("k")
    return v.split() if isinstance(v, str) else []


def model_apply(live, tx):
    """Apply one transaction to the dict model; returns the number of documents it removed/replaced."""
    removed = 0
    for op in tx["ops"]:
        if op[0] in ("sg", "eg"):
            continue                    # group brackets ('groups' cases) carry no document
        if op[0] == "delete":
            if live.pop(op[1], None) is not None:
                removed += 1
        elif op[0] == "delq":
            for key in [k for k, d in live.items() if op[1] in ktoks(d)]:
                del live[key]
                removed += 1
        else:
            key = op[1]["key"]
            if op[0] == "update" and key in live:
                removed += 1
            live[key] = op[1]
    return removed


def gen_history(rng, tier, maxdocs=None, ntx=None, addonly=False, dense=None):
    from vf import model
    o = gen_opts(rng)
    if dense is not None:
        o["dense"] = dense
    ntx = ntx or rng.choice([1, 2, 2, 3, 3, 4])
    maxadd = maxdocs or (10 if tier == "quick" else 16)
    live, txs, nextkey, removed = {}, [], 0, 0
    for i in range(ntx):
        ops, touched = [], set()
        idkeys = [k for k, d in live.items() if "id" in d]
        if i > 0 and idkeys and rng.random() < 0.6 and not addonly:
            for key in rng.sample(idkeys, min(len(idkeys), rng.choice([1, 1, 2, 3]))):
                ops.append(("delete", key))
                touched.add(key)
            if rng.random() < 0.3:
                ops.append(("delete", "9999"))          # absent key
            if rng.random() < 0.3:
                w = rng.choice(model.KVOCAB)
                ops.append(("delq", w))
                touched.update(k for k, d in live.items() if w in ktoks(d))
            if rng.random() < 0.08:
                for key in idkeys:                      # delete everything deletable
                    if key not in touched:
                        ops.append(("delete", key))
                        touched.add(key)
        body = []
        cands = [k for k in idkeys if k not in touched]
        if i > 0 and cands and rng.random() < 0.6 and not addonly:
            for key in rng.sample(cands, min(len(cands), rng.choice([1, 1, 2, 4]))):
                body.append(("update", gen_doc(rng, key, o, stored_only_ok=False)))
        only_stored = rng.random() < 0.06 and not o.get("dense")       # a transaction whose sub-writers never see an indexed term
        for _ in range(rng.randint(0 if (ops or body) else 1, maxadd)):
            kind = "update" if rng.random() < 0.15 and not only_stored else "add"   # update of a fresh key == add
            d = gen_doc(rng, nextkey, o, stored_only_ok=(kind == "add"))
            if only_stored:
                d = {"key": "s%d" % nextkey, "s": {"x": rng.randint(0, 9), "y": [1, u"\xe9"]}}
            nextkey += 1
            body.append((kind, d))
        rng.shuffle(body)
        tx = {"ops": ops + body,
              "commit": rng.choice([{}, {}, {"merge": False}, {"merge": False}, {"optimize": True}])}
        removed += model_apply(live, tx)
        txs.append(tx)
    return {"opts": o, "txs": txs, "live": live, "removed": removed}


def tx_sig(h):
    def b(n):
        return n if n < 4 else (4 if n < 8 else 8)
    return tuple((b(sum(1 for op in tx["ops"] if op[0] in ("delete", "delq"))),
                  b(sum(1 for op in tx["ops"] if op[0] == "update")),
                  b(sum(1 for op in tx["ops"] if op[0] == "add")),
                  tuple(sorted(tx["commit"]))) for tx in h["txs"])


def describe_history(h):
    if h.get("groups") is not None:
        return describe_group_history(h)
    return {"opts": h["opts"],
            "txs": [{"commit": tx["commit"],
                     "ops": [[op[0], op[1] if op[0] in ("delete", "delq") else op[1]] for op in tx["ops"]]}
                    for tx in h["txs"]],
            "live_keys": sorted(h["live"])}


# ----------------------------------------------------------------------
# executing a history through a configuration
# ----------------------------------------------------------------------

def apply_ops(w, ops):
    from whoosh import query
    open_groups = []
    for op in ops:
        if op[0] == "add":
            w.add_document(**op[1])
        elif op[0] == "sg":
            # ("sg", "ctx"): the writer.group() context manager; ("sg", "calls"): start_group() / end_group()
            if op[1] == "ctx":
                cm = w.group()
                cm.__enter__()
                open_groups.append(cm)
            else:
                w.start_group()
                open_groups.append(None)
        elif op[0] == "eg":
            cm = open_groups.pop()
            if cm is None:
                w.end_group()
            else:
                cm.__exit__(None, None, None)
        elif op[0] == "update":
            w.update_document(**op[1])
        elif op[0] == "delete":
            w.delete_by_term("id", op[1])
        elif op[0] == "delq":
            w.delete_by_query(query.Term("k", op[1]))
        else:
            raise AssertionError(op)


class IxProxy(object):
    """Index stand-in handed to AsyncWriter: counts its attempts to obtain the real writer."""

    def __init__(self, ix):
        self._ix = ix
        self.attempts = []          # (thread name, "ok" | "locked")

    def writer(self, **kw):
        from whoosh.index import LockError
        try:
            w = self._ix.writer(**kw)
        except LockError:
            self.attempts.append((threading.current_thread(), "locked"))
            raise
        self.attempts.append((threading.current_thread(), "ok"))
        return w

    def __getattr__(self, name):
        return getattr(self._ix, name)


def join_or_die(th, what, seconds=60):
    th.join(seconds)
    if th.is_alive():
        raise Hang(what)


class Hang(Exception):
    pass


def bounded(what, fn, *args, **kw):
    """Run fn in a helper thread; AsyncWriter promises to try ONCE for the lock and then buffer, so its constructor
    blocking on a held lock is a failure of bounded progress, not something to sit out until the shard watchdog."""
    box = {}

    def target():
        try:
            box["value"] = fn(*args, **kw)
        except BaseException as e:  # noqa
            box["error"] = e
    th = threading.Thread(target=target, daemon=True)
    th.start()
    th.join(60)
    if th.is_alive():
        raise Hang(what)
    if "error" in box:
        raise box["error"]
    return box["value"]


_thread_errors = []


def _install_thread_hook():
    """Exceptions that end a thread (AsyncWriter replay, flush timer) are otherwise only printed."""
    if getattr(threading, "_c18_hook", False):
        return

    def hook(args):
        _thread_errors.append((args.thread, args.exc_value))
    threading.excepthook = hook
    threading._c18_hook = True


def reraise_thread_error(th):
    for i, (t, e) in enumerate(_thread_errors):
        if t is th:
            del _thread_errors[i]
            raise e


def report_stray_thread_errors(ctx, idx):
    """Exceptions that ended a BufferedWriter flush-timer thread (or any other thread nobody joined). The timer may belong to
    a BufferedWriter of an earlier case of this worker, so the witness only names the exception."""
    import traceback
    from vf import core
    while _thread_errors:
        t, e = _thread_errors.pop()
        site, in_harness = core.whoosh_site(e)
        if in_harness:
            raise e
        kind = "flush-timer" if isinstance(t, threading.Timer) else type(t).__name__
        ctx.fail("c18.thread", "exc:%s:%s@%s" % (kind, type(e).__name__, site),
                 {"thread": repr(t), "noticed_after_case": idx},
                 "".join(traceback.format_exception(type(e), e, e.__traceback__))[-2500:])


def safe_close(bw):
    """Best-effort close of a BufferedWriter after a failure: never leave an armed (non-daemon) flush timer behind."""
    try:
        bw.close()
    except Exception:  # noqa
        pass
    t = getattr(bw, "timer", None)
    if t is not None:
        t.cancel()


def run_async_tx(ix, wa, prev_tx, tx, plan, stats):
    """Run `prev_tx` (may be None) in a plain writer that holds the lock while `tx` is handed to an AsyncWriter.
    plan: {"mode": "free"|"blocked", "release": "before_commit"|"after_commit", "sleep": s, "delay": s}"""
    from whoosh import writing
    if plan["mode"] == "free":
        if prev_tx is not None:
            w = ix.writer(**wa)
            apply_ops(w, prev_tx["ops"])
            w.commit(**prev_tx["commit"])
        px = IxProxy(ix)
        aw = writing.AsyncWriter(px, delay=plan["delay"], writerargs=dict(wa))
        apply_ops(aw, tx["ops"])
        aw.commit(**tx["commit"])
        if aw.is_alive() or aw.running:
            join_or_die(aw, "AsyncWriter thread (free lock)")
            reraise_thread_error(aw)
        stats.append(("free", 0, "-"))
        return
    blocker = ix.writer(**wa)
    px = IxProxy(ix)
    aw = bounded("AsyncWriter() blocks on a held lock", writing.AsyncWriter, px, delay=plan["delay"], writerargs=dict(wa))
    aw.daemon = True           # a retry loop that can never succeed must not keep the worker process alive
    if aw.writer is not None:
        raise AssertionError("AsyncWriter obtained a writer although the lock is held")
    try:
        # interleave the blocker's own work and the buffered calls
        if prev_tx is not None:
            apply_ops(blocker, prev_tx["ops"])
        apply_ops(aw, tx["ops"])
        if plan["release"] == "before_commit":
            if prev_tx is not None:
                blocker.commit(**prev_tx["commit"])
            else:
                blocker.cancel()
            aw.commit(**tx["commit"])
        else:
            aw.commit(**tx["commit"])
            if plan["sleep"]:
                time.sleep(plan["sleep"])
            if prev_tx is not None:
                blocker.commit(**prev_tx["commit"])
            else:
                blocker.cancel()
    except BaseException:
        # the lock holder failed: release the lock so that the retry thread can end, then report the failure
        try:
            if blocker.writelock is not None and not blocker.is_closed:
                blocker.writelock.release()
        except Exception:  # noqa
            pass
        raise
    join_or_die(aw, "AsyncWriter thread")
    reraise_thread_error(aw)
    failed = sum(1 for th, r in px.attempts if r == "locked" and th is aw)
    stats.append(("blocked", failed, plan["release"]))


def run_history_inproc(st, h, cfg, rng, info):
    """Execute the history on storage `st` (creates the index). Returns the storage holding the final index."""
    from whoosh import writing
    from whoosh.filedb.filestore import copy_to_ram
    from whoosh.multiproc import SerialMpWriter
    fe = cfg["fe"]
    wa = {} if cfg["compound"] else {"compound": False}
    if fe.get("limitmb"):
        wa["limitmb"] = fe["limitmb"]      # tiny posting pool: every few documents spill a sorted run to disk
    ix = st.create_index(make_schema(h["opts"]))
    txs = h["txs"]
    toram_at = cfg.get("toram_at")
    bw = None
    if fe["kind"] == "buffered":
        bw = writing.BufferedWriter(ix, period=fe["period"], limit=fe["limit"], writerargs=dict(wa),
                                    commitargs=dict(fe["commitargs"]))
    try:
        i = 0
        while i < len(txs):
            if toram_at == i:
                if bw is not None:
                    bw.close()
                st = copy_to_ram(st)
                ix = st.open_index()
                if bw is not None:
                    bw = writing.BufferedWriter(ix, period=fe["period"], limit=fe["limit"], writerargs=dict(wa),
                                                commitargs=dict(fe["commitargs"]))
            tx = txs[i]
            if fe["kind"] == "seg":
                w = ix.writer(**wa)
                apply_ops(w, tx["ops"])
                w.commit(**tx["commit"])
            elif fe["kind"] == "serialmp":
                w = SerialMpWriter(ix, procs=fe["procs"], **wa)
                apply_ops(w, tx["ops"])
                w.commit(**tx["commit"])
            elif fe["kind"] == "mp":
                w = ix.writer(procs=fe["procs"], batchsize=fe["batchsize"], multisegment=fe["multisegment"], **wa)
                apply_ops(w, tx["ops"])
                w.commit(**tx["commit"])
            elif fe["kind"] == "buffered":
                apply_ops(bw, tx["ops"])
                if fe["period"] and fe["period"] < 1 and rng.random() < 0.3:
                    time.sleep(rng.choice([0.0, 0.01, fe["period"] * 1.2]))
                if i < len(txs) - 1 and rng.random() < 0.8:
                    bw.commit()
            elif fe["kind"] == "async":
                plan = fe["plans"][i % len(fe["plans"])]
                # pair this transaction with the next one: this one runs in the lock holder, the next is buffered
                if plan["pair"] and i + 1 < len(txs) and toram_at != i + 1:
                    run_async_tx(ix, wa, tx, txs[i + 1], plan, info.setdefault("async", []))
                    i += 1
                else:
                    run_async_tx(ix, wa, None, tx, plan, info.setdefault("async", []))
            else:
                raise AssertionError(fe)
            i += 1
        if bw is not None:
            bw.close()
            bw = None
        if toram_at == len(txs):
            st = copy_to_ram(st)
    finally:
        if bw is not None:
            safe_close(bw)
    return st


def make_storage(cfg, tmpdir):
    from whoosh.filedb.filestore import FileStorage, RamStorage
    if cfg["storage"] == "ram":
        return RamStorage()
    return FileStorage(tmpdir, supports_mmap=(cfg["storage"] != "nommap"))


def reopen(st, cfg):
    """A fresh Index object over what the configuration left behind."""
    from whoosh.filedb.filestore import FileStorage
    if isinstance(st, FileStorage):
        st = FileStorage(st.folder, supports_mmap=(cfg["storage"] != "nommap"))
    return st.open_index()


def run_mp_subprocess(tmpdir, h, cfg, seedstr):
    """MpWriter runs happen in a child interpreter. Returns (status, stderr_text) with status in ok|hang|error."""
    from vf import core
    job = os.path.join(tmpdir, "job.pickle")
    ixdir = os.path.join(tmpdir, "ix")
    os.mkdir(ixdir)
    with open(job, "wb") as f:
        pickle.dump({"history": {"opts": h["opts"], "txs": h["txs"]}, "cfg": cfg, "seed": seedstr, "dir": ixdir}, f)
    env = dict(os.environ)
    env["PYTHONPATH"] = core.ROOT + os.pathsep + env.get("PYTHONPATH", "")
    errpath = os.path.join(tmpdir, "stderr.txt")
    with open(errpath, "wb") as errf:
        p = subprocess.Popen([sys.executable, "-m", "vf.workers.c18_mp", job], cwd=core.ROOT, env=env,
                             stdout=errf, stderr=subprocess.STDOUT, start_new_session=True)
        try:
            rc = p.wait(timeout=MP_TIMEOUT_S)
            status = "ok" if rc == 0 else "error"
        except subprocess.TimeoutExpired:
            status = "hang"
        finally:
            try:
                os.killpg(p.pid, signal.SIGKILL)     # the whole session: pool children must not survive
            except OSError:
                pass
            p.wait()
    with open(errpath, "rb") as f:
        err = f.read().decode("utf-8", "replace")
    return status, ixdir, err


# ----------------------------------------------------------------------
# observations and comparison
# ----------------------------------------------------------------------

def full_dump(reader):
    """vf.dump plus: a column no live segment physically has reads as the column's default for every document (that is
    what column_reader() returns and what sorting uses), so 'no column file' and 'all defaults' compare equal."""
    from vf import dump
    d = dump.dump(reader, keyfield="key")
    docnums = list(reader.all_doc_ids())
    for fname, field in reader.schema.items():
        if field.column_type is not None and fname not in d["columns"]:
            cr = reader.column_reader(fname)
            d["columns"][fname] = dict((k, cr[dn]) for dn, k in zip(docnums, d["keys_in_doc_order"]))
    return norm_dump(d)


def norm_dump(d):
    d = dict(d)
    d.pop("keys_in_doc_order", None)
    if "terms" in d:
        # an empty posting value (formats without per-posting data) reads back as None from disk and as b"" from the
        # in-memory codec: no information either way
        d["terms"] = {t: [(k, wgt, v or None) for k, wgt, v in pl] for t, pl in d["terms"].items() if pl}
    return d


def gen_probes(rng, n):
    from vf import model
    from whoosh import query
    qs = [query.Every(), query.Term("t", "alfa"), query.Or([query.Term("t", "bravo"), query.Term("u", "alfa"),
                                                            query.Term("k", "red")])]
    while len(qs) < n:
        qs.append(model.gen_query(rng, depth=rng.choice([1, 2, 2, 3]), fuzzy=False, scoring=rng.random() < 0.3))
    return qs


def observe(ix, probes, with_stats):
    from vf import dump
    obs = {}
    r = ix.reader()
    try:
        obs["dump"] = full_dump(r)
        obs["nseg"] = len(r.leaf_readers())
        obs["empty_segments"] = sum(1 for lr, _ in r.leaf_readers() if lr.doc_count_all() == 0)
        obs["has_deletions"] = r.has_deletions()
        if with_stats:
            obs["stats"] = dump.stats(r)
    finally:
        r.close()
    res = []
    with ix.searcher() as s:
        for q in probes:
            rs = s.search(q, limit=None)
            full = {}
            for hit in rs:
                full[hit["key"]] = hit.score
            top = sorted((hit.score for hit in s.search(q, limit=3)), reverse=True)
            res.append((full, len(rs), top))
    obs["probes"] = res
    return obs


def close_enough(a, b):
    return a == b or abs(a - b) <= 1e-9 * max(abs(a), abs(b), 1e-30)


def skey(k):
    return (0, int(k)) if k.isdigit() else (1, k)


def compare_obs(ctx, label, cfgname, w, ref, got, probes, scores, phase):
    """ref/got: observations. Returns True when equal."""
    from vf import dump
    ctx.count("c18.dump.compares")
    ctx.count("c18.dump.compares.%s" % label)
    if ref["dump"] != got["dump"]:
        ds = dump.diff(ref["dump"], got["dump"])
        part = ds[0].split("/")[1] if ds and "/" in ds[0] else "?"
        ctx.fail("c18.dump", "%s:%s:%s" % (phase, cfgname, part), w, "reference vs configuration:\n" + "\n".join(ds))
        return False
    if "stats" in ref and "stats" in got:
        ctx.count("c18.stats.compares")
        if ref["stats"] != got["stats"]:
            ds = dump.diff(ref["stats"], got["stats"])
            ctx.fail("c18.stats", "%s:%s" % (phase, cfgname), w, "\n".join(ds))
            return False
    for q, (rfull, rlen, rtop), (gfull, glen, gtop) in zip(probes, ref["probes"], got["probes"]):
        ctx.count("c18.probe.compares")
        if set(rfull) != set(gfull) or rlen != glen:
            ctx.fail("c18.search", "%s:%s:ids" % (phase, cfgname), dict(w, query=repr(q)),
                     "reference %r (len %d) configuration %r (len %d)" % (sorted(rfull, key=skey), rlen,
                                                                         sorted(gfull, key=skey), glen))
            return False
        if scores:
            ctx.count("c18.score.compares", len(rfull))
            bad = [k for k in rfull if not close_enough(rfull[k], gfull[k])]
            if bad or len(rtop) != len(gtop) or any(not close_enough(a, b) for a, b in zip(rtop, gtop)):
                ctx.fail("c18.search", "%s:%s:scores" % (phase, cfgname), dict(w, query=repr(q)),
                         "reference %r top %r / configuration %r top %r" % (
                             sorted(rfull.items()), rtop, sorted(gfull.items()), gtop))
                return False
    return True


def check_reference_against_model(ctx, w, h, ref, probes):
    """The reference build itself must agree with the independent dict model."""
    from vf import model
    live = h["live"]
    ctx.count("c18.model.checks")
    exp_stored = {k: expected_stored(d) for k, d in live.items()}
    if ref["dump"]["stored"] != exp_stored:
        from vf import dump
        ctx.fail("c18.model", "reference:stored", w, "\n".join(dump.diff(exp_stored, ref["dump"]["stored"])))
        return False
    for q, (full, n, top) in zip(probes, ref["probes"]):
        try:
            exp = model.expected_keys(q, live)
        except model.Undecided:
            continue
        ctx.count("c18.model.probe_checks")
        if set(full) != exp:
            ctx.fail("c18.model", "reference:probe", dict(w, query=repr(q)),
                     "model %r reference %r" % (sorted(exp, key=skey), sorted(full, key=skey)))
            return False
    return True


def optimize_ix(ix):
    w = ix.writer()
    w.commit(optimize=True)


# ----------------------------------------------------------------------
# hierarchical documents written inside writer.group() / start_group()..end_group()  ('groups' cases)
# ----------------------------------------------------------------------

def gen_group_history(rng, tier):
    """Add-only history whose transactions are sequences of OUTERMOST groups (trees of documents with strict levels: the
    root is kind 'l0', the children of an 'l<k>' document are 'l<k+1>'), written in pre-order with 1..3 nested group
    contexts, with a few ungrouped documents (kind 'note', or a member-less 'l0') between them.  A long outer group holds
    many small inner groups (also groups of one document), so that an inner group closes at every buffer fill level.
    Extra keys: groups = [[key, ...] in insertion order] (an ungrouped document is a group of one), nodes = {key: (level,
    parent key)} (level None for a note), depth = number of nested group contexts."""
    o = gen_opts(rng)
    o["hier"] = True
    ntx = rng.choice([1, 1, 1, 2] if tier == "quick" else [1, 1, 2, 2, 3])
    depth = rng.choice([1, 2, 2, 3, 3])
    style = rng.choice(["ctx", "calls", "mixed"])
    per_tx = rng.randint(12, 70) if tier == "quick" else rng.randint(12, 120)
    live, nodes, groups, txs = {}, {}, [], []
    counter = [0]

    def new_doc(kind):
        key = counter[0]
        counter[0] += 1
        d = gen_doc(rng, key, o, stored_only_ok=False)
        d["kind"] = kind
        live[d["key"]] = d
        return d

    def tree(ops, members, level, parent):
        d = new_doc("l%d" % level)
        nodes[d["key"]] = (level, parent)
        members.append(d["key"])
        nch = 0
        if level < depth:
            nch = rng.randint(0 if rng.random() < 0.1 else 1, 8) if level == 0 else rng.choice([0, 1, 1, 2, 2, 3, 4])
        # level < depth: a document that may have members is written as a group of its own (possibly a group of one)
        wrap = level == 0 or nch > 0 or (level < depth and rng.random() < 0.5)
        if wrap:
            ops.append(("sg", style if style != "mixed" else rng.choice(["ctx", "calls"])))
        ops.append(("add", d))
        for _ in range(nch):
            tree(ops, members, level + 1, d["key"])
        if wrap:
            ops.append(("eg",))

    for _ in range(ntx):
        ops, n0 = [], counter[0]
        while counter[0] - n0 < per_tx:
            r = rng.random()
            if r < 0.12:
                d = new_doc("note")
                nodes[d["key"]] = (None, None)
                groups.append([d["key"]])
                ops.append(("add", d))
            elif r < 0.16:
                d = new_doc("l0")                  # a parent without members, written without a group
                nodes[d["key"]] = (0, None)
                groups.append([d["key"]])
                ops.append(("add", d))
            else:
                members = []
                tree(ops, members, 0, None)
                groups.append(members)
        txs.append({"ops": ops, "commit": rng.choice([{}, {}, {"merge": False}, {"merge": False}, {"optimize": True}])})
    return {"opts": o, "txs": txs, "live": live, "removed": 0, "groups": groups, "nodes": nodes, "depth": depth,
            "style": style}


def describe_group_history(h):
    """Compact witness: brackets and key:kind per transaction, plus the documents' field values."""
    txs = []
    for tx in h["txs"]:
        parts, closers = [], []
        for op in tx["ops"]:
            if op[0] == "sg":               # ( ) = with writer.group():   [ ] = start_group() .. end_group()
                parts.append("(" if op[1] == "ctx" else "[")
                closers.append(")" if op[1] == "ctx" else "]")
            elif op[0] == "eg":
                parts.append(closers.pop())
            else:
                parts.append("%s:%s" % (op[1]["key"], op[1]["kind"]))
        txs.append({"commit": tx["commit"], "ops": " ".join(parts)})
    return {"opts": h["opts"], "group_depth": h["depth"], "txs": txs,
            "docs": {k: {f: v for f, v in d.items() if f not in ("key", "kind", "id")} for k, d in h["live"].items()}}


def mp_buffer_events(h, batchsize):
    """What the multi-process writer's document buffer looks like when groups close, by the documented rule (a full buffer
    is handed to the sub-writers only when no group is open): (number of inner groups that close inside a still open group
    while the buffer holds >= batchsize documents, ... == batchsize exactly)."""
    full = exact = 0
    for tx in h["txs"]:
        buf = open_ = 0
        for op in tx["ops"]:
            if op[0] == "sg":
                open_ += 1
            elif op[0] == "eg":
                open_ -= 1
                if open_ > 0 and buf >= batchsize:
                    full += 1
                    exact += buf == batchsize
            else:
                buf += 1
                if not open_ and buf >= batchsize:
                    buf = 0
    return full, exact


def gen_nested_queries(rng, h, n):
    """[(mechanism label, description, query, expected sorted keys)]: NestedParent / NestedChildren queries whose answer is
    decided by the hierarchy alone (not by the relative order of different outermost groups or ungrouped documents)."""
    from vf import model
    from whoosh import query
    live, nodes = h["live"], h["nodes"]
    maxlevel = max([lv for lv, _ in nodes.values() if lv is not None] or [0])
    if maxlevel == 0:
        return []
    have_notes = any(lv is None for lv, _ in nodes.values())
    by_level = {}
    for key, (lv, _) in nodes.items():
        by_level.setdefault(lv, []).append(key)
    for keys in by_level.values():
        keys.sort(key=skey)
    descendants = {}
    for members in h["groups"]:
        for i, key in enumerate(members):
            lv = nodes[key][0]
            out = []
            for other in members[i + 1:]:
                if nodes[other][0] <= lv:
                    break
                out.append(other)
            descendants[key] = out

    def ancestor(key, level):
        while nodes[key][0] > level:
            key = nodes[key][1]
        return key

    def kinds(levels, notes=False):
        terms = [query.Term("kind", "l%d" % lv) for lv in levels]
        if notes:
            terms.append(query.Term("kind", "note"))
        return terms[0] if len(terms) == 1 else query.Or(terms)

    def base(levels):
        r = rng.random()
        if r < 0.2:
            return query.Every()
        if r < 0.45:
            return query.Term("k", rng.choice(model.KVOCAB[:4]))
        if r < 0.7:
            return query.Term("t", model.zipf_choice(rng, model.VOCAB))
        cands = [k for lv in levels for k in by_level.get(lv, [])]
        return query.Term("id", rng.choice(cands)) if cands else query.Every()

    out = []
    for _ in range(n):
        j = rng.randrange(maxlevel)
        deeper = list(range(j + 1, maxlevel + 1))
        upto = list(range(j + 1))
        if rng.random() < 0.5:
            # the parent query names the parent level only, or every document that is not below it
            exact = rng.random() < 0.5
            parents = kinds([j]) if exact else kinds(upto, notes=True)
            b = base(deeper)
            q = query.NestedParent(parents, query.And([b, kinds(deeper)]))
            exp = set(ancestor(k, j) for k, d in live.items()
                      if nodes[k][0] is not None and nodes[k][0] > j and model.matches(b, d))
            label = "NestedParent:%s" % ("exact" if exact else "upto")
        else:
            # every document that is not below level j is a "parent": the children of a matching level-j document are
            # exactly its descendants. (With the parent level alone the run would extend over whatever follows the last
            # member - the next outermost group or an ungrouped document - which depends on the front-end.)
            exact = j == 0 and not have_notes and rng.random() < 0.5
            parents = kinds([0]) if exact else kinds(upto, notes=True)
            b = base([j])
            wanted = query.And([b, kinds([j]) if rng.random() < 0.6 else parents])
            exp = set()
            for k in by_level.get(j, []):
                if model.matches(b, live[k]):
                    exp.update(descendants[k])
            q = query.NestedChildren(parents, wanted)
            label = "NestedChildren:%s" % ("exact" if exact else "upto")
            if rng.random() < 0.35:
                b2 = base(deeper)
                q = query.And([q, b2])
                exp = set(k for k in exp if model.matches(b2, live[k]))
                label += ":and"
        out.append((label, repr(q), q, sorted(exp, key=skey)))
    return out


def observe_groups(ix, nqs):
    obs = {}
    r = ix.reader()
    try:
        obs["layout"] = [[sf.get("key") for sf in lr.all_stored_fields()] for lr, _ in r.leaf_readers()]
        obs["docnum_order"] = [sf.get("key") for _, sf in r.iter_docs()]
    finally:
        r.close()
    with ix.searcher() as s:
        obs["nested"] = [sorted((hit["key"] for hit in s.search(q, limit=None)), key=skey) for _, _, q, _ in nqs]
    return obs


def adjacency_violation(h, obs):
    """None, or (mechanism, text): in document-number order the members of every outermost group must form one contiguous
    run, in insertion order, inside one segment. The order of different outermost groups is free."""
    layout = obs["layout"]
    flat = [k for seg in layout for k in seg]
    if flat != obs["docnum_order"]:
        return "iter_docs-vs-segments", "iter_docs() order %r / segments %r" % (obs["docnum_order"], layout)
    allkeys = sorted((k for g in h["groups"] for k in g), key=skey)
    if sorted(flat, key=lambda k: skey(k or "?")) != allkeys:
        return "documents", "documents in the index %r / model %r" % (flat, allkeys)
    group_of = dict((g[0], g) for g in h["groups"])
    for si, seg in enumerate(layout):
        i = 0
        while i < len(seg):
            g = group_of.get(seg[i])
            if g is None:
                root = next(gg[0] for gg in h["groups"] if seg[i] in gg)
                return "split", ("document %s of the group of %s (members %r) is at position %d of segment %d, not after the "
                                 "group's first document; segment: %r" % (seg[i], root, group_of[root], i, si, seg))
            run = seg[i:i + len(g)]
            if run != g:
                kind = "order" if sorted(run) == sorted(g) else "split"
                return kind, "group %r is stored as %r ... at position %d of segment %d: %r" % (g, run, i, si, seg)
            i += len(g)
    return None


def check_groups(ctx, w, ix, h, nqs, cfgname, phase):
    """Monitors (a) adjacency and (b) nested queries against the hierarchy, for one configuration's final index."""
    ok, obs = ctx.guard("c18.groups.observe", w, observe_groups, ix, nqs)
    if not ok:
        f = ctx.failures[-1] if ctx.failures else None
        if f is not None and f["monitor"] == "c18.groups.observe" and not f["mech"].startswith("exc:%s" % cfgname):
            f["mech"] = f["mech"].replace("exc:", "exc:%s:" % cfgname, 1)
        return False
    ctx.count("c18.groups.adjacency_checks")
    ctx.count("c18.groups.outer_groups_checked", sum(1 for g in h["groups"] if len(g) > 1))
    bad = adjacency_violation(h, obs)
    if bad is not None:
        ctx.fail("c18.groups.adjacency", "%s:%s:%s" % (phase, cfgname, bad[0]), dict(w, segments=obs["layout"]), bad[1])
        return False
    if len(obs["layout"]) > 1:
        ctx.count("c18.groups.adjacency_checks.multisegment")
    for (label, desc, _, exp), got in zip(nqs, obs["nested"]):
        ctx.count("c18.groups.nested_compares")
        if exp:
            ctx.count("c18.groups.nested_compares.nonempty")
        if got != exp:
            ctx.fail("c18.groups.nested", "%s:%s:%s" % (phase, cfgname, label), dict(w, query=desc, segments=obs["layout"]),
                     "hierarchy says %r / index returns %r" % (exp, got))
            return False
    return True


def gen_group_cfg(rng, kind, ntx, ndocs):
    """Front-ends of the groups cases (see ASSUMPTIONS): the multi-process writer with small batch sizes, the plain writer,
    the serial multi-writer, a BufferedWriter with a small limit, an AsyncWriter in front of a plain writer."""
    cfg = gen_cfg(rng, kind, ntx)
    fe = cfg["fe"]
    if kind == "mp":
        fe["batchsize"] = rng.choice([1, 2, 3, 4, 5, 6, 7, 2, 3, 4, 5, 7, 100])
    elif kind == "buffered":
        # start_group() documents that the backend keeps a group in one segment: a flush by `limit` must wait for the end
        # of the outermost group
        fe["limit"] = rng.choice([1, 2, 3, 5, 8, ndocs + 1, ndocs + 100])
        fe["period"] = rng.choice([None, None, 600])
    return cfg


# ----------------------------------------------------------------------
# configurations
# ----------------------------------------------------------------------

REF_CFG = {"storage": "file", "compound": True, "fe": {"kind": "seg"}}


def gen_fe(rng, kind):
    limitmb = random.Random("c18-limitmb:%r" % rng.random()).choice([None, None, 0.00001, 0.0002, 0.002])
    if kind == "seg":
        return {"kind": "seg", "limitmb": limitmb}
    if kind == "serialmp":
        return {"kind": "serialmp", "procs": rng.choice([1, 2, 3, 4]), "limitmb": limitmb}
    if kind == "mp":
        return {"kind": "mp", "procs": rng.choice([2, 3, 4]), "batchsize": rng.choice([1, 3, 100]),
                "multisegment": rng.random() < 0.5, "limitmb": limitmb}
    if kind == "buffered":
        return {"kind": "buffered", "limit": rng.choice([1, 3, 100]), "period": rng.choice([None, None, 0.05, 600]),
                "commitargs": rng.choice([{}, {}, {"merge": False}, {"optimize": True}])}
    if kind == "async":
        plans = []
        for _ in range(3):
            plans.append({"mode": rng.choice(["blocked", "blocked", "blocked", "free"]),
                          "release": rng.choice(["before_commit", "after_commit", "after_commit"]),
                          "sleep": rng.choice([0, 0, 0.002, 0.012, 0.03]),
                          "delay": rng.choice([0.001, 0.005, 0.02]),
                          "pair": rng.random() < 0.6})
        return {"kind": "async", "plans": plans}
    raise AssertionError(kind)


def gen_cfg(rng, kind, ntx):
    storage = "file" if kind == "mp" else rng.choice(["file", "nommap", "ram", "toram"])
    if kind == "mp":
        storage = rng.choice(["file", "file", "nommap", "toram"])
    cfg = {"storage": storage, "compound": rng.random() < 0.5, "fe": gen_fe(rng, kind)}
    if storage == "toram":
        cfg["toram_at"] = ntx if kind == "mp" else rng.randint(1, ntx)
    return cfg


def cfg_name(cfg):
    fe = cfg["fe"]
    return "%s/%s/%s" % (fe["kind"], cfg["storage"], "compound" if cfg["compound"] else "loose")


def cfg_shape(cfg):
    fe = dict(cfg["fe"])
    if fe["kind"] == "async":
        fe = ("async", tuple((p["mode"], p["release"], p["pair"]) for p in fe["plans"]))
    else:
        fe = tuple(sorted((k, repr(v)) for k, v in fe.items()))
    return (fe, cfg["storage"], cfg["compound"], cfg.get("toram_at"))


# ----------------------------------------------------------------------
# case kind: product / mp
# ----------------------------------------------------------------------

def scan_child_tracebacks(ctx, err):
    import re
    for m in re.finditer(r"^(\w+(?:\.\w+)*(?:Error|Exception))\b", err, re.M):
        ctx.count("c18.mp.child_traceback.%s" % m.group(1))


def run_config(ctx, rng, h, cfg, probes, with_stats, idx, info):
    """Execute history under cfg; returns (ix, cleanup) or None when it failed (failure recorded)."""
    tmpdir = tempfile.mkdtemp(prefix="vf-c18-")
    w = {"config": cfg, "history": describe_history(h), "case_idx": idx}
    try:
        if cfg["fe"]["kind"] == "mp":
            ctx.count("c18.mp.runs")
            status, ixdir, err = run_mp_subprocess(tmpdir, h, cfg, "c18:%d:%d" % (ctx.seed, idx))
            scan_child_tracebacks(ctx, err)
            if status == "hang":
                ctx.count("c18.mp.hang")
                ctx.note("MpWriter subprocess exceeded %ds (inconclusive for that run): %r" % (MP_TIMEOUT_S, cfg))
                shutil.rmtree(tmpdir, ignore_errors=True)
                return None
            if status == "error":
                last = [ln for ln in err.strip().splitlines() if ln.strip()][-1:] or ["?"]
                if "C18-WORKER-WHOOSH-EXC" in err:
                    mech = [ln for ln in err.splitlines() if ln.startswith("C18-WORKER-WHOOSH-EXC")][0].split(" ", 1)[1]
                    ctx.fail("c18.exec", "exc:%s:%s" % (cfg_name(cfg), mech), w, err[-2500:])
                    shutil.rmtree(tmpdir, ignore_errors=True)
                    return None
                raise RuntimeError("c18_mp worker failed outside whoosh: %s\n%s" % (last[0], err[-2000:]))
            ctx.count("c18.mp.completed")
            from whoosh.filedb.filestore import FileStorage, copy_to_ram
            st = FileStorage(ixdir, supports_mmap=(cfg["storage"] != "nommap"))
            if cfg["storage"] == "toram":
                ok, st = ctx.guard("c18.exec", w, copy_to_ram, st)
                if not ok:
                    shutil.rmtree(tmpdir, ignore_errors=True)
                    return None
        else:
            st0 = make_storage(cfg, tmpdir)
            try:
                ok, st = ctx.guard("c18.exec", w, run_history_inproc, st0, h, cfg, rng, info)
            except Hang as e:
                ctx.fail("c18.exec", "hang:%s:%s" % (cfg_name(cfg), e), w, "thread did not finish within 60 s after the lock was released")
                ok = False
            if not ok:
                # make the mechanism key say which configuration raised
                f = ctx.failures[-1] if ctx.failures else None
                if f is not None and f["monitor"] == "c18.exec" and not f["mech"].startswith(("exc:%s" % cfg["fe"]["kind"], "hang:")):
                    f["mech"] = f["mech"].replace("exc:", "exc:%s:" % cfg_name(cfg), 1)
                shutil.rmtree(tmpdir, ignore_errors=True)
                return None
        ok, ix = ctx.guard("c18.open", w, reopen, st, cfg)
        if not ok:
            shutil.rmtree(tmpdir, ignore_errors=True)
            return None
        return ix, tmpdir, w
    except BaseException:
        shutil.rmtree(tmpdir, ignore_errors=True)
        raise


def case_product(ctx, idx, rng, mp, groups=False):
    if groups:
        h = gen_group_history(rng, ctx.tier)
    elif mp:
        # statistics and scores are comparable only when nothing was removed: make that common for the multi-process writer,
        # whose sub-writers (possibly without any document) produce the most unusual segment layouts
        h = gen_history(rng, ctx.tier, addonly=rng.random() < 0.5, dense=rng.random() < 0.7)
    else:
        h = gen_history(rng, ctx.tier)
    probes = gen_probes(rng, 8)
    ntx = len(h["txs"])
    no_removal = h["removed"] == 0
    do_opt = rng.random() < 0.35
    nqs = []
    if groups:
        # the first in-process front-end rotates with the case's position (every shard meets all three early), more are random
        inproc = ["seg", "buffered", "async", "serialmp"]
        kinds = ["mp"] * rng.choice([1, 1, 2]) + [inproc[(idx // ctx.nshards // GROUPS_EVERY + idx % ctx.nshards) % 4]]
        kinds += [rng.choice(inproc) for _ in range(ctx.pick(0, 1))]
        cfgs = [gen_group_cfg(rng, k, ntx, len(h["live"])) for k in kinds]
    else:
        if mp:
            kinds = ["mp"] * ctx.pick(rng.choice([1, 2]), 2)
        else:
            pool = ["seg", "seg", "serialmp", "buffered", "buffered", "async", "async"]
            kinds = [rng.choice(pool) for _ in range(ctx.pick(5, 8))]
        cfgs = [gen_cfg(rng, k, ntx) for k in kinds]
    info = {}
    built = run_config(ctx, rng, h, REF_CFG, probes, no_removal, idx, info)
    if built is None:
        ctx.case(("ref-failed",), False)
        return
    rix, rdir, rw = built
    opened = [(rix, rdir)]
    try:
        ok, ref = ctx.guard("c18.observe", rw, observe, rix, probes, no_removal)
        if not ok:
            ctx.case(("ref-failed",), False)
            return
        if not check_reference_against_model(ctx, rw, h, ref, probes):
            ctx.case(("ref-vs-model",), False)
            return
        if groups:
            nqs = gen_nested_queries(rng, h, 8)
            if not check_groups(ctx, rw, rix, h, nqs, "reference", "final"):
                ctx.case(("ref-vs-hierarchy",), False)
                return
        ref_opt = None
        if do_opt:
            ok, _ = ctx.guard("c18.optimize", rw, optimize_ix, rix)
            if ok:
                ok, ref_opt = ctx.guard("c18.observe", rw, observe, reopen(rix.storage, REF_CFG), probes, True)
            if ok and groups:
                ok = check_groups(ctx, rw, reopen(rix.storage, REF_CFG), h, nqs, "reference", "optimized")
            if not ok:
                ref_opt = None
        ndocs = sum(1 for tx in h["txs"] for op in tx["ops"] if op[0] in ("add", "update"))
        for cfg in cfgs:
            info = {}
            name = cfg_name(cfg)
            ctx.count("c18.configs")
            ctx.count("c18.fe.%s" % cfg["fe"]["kind"])
            ctx.count("c18.storage.%s" % cfg["storage"])
            ctx.count("c18.packing.%s" % ("compound" if cfg["compound"] else "loose"))
            built = run_config(ctx, rng, h, cfg, probes, no_removal, idx, info)
            if built is None:
                ctx.case((cfg_shape(cfg), "failed"), False)
                continue
            ix, d, w = built
            opened.append((ix, d))
            ok, got = ctx.guard("c18.observe", w, observe, ix, probes, no_removal)
            if not ok:
                f = ctx.failures[-1]
                if not f["mech"].startswith("exc:%s" % name):
                    f["mech"] = f["mech"].replace("exc:", "exc:%s:" % name, 1)
                ctx.case((cfg_shape(cfg), "failed"), False)
                continue
            for rec in info.get("async", []):
                ctx.count("c18.async.order.%s.retries%s.release_%s" % (rec[0], min(rec[1], 3), rec[2]))
                if rec[0] == "blocked":
                    ctx.count("c18.async.blocked_txs")
            same = compare_obs(ctx, cfg["fe"]["kind"], name, w, ref, got, probes, no_removal, "final")
            if groups and same:
                ctx.count("c18.groups.configs")
                ctx.count("c18.groups.fe.%s" % cfg["fe"]["kind"])
                if cfg["fe"]["kind"] == "mp":
                    full, exact = mp_buffer_events(h, cfg["fe"]["batchsize"])
                    ctx.count("c18.groups.mp.%s" % ("multisegment" if cfg["fe"]["multisegment"] else "merged"))
                    if full:
                        ctx.count("c18.groups.mp.runs_inner_group_closes_on_full_buffer")
                        ctx.count("c18.groups.mp.inner_group_closes_on_full_buffer", full)
                    if exact:
                        ctx.count("c18.groups.mp.runs_inner_group_closes_on_exactly_full_buffer")
                same = check_groups(ctx, w, ix, h, nqs, name, "final")
            if same and no_removal:
                ctx.count("c18.compares.with_scores")
            if same and got["nseg"] > 1:
                ctx.count("c18.final.multisegment")
            if same and cfg["fe"].get("limitmb"):
                ctx.count("c18.final.spilling_pool")
                ctx.count("c18.final.spilling_pool." + cfg["fe"]["kind"])
            if got["empty_segments"]:
                ctx.count("c18.final.with_zero_document_segments")
                if no_removal:
                    ctx.count("c18.stats.compares.with_zero_document_segments")
            if same and ref_opt is not None:
                ok, _ = ctx.guard("c18.optimize", w, optimize_ix, ix)
                if ok:
                    ok, got_opt = ctx.guard("c18.observe", w, observe, reopen(ix.storage, cfg), probes, True)
                if ok:
                    ctx.count("c18.optimize.compares")
                    if compare_obs(ctx, "optimized", name, w, ref_opt, got_opt, probes, True, "optimized") and groups:
                        check_groups(ctx, w, reopen(ix.storage, cfg), h, nqs, name, "optimized")
            nontrivial = ndocs >= 2
            gshape = ("groups", h["depth"], h["style"], len(h["groups"])) if groups else ()
            ctx.case((cfg_shape(cfg), tx_sig(h), h["removed"] > 0, got["nseg"]) + gshape, nontrivial,
                     sample={"config": cfg, "transactions": [len(tx["ops"]) for tx in h["txs"]], "docs": ndocs,
                             "live": len(h["live"]), "segments": got["nseg"], "removed": h["removed"]}
                     if ctx.evaluations % 40 == 0 else None)
    finally:
        for ix, d in opened:
            try:
                ix.close()
            except Exception:  # noqa
                pass
            shutil.rmtree(d, ignore_errors=True)


# ----------------------------------------------------------------------
# case kind: bw (BufferedWriter against the dict model)
# ----------------------------------------------------------------------

def model_dump(opts, live):
    """Dump of a single-commit index of the model's live documents (insertion order of the dict). Built in a private
    directory: RamStorage writers of one process all share <tempdir>/MAIN.tmp, and this build must not disturb the
    BufferedWriter under observation."""
    from vf import dump
    from whoosh.filedb.filestore import FileStorage
    d = tempfile.mkdtemp(prefix="vf-c18-ref-")
    try:
        ix = FileStorage(d).create_index(make_schema(opts))
        w = ix.writer()
        for doc in live.values():
            w.add_document(**doc)
        w.commit()
        with ix.reader() as r:
            out = full_dump(r)
        ix.close()
        return out
    finally:
        shutil.rmtree(d, ignore_errors=True)


def bw_view_check(ctx, w, bw, live, rng, step, full):
    """The BufferedWriter's own reader/searcher must show exactly the model's documents."""
    from vf import dump, model
    ctx.count("c18.bw.view_checks")
    with bw.searcher() as s:
        got = sorted((sf.get("key") for sf in s.all_stored_fields()), key=lambda k: skey(k or "?"))
        exp = sorted(live, key=skey)
        if got != exp or s.doc_count() != len(live):
            ctx.fail("c18.bw.view", "keys:%s" % step[0], dict(w, step=step),
                     "searcher keys %r doc_count %d / model %r" % (got, s.doc_count(), exp))
            return False
        q = model.gen_query(rng, depth=rng.choice([1, 2]), fuzzy=False)
        try:
            expk = model.expected_keys(q, live)
        except model.Undecided:
            expk = None
        if expk is not None:
            ctx.count("c18.bw.probe_checks")
            gotk = set(hit["key"] for hit in s.search(q, limit=None))
            if gotk != expk:
                ctx.fail("c18.bw.view", "probe:%s" % step[0], dict(w, step=step, query=repr(q)),
                         "searcher %r / model %r" % (sorted(gotk, key=skey), sorted(expk, key=skey)))
                return False
        # every step: the whole term range of each field, through the term-enumeration path (terms_from) of the buffer's
        # in-memory codec and of the flushed segments alike
        from whoosh import query as _q
        for qq in (_q.Prefix("t", ""), _q.TermRange("u", None, None), _q.Prefix("k", ""), _q.NumericRange("n", None, None),
                   _q.TermRange("t", "a", "zzzz")):
            try:
                expk = model.expected_keys(qq, live)
            except model.Undecided:
                continue
            ctx.count("c18.bw.whole_field_probes")
            gotk = set(hit["key"] for hit in s.search(qq, limit=None))
            if gotk != expk:
                ctx.fail("c18.bw.view", "whole-field-probe:%s:%s" % (type(qq).__name__, step[0]), dict(w, step=step, query=repr(qq)),
                         "searcher %r / model %r" % (sorted(gotk, key=skey), sorted(expk, key=skey)))
                return False
    if full:
        ctx.count("c18.bw.dump_checks")
        rd = model_dump(w["opts"], live)
        r = bw.reader()
        try:
            gd = full_dump(r)
        finally:
            r.close()
        if rd != gd:
            ds = dump.diff(rd, gd)
            part = ds[0].split("/")[1] if ds and "/" in ds[0] else "?"
            ctx.fail("c18.bw.view", "dump:%s" % part, dict(w, step=step), "model build vs BufferedWriter.reader():\n" + "\n".join(ds))
            return False
    return True


def bw_after_close(ctx, w, st, cfg, live, opts, what):
    """close() left nothing unsaved: a freshly opened index shows the model's documents; the lock is free."""
    from vf import dump
    from whoosh.index import LockError
    ctx.count("c18.bw.close_checks")
    ix = reopen(st, cfg)
    try:
        rd = model_dump(opts, live)
        with ix.reader() as r:
            gd = full_dump(r)
        if rd != gd:
            ds = dump.diff(rd, gd)
            part = ds[0].split("/")[1] if ds and "/" in ds[0] else "?"
            ctx.fail("c18.bw.close", "%s:unsaved-or-different:%s" % (what, part), w,
                     "model vs index reopened after close():\n" + "\n".join(ds))
            return False
        try:
            wr = ix.writer()
        except LockError:
            ctx.fail("c18.bw.close", "%s:lock-still-held" % what, w, "ix.writer() raised LockError after BufferedWriter.close()")
            return False
        wr.cancel()
    finally:
        ix.close()
    return True


def gen_bw_program(rng, opts, nsteps):
    """Unconstrained program: updates/deletes may hit buffered documents."""
    from vf import model
    live, prog, nextkey = {}, [], 0
    for _ in range(nsteps):
        r = rng.random()
        idkeys = [k for k, d in live.items() if "id" in d]
        if r < 0.45 or not live:
            d = gen_doc(rng, nextkey, opts)
            nextkey += 1
            prog.append(("add", d))
            live[d["key"]] = d
        elif r < 0.62 and idkeys:
            key = rng.choice(idkeys)
            d = gen_doc(rng, key, opts, stored_only_ok=False)
            prog.append(("update", d))
            live[key] = d
        elif r < 0.67:
            d = gen_doc(rng, nextkey, opts, stored_only_ok=False)
            nextkey += 1
            prog.append(("update", d))
            live[d["key"]] = d
        elif r < 0.80 and idkeys:
            key = rng.choice(idkeys)
            prog.append(("delete", key))
            del live[key]
        elif r < 0.84:
            prog.append(("delete", "9999"))
        elif r < 0.90:
            wd = rng.choice(model.KVOCAB)
            prog.append(("delq", wd))
            for key in [k for k, d in live.items() if wd in ktoks(d)]:
                del live[key]
        else:
            prog.append(("commit",))
    return prog


def case_bw_sequential(ctx, idx, rng):
    from whoosh import writing
    opts = gen_opts(rng)
    cfg = {"storage": rng.choice(["file", "nommap", "ram"]), "compound": rng.random() < 0.6,
           "fe": {"kind": "buffered", "limit": rng.choice([1, 2, 3, 3, 5, 100]), "period": rng.choice([None, None, 600]),
                  "commitargs": rng.choice([{}, {}, {"merge": False}, {"optimize": True}])}}
    prog = gen_bw_program(rng, opts, rng.randint(6, ctx.pick(22, 40)))
    w = {"variant": "sequential", "config": cfg, "opts": opts, "program": [list(p) for p in prog], "case_idx": idx}
    tmpdir = tempfile.mkdtemp(prefix="vf-c18-")
    fe = cfg["fe"]
    wa = {} if cfg["compound"] else {"compound": False}
    live = {}
    hit_buffered = 0
    try:
        st = make_storage(cfg, tmpdir)
        ix = st.create_index(make_schema(opts))
        bw = writing.BufferedWriter(ix, period=fe["period"], limit=fe["limit"], writerargs=wa, commitargs=dict(fe["commitargs"]))
        closed = False
        try:
            held = [None]

            def steps():
                nonlocal hit_buffered
                import random as _random
                for n, step in enumerate(prog):
                    if step[0] == "commit":
                        bw.commit()
                    else:
                        if step[0] in ("update", "delete") and bw.bufferedcount:
                            hit_buffered += 1
                        apply_ops(bw, [step])
                        model_apply(live, {"ops": [step]})
                    ctx.count("c18.bw.steps")
                    # a searcher taken from the BufferedWriter while documents were buffered and refresh()ed once they have all
                    # been flushed (explicit commit or limit reached: the buffer is empty) must show the committed state,
                    # every document once (private random stream: the program stays what it was)
                    if held[0] is not None and bw.bufferedcount == 0:
                        hs = held[0]
                        held[0] = None
                        # its generation is older than the flush: it must not pass for up to date
                        ctx.count("c18.bw.held_searcher_up_to_date_checks")
                        if hs.up_to_date():
                            ctx.fail("c18.bw.view", "held-searcher-up-to-date-after-flush:%s" % step[0], dict(w, step=(step[0], n)),
                                     "up_to_date() is True for a searcher taken before the flush (latest generation %r)"
                                     % (bw.index.latest_generation(),))
                            return False
                        rs = hs.refresh()
                        try:
                            ctx.count("c18.bw.held_searcher_refreshed_after_flush")
                            got = sorted((sf.get("key") for sf in rs.all_stored_fields()), key=lambda k: skey(k or "?"))
                            exp = sorted(live, key=skey)
                            if got != exp or rs.doc_count() != len(live):
                                ctx.fail("c18.bw.view", "held-searcher-refreshed-after-flush:%s" % step[0], dict(w, step=(step[0], n)),
                                         "refreshed searcher keys %r doc_count %d / model %r" % (got, rs.doc_count(), exp))
                                return False
                        finally:
                            rs.close()    # (refresh() retired the old searcher itself; shared segment readers are closed once)
                    elif held[0] is None and bw.bufferedcount and _random.Random("c18-held:%d:%d" % (idx, n)).random() < 0.5:
                        held[0] = bw.searcher()
                        ctx.count("c18.bw.held_searchers_taken_with_buffered_docs")
                    full = (n == len(prog) - 1) or rng.random() < 0.15
                    if not bw_view_check(ctx, w, bw, live, rng, (step[0], n), full):
                        return False
                return True
            ok, fine = ctx.guard("c18.bw.exec", w, steps)
            if ok and fine:
                ok, _ = ctx.guard("c18.bw.exec", w, bw.close)
                closed = True
                if ok:
                    bw_after_close(ctx, w, st, cfg, live, opts, "sequential")
        finally:
            if held[0] is not None:
                try:
                    held[0].close()
                except Exception:  # noqa
                    pass
            if not closed:
                safe_close(bw)
        if hit_buffered:
            ctx.count("c18.bw.ops_with_buffered_docs", hit_buffered)
        ctx.case(("bw-seq", fe["limit"], cfg["storage"], cfg["compound"], tuple(p[0] for p in prog)), len(prog) >= 4,
                 sample={"variant": "bw sequential", "limit": fe["limit"], "storage": cfg["storage"],
                         "program": [p[0] for p in prog], "live": len(live)} if idx % 7 == 0 else None)
    finally:
        shutil.rmtree(tmpdir, ignore_errors=True)


_seen_orders = set()


def case_bw_threads(ctx, idx, rng):
    """Adder threads share one BufferedWriter while another thread fires commit() the way the flush timer does."""
    from whoosh import writing
    opts = gen_opts(rng)
    cfg = {"storage": rng.choice(["file", "ram"]), "compound": True,
           "fe": {"kind": "buffered", "limit": rng.choice([2, 5, 100, 100]), "period": None, "commitargs": {}}}
    nthreads = rng.choice([1, 2, 3])
    per = rng.randint(3, 8)
    # every thread works on its own keys (adds, then also updates/deletes of its own earlier documents, buffered or
    # flushed by then), so the final model does not depend on the interleaving
    progs, live = [], {}
    for t in range(nthreads):
        prog, mine = [], []
        for i in range(per):
            r = rng.random()
            if mine and r < 0.2:
                key = mine.pop(rng.randrange(len(mine)))
                prog.append(("delete", key))
            elif mine and r < 0.4:
                key = rng.choice(mine)
                prog.append(("update", gen_doc(rng, int(key), opts, stored_only_ok=False)))
            else:
                d = gen_doc(rng, t * 100 + i, opts)
                prog.append(("add", d))
                if "id" in d:
                    mine.append(d["key"])
        progs.append(prog)
        model_apply(live, {"ops": prog})
    sleeps = [[rng.choice([0, 0, 0.0005, 0.002]) for _ in range(per)] for _ in range(nthreads)]
    ncommits = rng.randint(1, 4)
    csleeps = [rng.choice([0, 0.0005, 0.002, 0.005]) for _ in range(ncommits)]
    w = {"variant": "threads", "config": cfg, "opts": opts, "threads": nthreads,
         "programs": [[(op[0], op[1] if op[0] == "delete" else op[1]["key"]) for op in prog] for prog in progs],
         "timer_like_commits": ncommits, "case_idx": idx}
    tmpdir = tempfile.mkdtemp(prefix="vf-c18-")
    events, errors = [], []
    old_si = sys.getswitchinterval()
    try:
        st = make_storage(cfg, tmpdir)
        ix = st.create_index(make_schema(opts))
        bw = writing.BufferedWriter(ix, period=None, limit=cfg["fe"]["limit"])

        def adder(t):
            try:
                for op, sl in zip(progs[t], sleeps[t]):
                    if sl:
                        time.sleep(sl)
                    tag = op[0][0]
                    events.append(tag + "+")
                    apply_ops(bw, [op])
                    events.append(tag + "-")
            except BaseException as e:  # noqa
                errors.append(e)

        def committer():
            try:
                for sl in csleeps:
                    if sl:
                        time.sleep(sl)
                    events.append("c+")
                    bw.commit()
                    events.append("c-")
            except BaseException as e:  # noqa
                errors.append(e)

        ths = [threading.Thread(target=adder, args=(t,)) for t in range(nthreads)] + [threading.Thread(target=committer)]
        sys.setswitchinterval(1e-5)
        for th in ths:
            th.start()
        hung = False
        for th in ths:
            th.join(60)
            hung = hung or th.is_alive()
        sys.setswitchinterval(old_si)
        ctx.count("c18.bw.thread_runs")
        ctx.count("c18.bw.thread_deletes_updates", sum(1 for prog in progs for op in prog if op[0] != "add"))
        order = "".join(e[0] if e[1] == "+" else e[0].upper() for e in events)
        overlapped = False
        depth = 0
        for e in events:
            if e == "c+":
                depth += 1
            elif e == "c-":
                depth -= 1
            elif depth > 0:
                overlapped = True
        if overlapped:
            ctx.count("c18.bw.commit_overlapped_add")
        if hung:
            ctx.fail("c18.bw.threads", "hang", dict(w, order=order), "a thread sharing the BufferedWriter did not finish in 60 s")
        elif errors:
            e = errors[0]
            from vf import core
            import traceback
            site, in_harness = core.whoosh_site(e)
            if in_harness:
                raise e
            ctx.fail("c18.bw.threads", "exc:%s@%s" % (type(e).__name__, site), dict(w, order=order),
                     "".join(traceback.format_exception(type(e), e, e.__traceback__))[-2500:])
        else:
            ww = dict(w, order=order)
            ok, fine = ctx.guard("c18.bw.exec", ww, bw_view_check, ctx, ww, bw, live, rng, ("after-threads", 0), True)
            if ok and fine:
                ok, _ = ctx.guard("c18.bw.exec", ww, bw.close)
                if ok:
                    bw_after_close(ctx, ww, st, cfg, live, opts, "threads")
        if order not in _seen_orders:
            _seen_orders.add(order)
            ctx.count("c18.bw.distinct_thread_event_orders")
        ctx.case(("bw-threads", order), True,
                 sample={"variant": "bw threads", "event_order": order, "overlapped": overlapped} if idx % 9 == 0 else None)
    finally:
        sys.setswitchinterval(old_si)
        shutil.rmtree(tmpdir, ignore_errors=True)


def case_bw_timer(ctx, idx, rng):
    """A real flush timer: documents become durable without close(); documents added around the flush survive."""
    from whoosh import writing
    opts = gen_opts(rng)
    period = rng.choice([0.15, 0.25])
    cfg = {"storage": "file", "compound": True, "fe": {"kind": "buffered", "limit": 100, "period": period, "commitargs": {}}}
    w = {"variant": "timer", "config": cfg, "opts": opts, "case_idx": idx}
    tmpdir = tempfile.mkdtemp(prefix="vf-c18-")
    try:
        st = make_storage(cfg, tmpdir)
        ix = st.create_index(make_schema(opts))
        bw = writing.BufferedWriter(ix, period=period, limit=100)
        live = {}
        closed = False
        try:
            first = [gen_doc(rng, i, opts) for i in range(rng.randint(1, 4))]
            for d in first:
                bw.add_document(**d)
                live[d["key"]] = d
            # keep adding around the moment the timer fires
            t_end = time.time() + period * rng.choice([1.1, 1.5, 2.3])
            n = 100
            while time.time() < t_end:
                d = gen_doc(rng, n, opts)
                n += 1
                bw.add_document(**d)
                live[d["key"]] = d
                time.sleep(rng.choice([0.001, 0.004, 0.01]))
            # wait (bounded) until a timer flush is visible to a fresh reader
            seen = False
            t_wait = time.time() + 20
            while time.time() < t_wait and not seen:
                fx = reopen(st, cfg)
                try:
                    seen = fx.doc_count() >= len(first)
                finally:
                    fx.close()
                if not seen:
                    time.sleep(0.02)
            if seen:
                ctx.count("c18.bw.timer_flush_observed")
            else:
                ctx.fail("c18.bw.timer", "no-flush", w, "no timer flush became visible within 20 s (period %.2f s)" % period)
            ok, fine = ctx.guard("c18.bw.exec", w, bw_view_check, ctx, w, bw, live, rng, ("after-timer", 0), False)
            if ok and fine:
                ok, _ = ctx.guard("c18.bw.exec", w, bw.close)
                closed = True
                if ok:
                    bw_after_close(ctx, w, st, cfg, live, opts, "timer")
                    time.sleep(0.01)
                    if bw.timer.is_alive() and not bw.timer.finished.is_set():
                        ctx.fail("c18.bw.timer", "timer-alive-after-close", w, "flush timer still armed after close()")
        finally:
            if not closed:
                safe_close(bw)
        ctx.count("c18.bw.timer_runs")
        ctx.case(("bw-timer", period, len(live)), True)
    finally:
        shutil.rmtree(tmpdir, ignore_errors=True)


# ----------------------------------------------------------------------
# case kind: async (several AsyncWriters queued behind one lock holder)
# ----------------------------------------------------------------------

class TaggedProxy(IxProxy):
    def __init__(self, ix, tag, log):
        IxProxy.__init__(self, ix)
        self._tag = tag
        self._log = log

    def writer(self, **kw):
        from whoosh.index import LockError
        try:
            w = self._ix.writer(**kw)
        except LockError:
            self._log.append((self._tag, "locked"))
            raise
        self._log.append((self._tag, "ok"))
        return w


_seen_lock_orders = set()


def case_async_multi(ctx, idx, rng):
    """K AsyncWriters are created while another writer holds the lock; each buffers a transaction over its own keys
    (deletes/updates of committed documents, adds); commit() starts K retry threads that race for the lock once the
    holder lets go. Whatever order they win in, the final index must hold exactly the model's documents."""
    from whoosh import writing
    opts = gen_opts(rng)
    cfg = {"storage": rng.choice(["file", "nommap", "ram"]), "compound": rng.random() < 0.5, "fe": {"kind": "async"}}
    wa = {} if cfg["compound"] else {"compound": False}
    K = rng.choice([2, 2, 3, 4])
    base = [gen_doc(rng, i, opts, stored_only_ok=False) for i in range(rng.randint(0, 8))]
    live = dict((d["key"], d) for d in base)
    shares = [[] for _ in range(K)]
    for d in base:
        shares[rng.randrange(K)].append(d["key"])
    txs = []
    for k in range(K):
        ops = []
        mine = list(shares[k])
        rng.shuffle(mine)
        ndel = rng.randint(0, len(mine))
        for key in mine[:ndel]:
            ops.append(("delete", key))
        for key in mine[ndel:]:
            if rng.random() < 0.5:
                ops.append(("update", gen_doc(rng, int(key), opts, stored_only_ok=False)))
        for i in range(rng.randint(1, 5)):
            ops.append(("add", gen_doc(rng, 100 * (k + 1) + i, opts)))
        txs.append({"ops": ops, "commit": rng.choice([{}, {"merge": False}, {"optimize": True}])})
    holder_tx = {"ops": [("add", gen_doc(rng, 900 + i, opts)) for i in range(rng.randint(0, 3))],
                 "commit": rng.choice([{}, {"merge": False}])}
    for tx in txs + [holder_tx]:
        model_apply(live, tx)
    release_after = rng.randint(0, K)             # the holder lets go after this many commit() calls
    sleeps = [rng.choice([0, 0, 0.001, 0.004, 0.015]) for _ in range(K + 1)]
    delays = [rng.choice([0.001, 0.003, 0.01]) for _ in range(K)]
    w = {"variant": "async-multi", "config": cfg, "opts": opts, "writers": K, "release_after_commit_calls": release_after,
         "transactions": [[(op[0], op[1] if op[0] == "delete" else op[1]["key"]) for op in tx["ops"]] for tx in txs],
         "holder_adds": [op[1]["key"] for op in holder_tx["ops"]], "base": [d["key"] for d in base], "case_idx": idx}
    tmpdir = tempfile.mkdtemp(prefix="vf-c18-")
    log = []
    try:
        st = make_storage(cfg, tmpdir)
        ix = st.create_index(make_schema(opts))
        if base:
            bwr = ix.writer(**wa)
            for d in base:
                bwr.add_document(**d)
            bwr.commit()

        def scenario():
            holder = ix.writer(**wa)
            aws = []
            try:
                for k in range(K):
                    aw = bounded("AsyncWriter() blocks on a held lock", writing.AsyncWriter, TaggedProxy(ix, k, log),
                                 delay=delays[k], writerargs=dict(wa))
                    aw.daemon = True
                    aws.append(aw)
                    if aw.writer is not None:
                        raise AssertionError("AsyncWriter obtained a writer although the lock is held")
                apply_ops(holder, holder_tx["ops"])
                for k in rng.sample(range(K), K):
                    apply_ops(aws[k], txs[k]["ops"])
                released = False
                for n, k in enumerate(rng.sample(range(K), K)):
                    if n == release_after:
                        holder.commit(**holder_tx["commit"])
                        released = True
                    if sleeps[n]:
                        time.sleep(sleeps[n])
                    aws[k].commit(**txs[k]["commit"])
                if not released:
                    if sleeps[K]:
                        time.sleep(sleeps[K])
                    holder.commit(**holder_tx["commit"])
            except BaseException:
                try:
                    if holder.writelock is not None and not holder.is_closed:
                        holder.writelock.release()
                except Exception:  # noqa
                    pass
                raise
            for aw in aws:
                join_or_die(aw, "AsyncWriter thread")
            for aw in aws:
                reraise_thread_error(aw)

        try:
            ok, _ = ctx.guard("c18.async.exec", w, scenario)
        except Hang as e:
            ctx.fail("c18.async.exec", "hang:%s" % e, w, "no progress within 60 s")
            ok = False
        ctx.count("c18.asyncmulti.runs")
        order = tuple(tag for tag, r in log if r == "ok")
        nlocked = sum(1 for tag, r in log if r == "locked")
        if ok:
            ctx.count("c18.asyncmulti.writers", K)
            ctx.count("c18.asyncmulti.failed_lock_attempts", nlocked)
            sig = (K, order, release_after)
            if sig not in _seen_lock_orders:
                _seen_lock_orders.add(sig)
                ctx.count("c18.asyncmulti.distinct_lock_orders")
            if list(order) != sorted(order):
                ctx.count("c18.asyncmulti.lock_won_out_of_creation_order")
            ww = dict(w, lock_order=list(order), failed_attempts=nlocked)
            fx = reopen(st, cfg)
            try:
                def cmp():
                    from vf import dump
                    rd = model_dump(opts, live)
                    with fx.reader() as r:
                        gd = full_dump(r)
                    if rd != gd:
                        ds = dump.diff(rd, gd)
                        part = ds[0].split("/")[1] if ds and "/" in ds[0] else "?"
                        ctx.fail("c18.async.result", "multi:%s" % part, ww, "model vs index after all AsyncWriters finished:\n" + "\n".join(ds))
                ctx.count("c18.asyncmulti.dump_checks")
                ctx.guard("c18.async.result", ww, cmp)
            finally:
                fx.close()
        ctx.case(("async-multi", K, order, release_after, cfg["storage"]), True,
                 sample={"variant": "async multi", "writers": K, "lock_order": list(order), "failed_attempts": nlocked,
                         "release_after_commit_calls": release_after} if idx % 5 == 0 else None)
    finally:
        shutil.rmtree(tmpdir, ignore_errors=True)


# ----------------------------------------------------------------------
# run
# ----------------------------------------------------------------------

def run(ctx):
    from vf import model
    model.check_analysis()
    _install_thread_hook()
    for idx in ctx.cases(quick=64, thorough=320):
        # every 16th case of a shard is a 'groups' case with its own random stream; the other cases keep the numbering
        # (hence the random streams) they had before that kind was interleaved: 60 / 300 per shard
        pos, shard = divmod(idx, ctx.nshards)
        if pos % GROUPS_EVERY == GROUPS_EVERY - 1:
            ctx.reseed_global(idx)
            ctx.count("c18.cases.groups")
            case_product(ctx, idx, ctx.rng(idx, "groups"), mp=True, groups=True)
            report_stray_thread_errors(ctx, idx)
            continue
        idx = (pos - pos // GROUPS_EVERY) * ctx.nshards + shard
        rng = ctx.rng(idx)
        ctx.reseed_global(idx)
        k = idx % 12
        if k in (0, 1, 2, 3):
            ctx.count("c18.cases.product")
            case_product(ctx, idx, rng, mp=False)
        elif k == 4:
            ctx.count("c18.cases.async_multi")
            case_async_multi(ctx, idx, rng)
        elif k in (5, 6):
            ctx.count("c18.cases.mp")
            case_product(ctx, idx, rng, mp=True)
        elif k in (7, 8):
            ctx.count("c18.cases.bw_sequential")
            case_bw_sequential(ctx, idx, rng)
        elif k in (9, 10):
            ctx.count("c18.cases.bw_threads")
            case_bw_threads(ctx, idx, rng)
        else:
            ctx.count("c18.cases.bw_timer")
            case_bw_timer(ctx, idx, rng)
        report_stray_thread_errors(ctx, idx)
