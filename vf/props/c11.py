"""C11 - every matcher is a faithful forward cursor over its result list.

Monitor: vf.monitors.Cursor executes generated protocol programs on the real matcher tree
and compares position and reads with the reference list obtained by plain stepping of a
fresh matcher (which is itself cross-checked against the independent model of C01 here:
ids of the reference list == model's matching documents for model-decidable queries).
"""
import random
LEVEL = "exploration"
RULE = ("case = (generated corpus history -> real index, generated query incl. span/nested queries, matcher obtained at "
        "top level or per segment, scored or boolean context, needs_current on/off) x 3 generated programs over "
        "{next, skip_to(t), skip_to_quality(0), replace(0), copy, reset, reads}; non-trivial when the reference list has "
        ">= 2 entries; distinct = (matcher class tree, program opcode sequence, context).")
ASSUMPTIONS = [
    "reference list = plain next()-stepping of a fresh matcher; its id set is cross-checked against the independent model",
    "reset() is not exercised after replace() (documented as undefined after replace)",
    "all_ids() is compared on fresh matchers only (documented as undefined otherwise)",
    "reads (weight/value/spans/matching_terms) are compared only where the fresh reference matcher could read them",
    "skip_to_quality(0) may pass entries whose score is <= 0 (C12 semantics); with the shipped positive models it must not move",
    "next()/skip_to() on an inactive matcher raise ReadTooFar by contract and are not issued",
]
SHARDS = {"quick": 6, "thorough": 16}
BUDGET_S = {"quick": 70, "thorough": 600}
FLOORS = {"c11.programs": 300, "c11.position_checks": 3000, "c11.read_checks": 1500}


def gen_span_query(rng):
    from whoosh import query
    from whoosh.query import spans
    from vf.model import VOCAB

    def term():
        return query.Term("t", rng.choice(VOCAB[:6]))

    def child():
        # a child whose matcher RESTRUCTURES on replace() (a union hands back the surviving branch once the other one is
        # exhausted): the span wrapper is then rebuilt around the new child and must keep its own configuration
        k = rng.random()
        if k < 0.55:
            return term()
        rare = query.Term("t", rng.choice(VOCAB[6:] if len(VOCAB) > 6 else VOCAB))
        if k < 0.85:
            return query.Or([term(), rare] if rng.random() < 0.7 else [term(), term()])
        return spans.SpanOr([term(), rare])
    r = rng.random()
    if r < 0.2:
        return spans.SpanNear(child(), child(), slop=rng.randint(1, 3), ordered=rng.random() < 0.6)
    if r < 0.35:
        return spans.SpanFirst(child(), limit=rng.randint(0, 3))
    if r < 0.5:
        return spans.SpanOr([term(), term()])
    if r < 0.62:
        return spans.SpanNot(child(), term())
    if r < 0.72:
        return spans.SpanContains(spans.SpanNear(term(), child(), slop=3), term())
    if r < 0.82:
        return spans.SpanBefore(child(), term())
    if r < 0.9:
        return spans.SpanNear2([term(), term(), term()], slop=rng.randint(1, 3), ordered=rng.random() < 0.5) \
            if hasattr(spans, "SpanNear2") else spans.SpanOr([term(), term()])
    return spans.SpanCondition(term(), term()) if hasattr(spans, "SpanCondition") else spans.SpanFirst(term())


def gen_extra_query(rng):
    """Matcher classes the plain generator does not reach: coordinated Or (CoordMatcher), column queries."""
    from whoosh import query
    from vf import model
    r = rng.random()
    if r < 0.6:
        return query.Or([model.gen_leaf(rng, scoring=True) for _ in range(rng.randint(2, 4))], scale=rng.choice([0.3, 0.5, 0.9]))
    from whoosh.query.qcolumns import ColumnQuery
    if rng.random() < 0.5:
        return ColumnQuery("n", rng.randint(-3, 3))
    return ColumnQuery("k", rng.choice(model.KVOCAB))


def one_query(ctx, rng, built, s, witness_base, mode="c11", q=None, expected=None):
    from vf import model, monitors
    from whoosh import query
    P = mode
    kind = rng.random()
    direct = None
    if q is not None:
        pass
    elif kind < 0.07:
        # ArrayUnionMatcher built directly with a SMALL part size: the re-buffering paths (which the default
        # part size of 2048 documents only reaches in big segments) run on every small corpus
        subs_q = [model.gen_leaf(rng, fuzzy=False, scoring=True) for _ in range(rng.randint(2, 5))]
        subs_q = [x for x in subs_q if x is not query.NullQuery] or [query.Term("t", "alfa")]
        direct = (subs_q, rng.choice([1.0, 1.0, 0.5, 3.0]), rng.choice([1, 2, 3, 7, 16]))
        q = query.Or(subs_q, boost=direct[1])
        ctx.count(P + ".direct_arrayunion")
    elif mode == "c12" and kind < 0.45:
        q = model.gen_skip_stress(rng)
        ctx.count(P + ".skip_stress_queries")
    elif kind < 0.17:
        q = gen_span_query(rng)
    elif kind < 0.23 and witness_base.get("sortable"):
        q = gen_extra_query(rng)
    else:
        q = model.gen_query(rng, depth=rng.choice([1, 2, 2, 3]), scoring=True, boolean=(mode == "c11"))
    scored = True if mode == "c12" else rng.random() < 0.6
    needs_current = rng.random() < 0.5
    level = rng.choice(["top", "segment"])
    if type(q).__name__ == "ColumnQuery":
        level = "segment"  # multi-segment column readers are C08's subject
    if level == "segment":
        leaves = s.leaf_searchers()
        subs, offset = leaves[rng.randrange(len(leaves))]
    else:
        subs = s
    cx = s.context(needs_current=needs_current) if scored else s.context(needs_current=needs_current, weighting=None)
    orng = random.Random("ctx-weighting:%r" % rng.random())
    override = None
    if scored and orng.random() < 0.2:
        # the weighting model is a per-search option (Searcher.search(..)/context(weighting=)): a matcher built for a
        # context whose model differs from the searcher's own must score AND bound with the context's model
        from vf.props.c12 import gen_weighting
        override, wobj2 = gen_weighting(orng)
        cx = s.context(needs_current=needs_current, weighting=wobj2)
        ctx.count(P + ".context_weighting_override")

    def make():
        if direct is not None:
            from whoosh.matching import ArrayUnionMatcher
            ms = [x.matcher(subs, cx) for x in direct[0]]
            return ArrayUnionMatcher(ms, subs.doc_count_all(), boost=direct[1], scored=scored, partsize=direct[2])
        return q.matcher(subs, cx)
    w = dict(witness_base, query=repr(q), scored=scored, needs_current=needs_current, level=level)
    if override:
        w["context_weighting"] = override
    if direct is not None:
        w["direct"] = "ArrayUnionMatcher(partsize=%d, boost=%s)" % (direct[2], direct[1])
    # A negation has no posting value/spans of its own (InverseMatcher delegates value()/spans() to the
    # matcher it negates, which sits on some other document): those reads are not compared there.
    ok0, m_probe = ctx.guard(P + ".reference", w, make)
    if not ok0:
        ctx.case(("make-failed", model.qshape(q)), False)
        return
    want_values = "InverseMatcher" not in monitors.mclasses(m_probe)
    ok, ref = ctx.guard(P + ".reference", w, monitors.reference_list, make, scored, want_values)
    if not ok:
        ctx.case(("ref-failed", model.qshape(q)), False)
        return
    # cross-check the reference ids against the independent model (top level only: ids are global there)
    if level == "top":
        try:
            exp = expected if expected is not None else model.expected_keys(q, built.live)
        except model.Undecided:
            exp = None
        except Exception:  # noqa - span queries etc. have no model
            exp = None
        if exp is not None:
            got = set(s.stored_fields(e.id)["id"] for e in ref)
            ctx.count(P + ".model_crosschecks")
            if got != exp:
                ctx.fail(P + ".reference-vs-model", "stepping:%s" % type(make()).__name__, w,
                         "stepping yields keys %r, model %r" % (sorted(got), sorted(exp)))
                ctx.case(("ref-wrong", model.qshape(q)), False)
                return
    ids = [e.id for e in ref]
    if any(b <= a for a, b in zip(ids, ids[1:])):
        ctx.fail(P + ".order", "ids-not-increasing:%s" % type(make()).__name__, w, repr(ids[:20]))
        return
    m0 = make()
    tree = monitors.mclass_tree(m0)
    for c in monitors.mclasses(m0):
        ctx.count(P + ".class.%s" % c)
    # all_ids on a fresh matcher
    ok, got = ctx.guard(P + ".all_ids", w, lambda: list(make().all_ids()))
    if ok:
        ctx.count(P + ".all_ids_checks")
        if got != ids:
            ctx.fail(P + ".all_ids", "%s" % type(m0).__name__, w, "all_ids=%r stepping=%r" % (got[:20], ids[:20]))
    for p in range(3):
        allow_q = scored
        if mode == "c12":
            prog = monitors.gen_quality_program(rng, ref)
        elif p == 2 and len(ref) >= 2:
            prog = monitors.gen_copy_program(rng, ref)
            ctx.count(P + ".copy_stress_programs")
        else:
            prog = monitors.gen_program(rng, ref, allow_q)
        cur = None
        ctx.count(P + ".programs")
        try:
            cur = monitors.Cursor(ctx, make, ref, scored, prefix=P)
            cur.bounds = (mode == "c12")
            monitors.run_program(cur, prog)
        except monitors.ProtocolViolation as e:
            ctx.fail(P + ".protocol", e.mech, dict(w, program=[list(o) for o in prog], trace=cur.trace if cur else None,
                                                  reference=[x.brief() for x in ref[:30]], tree=tree), e.detail)
        except Exception as e:  # noqa
            from vf.core import whoosh_site
            import traceback
            site, in_harness = whoosh_site(e)
            if in_harness:
                raise
            last = cur.trace[-1].split("(")[0] if cur and cur.trace else "fresh"
            ctx.fail(P + ".protocol", "%s:exc:%s@%s:after-%s" % (cur._cls() if cur else "?", type(e).__name__, site, last),
                     dict(w, program=[list(o) for o in prog], trace=cur.trace if cur else None, tree=tree),
                     "".join(traceback.format_exception(type(e), e, e.__traceback__))[-1800:])
        ctx.case((tree, tuple(o[0] for o in prog), scored, needs_current, level), len(ref) >= 2,
                 sample=w if (ctx.evaluations % 400 == 0) else None)


def vector_cursors(ctx, rng, built, s, wb):
    """Term-vector matchers (byte ids = terms) obey the same cursor protocol."""
    from vf import monitors
    r = s.reader()
    if not s.schema["t"].vector:
        return
    docnums = list(r.all_doc_ids())
    rng.shuffle(docnums)
    for dn in docnums[:3]:
        if not r.has_vector(dn, "t"):
            continue
        w = dict(wb, vector_of_doc=dn)

        def body():
            def make():
                return r.vector(dn, "t")
            ref = []
            m = make()
            while m.is_active():
                ref.append((m.id(), m.weight(), m.value()))
                m.next()
            ids = [e[0] for e in ref]
            if ids != sorted(set(ids)):
                ctx.fail("c11.vector", "ids-not-increasing", w, repr(ids[:10]))
                return
            if list(make().all_ids()) != ids:
                ctx.fail("c11.vector", "all_ids", w, repr(ids[:10]))
            for _ in range(3):
                m = make()
                i = 0
                for _ in range(rng.randint(2, 8)):
                    if i >= len(ref):
                        break
                    op = rng.choice(["next", "skip_to", "skip_to", "copy", "reset"])
                    if op == "next":
                        m.next()
                        i += 1
                    elif op == "skip_to":
                        t = rng.choice(ids)
                        if rng.random() < 0.3:
                            t = t + (b"\x00" if isinstance(t, bytes) else u"\x00")
                        m.skip_to(t)
                        while i < len(ref) and ref[i][0] < t:
                            i += 1
                    elif op == "copy":
                        c = m.copy()
                        if m.is_active():
                            m.next()
                        m = c
                    else:
                        m.reset()
                        i = 0
                    ctx.count("c11.vector_checks")
                    act = m.is_active()
                    if act != (i < len(ref)):
                        ctx.fail("c11.vector", "%s:is_active" % op, w, "cursor %d of %d" % (i, len(ref)))
                        return
                    if act and (m.id(), m.weight(), m.value()) != ref[i]:
                        ctx.fail("c11.vector", "%s:entry" % op, w, "%r expected %r" % ((m.id(), m.weight()), ref[i][:2]))
                        return
        ctx.guard("c11.vector", w, body)


def run(ctx):
    from vf import model
    model.check_analysis()
    for idx in ctx.cases(quick=140, thorough=600):
        rng = ctx.rng(idx)
        ctx.reseed_global(idx)
        nested = rng.random() < 0.15
        h = model.gen_group_history(rng) if nested else model.gen_history(rng, ndocs=(1, 45), boosts=True, boolean=True)
        sortable = rng.random() < 0.3
        wb = {"history": {"commits": [len(c) for c in h["commits"]], "deletes": len(h["deletes"]),
                          "blocklimit": h["blocklimit"], "storage": h["storage"]}, "case_idx": idx, "sortable": sortable,
              "grouped": nested}
        ok, built = ctx.guard("c11.build", wb, model.build, h, field_boosts=rng.random() < 0.5, chars=rng.random() < 0.5,
                              vector=rng.random() < 0.3, sortable=sortable)
        if not ok:
            continue
        try:
            psz = model.partsize_for(idx)
            if psz is not None:
                ctx.count("c11.small_array_parts")
                wb["array_partsize(default of ArrayUnionMatcher)"] = psz
            with model.array_partsize(psz), built.ix.searcher() as s:
                for _ in range(12):
                    if nested and rng.random() < 0.7:
                        from whoosh import query
                        nq = model.gen_nested_query(rng)
                        exp = model.nested_expected(nq, h, built.live)
                        if rng.random() < 0.3:
                            t = query.Term("t", model.zipf_choice(rng, model.VOCAB))
                            nq, exp = query.And([nq, t]), exp & model.expected_keys(t, built.live)
                        ctx.count("c11.nested_queries")
                        one_query(ctx, rng, built, s, wb, q=nq, expected=exp)
                    else:
                        one_query(ctx, rng, built, s, wb)
                vector_cursors(ctx, rng, built, s, wb)
        finally:
            built.close()
