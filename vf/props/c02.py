"""C02 - a commit is atomic with respect to process crashes (fault enumeration).

Monitor shape: every writer transaction of a generated history is executed ONCE on a real directory under
the storage tap (vf/tap.py).  At every storage-event boundary k the directory is snapshotted ("the process
died just before event k"); files still open are materialised in three prefix variants (all writes applied /
only up to the last flush point / a random cut in between).  Each snapshot is then observed exactly like a
user would observe the directory after a crash (`evaluate`): open_dir, full logical dump, probe searches, a
fresh writer that adds one document and commits, dump again, orphan scan.  The observation must be
*identical* to the observation of a clean copy of the directory taken before the transaction (S_old) or after
it (S_new); S_old/S_new themselves are cross-checked against an independent dict model of the history.
"""
import json
import os
import random
import re
import shutil
import subprocess
import sys
import tempfile
import traceback
import zlib

LEVEL = "fault_enumeration"
EXHAUSTIVE = ("every storage-event boundary of each executed transaction x 3 prefix variants for open files "
              "(all writes applied / flushed prefix only / one random intermediate cut per open file)")
RULE = ("a case is one history: optional generation padding (empty commits so that the first committing monitored "
        "transaction makes generation 10 in every odd history and generation 100 in every 8th) + "
        "an un-monitored prelude of 0..7 merge=False commits (so that merge policies have "
        "segments to merge), then 3..6 monitored writer transactions drawn from {add, update, delete_by_term, "
        "delete_by_query, delete_document, add_field, remove_field} x commit kind {default(MERGE_SMALL), merge=False, "
        "optimize=True, mergetype=CLEAR} x compound {on, off} x finish {commit, cancel, exception inside with, "
        "commit via with-block attributes} x front-end {SegmentWriter, BufferedWriter, AsyncWriter, add_reader, tiny "
        "limitmb (run files)}; some histories also monitor index creation itself. Each monitored transaction is run "
        "once under the storage tap and EVERY storage event boundary is a crash point. A history is non-trivial when "
        "at least one committed transaction showed both outcomes (old before / new after the TOC rename); distinct = "
        "distinct (theme, per-transaction (commit kind, finish, compound, front-end, op kinds, segments before)). "
        "Every fourth history has a SECOND index under another "
        "name ('other' / 'MAIN2', storage.create_index(indexname=...), compound or loose) in the same directory: its files "
        "(byte checksums) and its logical dump are part of every observation, before and after the fresh commit. "
        "MULTI-PROCESS histories (theme 'mp'; first case of every shard, thorough: two per shard): 1-3 prelude commits, then "
        "one transaction through a convenience method of the index object (FileIndex.optimize / add_field / remove_field "
        "open and commit their own writers; crash-enumerated like every single-process transaction), then "
        "2 (thorough 2-4) transactions through whoosh.multiproc.MpWriter(procs 2 (thorough 2-3), batchsize 1-2) x {merged, "
        "multisegment=True} x {commit default/merge=False/optimize, cancel} x {compound, loose} x {tiny limitmb}, 3-4 (thorough "
        "3-7) added documents + sometimes one delete/update of an earlier document. The PARENT process is tapped; the forked "
        "sub-writer processes run whoosh's real buffered files (a fork hook switches the inherited tap off in the child). "
        "Crash points of an mp transaction = every storage event of the parent (quick tier: every third plain write() "
        "boundary, every other kind of event; while sub-writers live no read-only equivalence is assumed) + extra sample points between the fed documents, before commit()/cancel() and inside "
        "SubWriterTask.join() (the parent waits there without storage events). At a crash point all live sub-writers are "
        "SIGSTOPped (seen stopped in /proc) while the directory is copied: the snapshot is the directory at one instant, with "
        "whatever the children had handed to the OS - the state a crash of the whole process group leaves. Verdicts are the "
        "same as for single-process transactions (old or new, searchable, writable, no orphan segment file - which includes "
        "the sub-writers' segment files - after the next commit). "
        "MULTI-PROCESS RECOVERY WRITER: at up to three crash points of EVERY monitored transaction (just before the TOC "
        "rename, just before the lock release, after the transaction returned) a second copy of the snapshot is recovered by "
        "ix.writer(procs=2, batchsize=1) (MpWriter: two documents, commit(merge=False)) instead of the plain writer: the "
        "commit must go through, the index must re-open, and no orphaned segment file may be left.")
ASSUMPTIONS = [
    "process-crash model only (the statement's): the OS keeps every completed write()/rename()/unlink(); no power loss, "
    "no reordering below the OS, no torn sectors (whoosh never fsyncs)",
    "files still open at the crash are materialised as stream prefixes between the last flush point (explicit flush, "
    "seek, truncate, close - CPython's BufferedWriter writes its buffer out on those) and 'everything written'; the "
    "intermediate cut is sampled (one random cut per open file per crash point), the two extremes are always taken",
    "crash points are tap events (file-system operation boundaries issued through whoosh.filedb.filestore); a crash "
    "between two Python statements that issue no storage operation is equivalent to the crash before the next event",
    "snapshots taken before read-only events (listdir/stat/open-for-read/lock attempt) are byte-identical to the "
    "previous snapshot and share its evaluation (counted separately as crash_points.readonly_equiv); likewise the "
    "'flushed' variant is re-evaluated only when its content can have changed",
    "per-transaction discipline documented by whoosh: a key is added/updated/deleted at most once per writer "
    "(update_document cannot replace documents added by the same uncommitted writer)",
    "temporary TOC files `_MAIN_n.toc.<time>`, old-generation TOC files, the `MAIN.tmp/` directory and the lock file left "
    "by a crash are recorded as observations (leftover.*), not violations: they are not segment files",
    "the flip old->new is recorded (flip.at_toc_rename / flip.other) as evidence; the statement allows either state at "
    "any crash point, so its position is not itself a verdict",
    "MpWriter (multi-process) transactions are crash-enumerated at the granularity that is observable and sound: the storage "
    "events of the PARENT process plus sample points; the sub-writers are not tapped (their unflushed user-space buffers are "
    "simply not in the snapshot, exactly as after a real crash), so not every operation boundary of a CHILD is a crash point "
    "and which child states are met depends on real timing (these cases do not replay exactly; sub-writer segment names are "
    "re-seeded by CPython after fork). 'mid' prefix variants of the parent's open files are taken at a quarter of the mp "
    "crash points (they are enumerated by the single-process histories). No real-SIGKILL cross-validation for mp transactions",
    "an MpWriter transaction whose parent makes no progress (no storage event, no finished sample point) for 60 s has its "
    "sub-writers killed by the harness and is dropped without a verdict "
    "(mp.watchdog_fired; the floors on mp.tx.completed keep such a run from counting as 'held'); sub-writer processes still "
    "alive after cancel() would be an observation (mp.obs.subwriters_alive_after_cancel; the pinned tree left them running, "
    "fixed under C04) and are killed by the harness",
    "files left in MAIN.tmp/ (job files, run files of the sub-writers) are not segment files: their survival is recorded "
    "(leftover.tmpdir), not judged - the statement promises the removal of orphaned SEGMENT files",
    "the multi-process recovery writer is judged on 'commits, re-opens, leaves no orphan segment file' only (its resulting "
    "state is not compared with the clean states: the plain recovery writer does that at every crash point); a recovery that "
    "makes no progress for 60 s is dropped (mprecovery.watchdog_fired)",
    "the neighbour index (second index name in the same directory) is only read, never written, during the history; "
    "crash enumeration of the NEIGHBOUR's own commits with MAIN as the bystander is not done",
]
SHARDS = {"quick": 4, "thorough": 16}
BUDGET_S = {"quick": 72, "thorough": 600}
FLOORS = {
    "quick": {"crash_points": 2500, "evaluations.snapshot": 5000, "tx.committed": 5, "tx.both_outcomes": 5,
              "flip.at_toc_rename": 5, "reach.merge_small": 1, "reach.optimize_merge": 1, "reach.clear": 1,
              "reach.loose_commit": 1, "reach.cancel_or_exception": 1, "variant.flushed.evals": 100,
              "variant.mid.evals": 2000, "model.crosscheck": 15, "lock.stale_file_present": 4000,
              "realkill.traces_validated": 2, "tx.generation_digit_boundary": 1,
              # multi-process transactions (8 per quick run whatever the seed: 4 shards x 2)
              "mp.tx.completed": 6, "mp.tx.merged.commit": 2, "mp.tx.multisegment.commit": 2, "mp.tx.merged.cancel": 1,
              "mp.tx.multisegment.cancel": 1, "mp.tx.merged.commit.loose": 1, "mp.tx.merged.commit.compound": 1,
              "mp.tx.both_outcomes": 3, "mp.crash_points": 400, "mp.crash_points.during_finish": 350,
              "mp.crash_points.during_feed": 50, "mp.crash_points.children_alive": 25,
              "mp.crash_points.with_subwriter_segment_files": 200, "mp.outcome.old": 450, "mp.outcome.new": 12,
              "mp.samples.feed": 8, "neighbour.tx_monitored": 1, "tx.front.ixmethod": 1,
              "mprecovery.completed": 15, "mprecovery.evals_with_orphans_before": 4},
    # calibrated on runs made while the shared machine had a load average of 50-70 on 16 cores (36-59 histories
    # finished inside the time cap); an idle machine finishes about twice as many
    "thorough": {"crash_points": 15000, "evaluations.snapshot": 30000, "tx.committed": 30, "tx.both_outcomes": 30,
                 "flip.at_toc_rename": 30, "reach.merge_small": 2, "reach.optimize_merge": 4, "reach.clear": 5,
                 "reach.loose_commit": 8, "reach.cancel_or_exception": 8, "variant.flushed.evals": 600,
                 "variant.mid.evals": 12000, "model.crosscheck": 60, "lock.stale_file_present": 30000,
                 "realkill.traces_validated": 20, "tx.generation_digit_boundary": 6,
                 "mp.tx.completed": 16, "mp.tx.merged.commit": 5, "mp.tx.multisegment.commit": 5, "mp.tx.both_outcomes": 8,
                 "mp.crash_points": 3000, "mp.crash_points.children_alive": 500,
                 "mp.crash_points.with_subwriter_segment_files": 1200, "mp.outcome.old": 3000, "mp.outcome.new": 50,
                 "neighbour.tx_monitored": 4, "tx.front.ixmethod": 3,
                 "mprecovery.completed": 60, "mprecovery.evals_with_orphans_before": 15},
}

VOCAB = ["alfa", "bravo", "charlie", "delta", "echo", "foxtrot", "golf", "hotel"]
SEGFILE = re.compile(r"^(MAIN_[0-9a-z]{16})\.(.+)$")
TOCFILE = re.compile(r"^_MAIN_([0-9]+)\.toc$")
TOCTMP = re.compile(r"^(_MAIN_[0-9]+\.toc)\.[0-9.]+$")
ABSENT = "absent"


class Boom(Exception):
    pass


# ----------------------------------------------------------------------
# schema, transactions, executor (shared with vf/workers/c02_victim.py)
# ----------------------------------------------------------------------

def make_schema():
    from whoosh import fields
    return fields.Schema(id=fields.ID(stored=True, unique=True),
                         t=fields.TEXT(stored=True, vector=True),
                         n=fields.NUMERIC(stored=True, sortable=True, shift_step=0),
                         k=fields.KEYWORD(stored=True))


def extra_field(kind):
    from whoosh import fields
    return fields.KEYWORD(stored=True) if kind == "kw" else fields.TEXT(stored=True)


def _doc_kwargs(doc):
    return dict((str(k), v) for k, v in doc.items())


def apply_ops(w, tx, hook=None):
    from whoosh import query
    for op in tx["ops"]:
        kind = op[0]
        if hook is not None:
            hook("feed")
        if kind == "add":
            w.add_document(**_doc_kwargs(op[1]))
        elif kind == "upd":
            w.update_document(**_doc_kwargs(op[1]))
        elif kind == "del":
            w.delete_by_term("id", op[1])
        elif kind == "delq":
            w.delete_by_query(query.Term("id", op[1]))
        elif kind == "deldoc":
            with w.searcher() as s:
                dn = s.document_number(id=op[1])
            if dn is not None:
                w.delete_document(dn)
        elif kind == "add_field":
            w.add_field(op[1], extra_field(op[2]))
        elif kind == "remove_field":
            w.remove_field(op[1])
        elif kind == "add_reader":
            # documents come from a small RAM index built on the side (no file traffic)
            from whoosh.filedb.filestore import RamStorage
            st = RamStorage()
            rix = st.create_index(w.schema)
            rw = rix.writer()
            for doc in op[1]:
                rw.add_document(**_doc_kwargs(doc))
            rw.commit()
            r = rix.reader()
            try:
                w.add_reader(r)
            finally:
                r.close()
        else:
            raise ValueError(kind)


def commit_kwargs(tx):
    from whoosh import writing
    c = tx["commit"]
    if c == "default":
        return {}
    if c == "nomerge":
        return {"merge": False}
    if c == "optimize":
        return {"optimize": True}
    if c == "clear":
        return {"mergetype": writing.CLEAR}
    raise ValueError(c)


def exec_tx(d, tx, rt=None):
    """Execute one transaction on directory d. Used identically by the monitored run and by the SIGKILL victim.
    rt (monitored multi-process runs only): {"hook": fn(kind)} -> receives "mpw" = the MpWriter."""
    from whoosh import index, writing
    if tx.get("create"):
        ix = index.create_in(d, make_schema())
        return
    ix = index.open_dir(d)
    wk = {"compound": bool(tx["compound"])}
    if tx.get("limitmb"):
        wk["limitmb"] = tx["limitmb"]
    front = tx.get("front", "segment")
    fin = tx["finish"]
    if front == "buffered":
        bw = writing.BufferedWriter(ix, period=None, limit=tx.get("buflimit", 2), writerargs=wk,
                                    commitargs=commit_kwargs(tx))
        try:
            apply_ops(bw, tx)
        finally:
            bw.close()
        return
    if front == "ixmethod":
        # the convenience methods of FileIndex open (and commit) their own writers
        op = tx["ops"][0] if tx["ops"] else None
        if op is None:
            ix.optimize(**wk)
        elif op[0] == "add_field":
            ix.add_field(op[1], extra_field(op[2]))
        elif op[0] == "remove_field":
            ix.remove_field(op[1])
        else:
            raise ValueError(op)
        return
    if front == "mp":
        from whoosh.multiproc import MpWriter
        w = MpWriter(ix, procs=tx.get("procs", 2), batchsize=tx.get("batch", 1), multisegment=bool(tx.get("multiseg")),
                     **wk)
        hook = None
        if rt is not None:
            rt["mpw"] = w
            hook = rt.get("hook")
        try:
            apply_ops(w, tx, hook)
            if hook is not None:
                hook("fed")
            if fin == "cancel":
                w.cancel()
            else:
                w.commit(**commit_kwargs(tx))
        finally:
            if rt is not None:
                rt["alive_at_return"] = sum(1 for t in w.tasks if t.is_alive())
            reap_children(w)
        return
    if front == "async":
        aw = writing.AsyncWriter(ix, writerargs=wk)
        apply_ops(aw, tx)
        if fin == "cancel":
            aw.cancel()
        else:
            aw.commit(**commit_kwargs(tx))
        return
    if fin == "commit":
        w = ix.writer(**wk)
        apply_ops(w, tx)
        w.commit(**commit_kwargs(tx))
    elif fin == "cancel":
        w = ix.writer(**wk)
        apply_ops(w, tx)
        w.cancel()
    elif fin == "with":
        with ix.writer(**wk) as w:
            c = tx["commit"]
            if c == "nomerge":
                w.merge = False
            elif c == "optimize":
                w.optimize = True
            elif c == "clear":
                w.mergetype = writing.CLEAR
            apply_ops(w, tx)
    elif fin == "exception":
        try:
            with ix.writer(**wk) as w:
                apply_ops(w, tx)
                raise Boom()
        except Boom:
            pass
    else:
        raise ValueError(fin)


def reap_children(w):
    """MpWriter.cancel() only flags its own copy of the task objects: the sub-writer processes live on, blocked on the job
    queue (non-daemonic: they would also block this interpreter's exit). The harness kills what is left."""
    import signal
    for t in list(getattr(w, "tasks", ())):
        try:
            if t.is_alive():
                try:
                    os.kill(t.pid, signal.SIGCONT)
                except OSError:
                    pass
                t.kill()
            t.join(5)
        except Exception:  # noqa
            pass


_FORK_HOOK = []


def install_fork_hook():
    """Sub-writer processes are forked from the tapped parent: switch the (inherited) tap off in every forked child, so that the
    children run whoosh's real, buffered file objects and never call the monitor."""
    if _FORK_HOOK:
        return

    def _child():
        try:
            from vf import tap as T
            t = T._ACTIVE
            if t is not None:
                t.enabled = False
                t.on_event = None
                t.on_done = None
        except Exception:  # noqa
            pass
    os.register_at_fork(after_in_child=_child)
    _FORK_HOOK.append(True)


# ----------------------------------------------------------------------
# dict model (independent of whoosh)
# ----------------------------------------------------------------------

def model_apply(model, fieldset, tx):
    """model: key -> {'id','t','n'}; fieldset: set of schema field names. Returns (model', fieldset')."""
    if tx.get("create"):
        return {}, set(["id", "t", "n", "k"])
    committed = tx["finish"] in ("commit", "with") or tx.get("front") == "buffered"
    if not committed:
        return dict(model), set(fieldset)
    new = {} if tx["commit"] == "clear" else dict(model)
    fs = set(fieldset)
    for op in tx["ops"]:
        kind = op[0]
        if kind in ("add", "upd"):
            doc = op[1]
            new[doc["id"]] = {"id": doc["id"], "t": doc["t"], "n": doc["n"]}
        elif kind in ("del", "delq", "deldoc"):
            new.pop(op[1], None)
        elif kind == "add_field":
            fs.add(op[1])
        elif kind == "remove_field":
            fs.discard(op[1])
        elif kind == "add_reader":
            for doc in op[1]:
                new[doc["id"]] = {"id": doc["id"], "t": doc["t"], "n": doc["n"]}
    return new, fs


# ----------------------------------------------------------------------
# history generator
# ----------------------------------------------------------------------

class Gen(object):
    def __init__(self, rng, tier="quick"):
        self.rng = rng
        self.nid = 0
        self.nextra = 0
        self.maxwords = 2 if tier == "quick" else 4
        self.maxops = 2 if tier == "quick" else 4

    def doc(self, key, fieldset):
        rng = self.rng
        d = {"id": key, "t": " ".join(rng.choice(VOCAB) for _ in range(rng.randint(1, self.maxwords))),
             "n": rng.randint(0, 50)}
        if "k" in fieldset and rng.random() < 0.5:
            d["k"] = " ".join(rng.sample(["red", "green", "blue"], rng.randint(1, 2)))
        for f in sorted(fieldset):
            if f.startswith("x") and rng.random() < 0.6:
                d[f] = rng.choice(["uno", "dos", "tres"])
        return d

    def newkey(self):
        self.nid += 1
        return "d%d" % self.nid

    def tx(self, model, fieldset, commit=None, finish=None, compound=None, front=None, maxops=None, schema_ops=True):
        rng = self.rng
        maxops = maxops or self.maxops
        fs = set(fieldset)
        ops = []
        front = front or "segment"
        if finish is None:
            finish = rng.choice(["commit", "commit", "commit", "with", "cancel", "exception"])
        if commit is None:
            commit = rng.choice(["default", "default", "nomerge", "optimize", "clear"])
        if compound is None:
            compound = rng.random() < 0.6
        if schema_ops and front == "segment" and rng.random() < 0.3:
            if rng.random() < 0.6 or not [f for f in fs if f.startswith("x") or f == "k"]:
                self.nextra += 1
                # (half of the names contain a character outside [A-Za-z0-9_]: per-field files carry the field name)
                name = ("x-%d" if self.nextra % 2 else "x%d") % self.nextra
                ops.append(["add_field", name, rng.choice(["kw", "text"])])
                fs.add(name)
            else:
                name = rng.choice(sorted(f for f in fs if f.startswith("x") or f == "k"))
                ops.append(["remove_field", name])
                fs.discard(name)
        touched = set()
        nops = rng.randint(0 if ops else 1, maxops)
        if rng.random() < 0.08:
            nops = 0
        for _ in range(nops):
            live = sorted(k for k in model if k not in touched)
            r = rng.random()
            if r < 0.5 or not live:
                key = self.newkey()
                touched.add(key)
                ops.append(["add" if rng.random() < 0.7 else "upd", self.doc(key, fs)])
            elif r < 0.75:
                key = rng.choice(live)
                touched.add(key)
                ops.append(["upd", self.doc(key, fs)])
            else:
                key = rng.choice(live)
                touched.add(key)
                ops.append([rng.choice(["del", "delq", "deldoc"]), key])
        if front == "segment" and rng.random() < 0.12:
            docs = [self.doc(self.newkey(), fs & set(["id", "t", "n", "k"])) for _ in range(rng.randint(1, 2))]
            ops.append(["add_reader", docs])
        tx = {"ops": ops, "commit": commit, "finish": finish, "compound": compound, "front": front}
        if front == "segment" and rng.random() < 0.12:
            tx["limitmb"] = 0.0002      # ~200 bytes: forces posting-pool run files in MAIN.tmp/
        if front == "buffered":
            # limit 1/2: BufferedWriter commits by itself every 1-2 documents (several commits inside one
            # "transaction": each intermediate clean state is observed at its lock release); 100: one commit at close().
            # commitargs apply to every inner commit, so CLEAR is only meaningful with a single commit.
            tx["buflimit"] = 100 if tx["commit"] == "clear" else rng.choice([1, 2, 100])
            tx["finish"] = "commit"
        if front == "async" and tx["finish"] not in ("commit", "cancel"):
            tx["finish"] = "commit"
        return tx


def gen_history(rng, idx, tier):
    """Returns dict(theme, create_monitored, prelude=[tx...], txs=[tx...]). Themes guarantee the reach floors."""
    theme = ["merge", "optimize", "clear", "loose"][(idx + idx // 4) % 4]
    g = Gen(rng, tier)
    model, fs = {}, set(["id", "t", "n", "k"])
    prelude = []
    npre = {"merge": 5 if tier == "quick" else rng.randint(5, 7),
            "optimize": rng.randint(2, 4) if tier == "quick" else rng.randint(2, 8), "clear": rng.randint(1, 3),
            "loose": rng.randint(0, 3)}[theme]
    for _ in range(npre):
        tx = g.tx(model, fs, commit="nomerge", finish="commit", maxops=1 if tier == "quick" else 2, schema_ops=False,
                  compound=(rng.random() < (0.3 if theme == "loose" else 0.7)))
        tx.pop("limitmb", None)
        tx["ops"] = [o for o in tx["ops"] if o[0] != "add_reader"]
        if not any(o[0] in ("add", "upd") for o in tx["ops"]):
            tx["ops"].append(["add", g.doc(g.newkey(), fs)])      # every prelude commit creates a segment
        prelude.append(tx)
        model, fs = model_apply(model, fs, tx)
    ntx = 3 if tier == "quick" else rng.randint(3, 6)
    forced = {"merge": dict(commit="default", finish="commit"),
              "optimize": dict(commit="optimize", finish=rng.choice(["commit", "with"])),
              "clear": dict(commit="clear", finish=rng.choice(["commit", "with"])),
              "loose": dict(compound=False, finish="commit", commit=rng.choice(["default", "nomerge"]))}[theme]
    # histories 0..3 (one per theme) put the theme's transaction first, where its reach condition is guaranteed
    # by the prelude whatever the seed; later histories place it anywhere
    fpos = 0 if (theme == "merge" or idx < 4) else rng.randrange(ntx)
    # one cancelled / failing transaction in most histories keeps that clause reached
    cpos = rng.choice([i for i in range(ntx) if i != fpos]) if rng.random() < 0.7 else None
    txs = []
    for j in range(ntx):
        front = "segment"
        r = rng.random()
        if r < 0.10:
            front = "buffered"
        elif r < 0.18:
            front = "async"
        if j == fpos:
            tx = g.tx(model, fs, front="segment", **forced)
            if not any(o[0] in ("add", "upd", "add_reader") for o in tx["ops"]):
                tx["ops"].append(["add", g.doc(g.newkey(), model_apply({}, fs, dict(tx, finish="commit"))[1])])
            if theme == "merge":
                tx.pop("limitmb", None)
        elif j == cpos:
            tx = g.tx(model, fs, front="segment", finish=rng.choice(["cancel", "exception"]))
        else:
            tx = g.tx(model, fs, front=front)
        txs.append(tx)
        model, fs = model_apply(model, fs, tx)
    create_monitored = (idx % 3 == 0)
    # generation padding: empty un-monitored commits right after create_in, so that the monitored transactions start just
    # below a decimal digit boundary of the generation number (..9 -> 10, ..99 -> 100: file names are compared/ordered)
    # odd histories: the first committing monitored transaction makes generation 10; every 8th: generation 100
    target = 9 if idx % 2 == 1 else (99 if idx % 8 == 4 else None)
    genpad = max(0, target - len(prelude)) if target is not None else 0
    # a second index under another name in the same directory (created before everything else, never written again): no
    # crash state of MAIN's transactions and no orphan cleaning of MAIN's later commits may disturb it
    neighbour = [None, None, "other", None, None, None, "MAIN2", None][idx % 8]
    return {"theme": theme, "create_monitored": create_monitored, "prelude": prelude, "txs": txs, "genpad": genpad,
            "neighbour": neighbour}


# ----------------------------------------------------------------------
# observation of a directory ("what a user sees after the crash")
# ----------------------------------------------------------------------

def probes(s):
    from whoosh import query
    out = {}
    out["doc_count"] = s.doc_count()
    out["doc_count_all"] = s.doc_count_all()
    out["every_sorted_n"] = [h["id"] for h in s.search(query.Every(), limit=None, sortedby="n")]
    out["alfa"] = sorted(h["id"] for h in s.search(query.Term("t", "alfa"), limit=None))
    out["alfa_and_bravo"] = sorted(h["id"] for h in s.search(query.And([query.Term("t", "alfa"),
                                                                          query.Term("t", "bravo")]), limit=None))
    out["top2"] = [(h["id"], round(h.score, 6)) for h in
                   s.search(query.Or([query.Term("t", "alfa"), query.Term("t", "echo")]), limit=2)]
    keys = out["every_sorted_n"]
    if keys:
        out["by_id"] = [h["id"] for h in s.search(query.Term("id", keys[0]), limit=None)]
    return out


def observe_index(ix):
    from vf import dump as D
    with ix.searcher() as s:
        r = s.reader()
        return {"gen": ix.latest_generation(), "schema": sorted(r.schema.names()),
                "dump": D.dump(r), "probes": probes(s)}


NEIGHBOURS = ("other", "MAIN2")


def build_neighbour(d, name, loose):
    """storage.create_index(..., indexname=<non-default>) in the directory that will hold MAIN; two commits."""
    from whoosh.filedb.filestore import FileStorage
    st = FileStorage(d)
    ix = st.create_index(make_schema(), indexname=name)
    for p in range(2):
        w = ix.writer(compound=not loose)
        for i in range(2):
            w.add_document(id="nb%d.%d" % (p, i), t="alfa hotel" if i else "bravo golf", n=10 * p + i, k="red")
        w.commit(merge=False)


def neighbour_files(d):
    out = {}
    for f in sorted(os.listdir(d)):
        for name in NEIGHBOURS:
            if f.startswith(name + "_") or f.startswith("_" + name + "_"):
                if not f.endswith("_WRITELOCK"):
                    with open(os.path.join(d, f), "rb") as fh:
                        out[f] = zlib.crc32(fh.read())
    return out


def observe_neighbours(d):
    """{} when the directory holds no other index; else per index name its files (name -> crc) and its logical dump."""
    from whoosh import index, query
    from vf import dump as D
    files = neighbour_files(d)
    if not files:
        return {}
    out = {"files": files}
    for name in NEIGHBOURS:
        if any(f.startswith("_" + name + "_") for f in files):
            ix = index.open_dir(d, indexname=name)
            with ix.searcher() as s:
                out[name] = {"gen": ix.latest_generation(), "dump": D.dump(s.reader()),
                             "alfa": sorted(h["id"] for h in s.search(query.Term("t", "alfa"), limit=None))}
    return out


class EvalFailure(Exception):
    def __init__(self, phase, exc):
        Exception.__init__(self, "%s: %r" % (phase, exc))
        self.phase = phase
        self.exc = exc


def evaluate(d, seedtag):
    """Observe directory d like a user after a crash. Mutates d (fresh writer). Returns obs dict.
    Raises EvalFailure(phase, exc) when any step raises."""
    from whoosh import index
    random.seed("c02-eval:%s" % seedtag)
    obs = {"files_before": sorted(os.listdir(d))}
    phase = "open_dir"
    try:
        try:
            ix = index.open_dir(d)
        except index.EmptyIndexError:
            ix = None
        if ix is None:
            obs["state"] = ABSENT
            phase = "create_in(after-absent)"
            ix = index.create_in(d, make_schema())
        else:
            phase = "dump+probes"
            obs["state"] = observe_index(ix)
        phase = "neighbour-index"
        obs["nb_before"] = observe_neighbours(d)
        phase = "fresh-writer"
        w = ix.writer(timeout=0)
        fresh = {"id": "zz", "t": "alfa zulu"}
        if "n" in w.schema.names():
            fresh["n"] = 99
        w.add_document(**fresh)
        phase = "fresh-commit"
        ck = zlib.crc32(str(seedtag).encode()) % 3
        if ck == 0:
            w.commit()
        elif ck == 1:
            w.commit(optimize=True)
        else:
            w.commit(merge=False)
        phase = "reopen-after-write"
        ix2 = index.open_dir(d)
        obs["after"] = observe_index(ix2)
        phase = "neighbour-index(after-write)"
        obs["nb_after"] = observe_neighbours(d)
        phase = "orphan-scan"
        live = set(seg.segment_id() for seg in ix2._segments())
    except Exception as e:  # noqa
        raise EvalFailure(phase, e)
    files = sorted(os.listdir(d))
    obs["live_segments"] = len(live)
    obs["orphans"] = [f for f in files if SEGFILE.match(f) and SEGFILE.match(f).group(1) not in live]
    gen2 = obs["after"]["gen"]
    left = []
    for f in files:
        m = TOCFILE.match(f)
        if TOCTMP.match(f):
            left.append("toctmp")
        elif m and int(m.group(1)) != gen2:
            left.append("oldtoc")
        elif f == "MAIN.tmp":
            left.append("tmpdir")
        elif any(f.startswith(nb + "_") or f.startswith("_" + nb + "_") for nb in NEIGHBOURS):
            pass        # files of the other index in this directory (observed through nb_before / nb_after)
        elif not (m or SEGFILE.match(f) or f == "MAIN_WRITELOCK"):
            left.append("other:" + f)
    obs["leftover"] = sorted(set(left))
    return obs


def comparable(obs):
    return {"state": obs["state"], "after": obs["after"], "nb_before": obs.get("nb_before") or {},
            "nb_after": obs.get("nb_after") or {}}


def stored_view(state):
    if state == ABSENT:
        return None
    out = {}
    for k, sf in state["dump"]["stored"].items():
        out[k] = dict((f, sf.get(f)) for f in ("id", "t", "n"))
    return out


def first_difference(a, b):
    from vf import dump as D
    return D.diff(a, b, limit=4)


def fileclass(name):
    base = os.path.basename(name)
    if name.startswith("MAIN.tmp"):
        return "tmp"
    if TOCFILE.match(base):
        return "toc"
    if TOCTMP.match(base):
        return "toctmp"
    if base == "MAIN_WRITELOCK":
        return "lock"
    m = SEGFILE.match(base)
    if m:
        return "seg" if m.group(2) == "seg" else "loose"
    return "other"


def norm_name(name):
    m = TOCTMP.match(os.path.basename(name))
    if m:
        return os.path.join(os.path.dirname(name), m.group(1) + ".TMP")
    return name


# ----------------------------------------------------------------------
# the monitored execution of one transaction
# ----------------------------------------------------------------------

class TxRun(object):
    def __init__(self, ctx, tap, root, d, idx, j, tx, rng, witness_base):
        self.ctx, self.tap, self.root, self.d = ctx, tap, root, d
        self.idx, self.j, self.tx, self.rng = idx, j, tx, rng
        self.wb = witness_base
        self.dirty = True
        self.struct_done = 0
        self.flushed_fp = None
        self.kill_samples = []
        self.kill_prob = 0.0
        self.states = []            # clean committed states in order: [S_old, after 1st commit, ...]
        self.bounds = []            # bounds[k] = event index of the lock-release at which states[k+1] was clean
        self.pending = []           # (n, kind, name, variant, cuts, ("s", state index, orphans, leftover) | obs | EvalFailure)
        self.ck_failure = None
        # multi-process transactions (front "mp"): rt is the run-time record shared with exec_tx
        self.mp = None
        self.mprng = random.Random("c02-mp:%d:%d" % (idx, j))
        self.parent_ids = set()     # segment ids the PARENT process created / touched (from its own tap events)
        self.pre_ids = set(m.group(1) for m in (SEGFILE.match(f) for f in os.listdir(d)) if m) if os.path.isdir(d) else set()
        self.nsamples = {}
        self.mprec_left = 3

    # -- sub-writer processes (MpWriter) --------------------------------------
    def child_pids(self):
        w = (self.mp or {}).get("mpw")
        out = []
        for t in list(getattr(w, "tasks", ()) or ()):
            try:
                if t.pid is not None and t.is_alive():
                    out.append(t.pid)
            except Exception:  # noqa
                pass
        return out

    def frozen(self):
        """Context manager: every live sub-writer process is SIGSTOPped (and seen stopped) while the directory is copied, so
        that a snapshot is the directory at ONE instant - the state a crash of the whole process group would leave."""
        return _Frozen(self.child_pids() if self.mp is not None else [])

    def sample(self, kind):
        """Extra crash point between two storage events of the parent (the sub-writers may have written meanwhile)."""
        cap = {"feed": 5, "fed": 1, "join": 8}.get(kind, 2)
        if self.nsamples.get(kind, 0) >= cap:
            return
        self.nsamples[kind] = self.nsamples.get(kind, 0) + 1
        if kind == "fed":
            self.mp["phase"] = "finish"
        self.mp["in_callback"] = True
        try:
            try:
                with self.tap.muted():
                    self.ctx.count("mp.samples." + kind)
                    self.crash_point(self.tap.n + 1, "sample-" + kind, "")
                    self.dirty = True
            finally:
                import time
                self.mp["last_progress"] = time.time()
                self.mp["in_callback"] = False
        except Exception as e:  # noqa - a bug of the harness must never look like a whoosh failure
            from vf.core import HarnessError
            if isinstance(e, HarnessError):
                raise
            raise HarnessError("mp sample point failed: %r\n%s" % (e, _tb(e)))

    # -- snapshots -------------------------------------------------------
    def on_event(self, n, kind, name, detail):
        mp = self.mp
        if mp is not None:
            mp["in_callback"] = True
        try:
            try:
                self._on_event(n, kind, name, detail)
            finally:
                if mp is not None:
                    import time
                    mp["last_progress"] = time.time()
                    mp["in_callback"] = False
        except Exception as e:  # noqa - a bug of the harness must never look like a whoosh failure
            from vf.core import HarnessError
            if isinstance(e, HarnessError):
                raise
            raise HarnessError("tap callback failed: %r\n%s" % (e, _tb(e)))

    def _on_event(self, n, kind, name, detail):
        from vf.tap import MUTATING
        ctx = self.ctx
        ctx.count("events.total")
        ctx.count("events.kind." + kind)
        if self.mp is not None:
            m = SEGFILE.match(os.path.basename(name))
            if m:
                self.parent_ids.add(m.group(1))
            if self.child_pids():
                self.dirty = True       # the sub-writers may have changed the directory since the last snapshot
            if kind == "write" and ctx.quick and n % 3:
                # quick tier: two of three plain write() boundaries of the parent's own files are not snapshotted (every
                # create / close / rename / remove / lock / ... boundary is; the thorough tier takes every event)
                ctx.count("mp.write_events_not_snapshotted")
                self.dirty = True
                return
        if self.dirty:
            self.crash_point(n, kind, name)
            self.dirty = False
        else:
            ctx.count("crash_points.readonly_equiv")
        if kind in MUTATING:
            self.dirty = True
            if kind != "write":
                self.struct_done += 1
        if kind == "lock-released":
            self.checkpoint(n)

    def checkpoint(self, n):
        """A writer has just finished (commit or cancel) and released the lock: the directory is in a clean
        committed state. Observe a copy of it now; it becomes the next allowed state if it differs."""
        rstate = random.getstate()
        ck = os.path.join(self.root, "ck")
        try:
            with self.tap.muted():
                if os.path.exists(ck):
                    shutil.rmtree(ck)
                with self.frozen():
                    shutil.copytree(self.d, ck)
                self.ctx.count("checkpoints")
                try:
                    c = comparable(evaluate(ck, "%d:%d" % (self.idx, self.j)))
                except EvalFailure as ef:
                    if self.ck_failure is None:
                        self.ck_failure = (n, ef)
                    return
                if c != self.states[-1]:
                    self.states.append(c)
                    self.bounds.append(n)
        finally:
            shutil.rmtree(ck, ignore_errors=True)
            random.setstate(rstate)

    def crash_point(self, n, kind, name):
        ctx, tap = self.ctx, self.tap
        ctx.count("crash_points")
        ctx.count("crash_points.before." + kind + ":" + fileclass(name))
        rstate = random.getstate()
        try:
            self._crash_point(n, kind, name)
        finally:
            random.setstate(rstate)

    def _crash_point(self, n, kind, name):
        ctx, tap = self.ctx, self.tap
        if getattr(self, "eval_failures", 0) >= 3:
            # three crash states of this transaction were already unreadable / unwritable: the verdict is settled, and such
            # states are slow to evaluate (the library retries before it gives up)
            ctx.count("crash_points.skipped_after_eval_failures")
            return
        with tap.muted():
            sts = tap.open_states(self.d)
            variants = ["full"]
            if any(s.flushed < s.total for s in sts):
                fp = tuple(sorted((s.path, s.flushed) for s in sts)) + (self.struct_done,)
                if fp != self.flushed_fp:
                    variants.append("flushed")
                    self.flushed_fp = fp
                else:
                    ctx.count("variant.flushed.shared")
                if any(s.total - s.flushed >= 2 for s in sts):
                    variants.append("mid")
            if self.mp is not None and "mid" in variants and (ctx.quick or self.mprng.random() >= 0.25):
                variants.remove("mid")      # (the parent's unflushed prefixes are enumerated by the single-process histories)
            snaps = []
            with self.frozen() as fz:
                for variant in variants:
                    snap = os.path.join(self.root, "snap-" + variant)
                    if os.path.exists(snap):
                        shutil.rmtree(snap)
                    info = tap.materialize(self.d, snap, variant, self.rng)
                    if variant == "full" and kind != "end" and self.kill_prob and self.rng.random() < self.kill_prob:
                        self.keep_kill_sample(n, kind, name, snap, sts)
                    snaps.append((variant, snap, info))
                # at up to three crash points per transaction (just before the TOC rename, just before the lock release, after
                # the transaction returned) a second copy is recovered by a MULTI-PROCESS writer (see mp_recovery)
                mprec = None
                if self.mprec_left > 0 and (kind in ("end", "lock-release") or (kind == "rename" and fileclass(name) == "toc")):
                    self.mprec_left -= 1
                    mprec = os.path.join(self.root, "snap-mprec")
                    if os.path.exists(mprec):
                        shutil.rmtree(mprec)
                    tap.materialize(self.d, mprec, "full", self.rng)
            if self.mp is not None:
                self.mp_observe(n, kind, fz, snaps[0][1])
            if mprec is not None:
                self.mp_recovery(n, kind, name, mprec)
            for variant, snap, info in snaps:
                ctx.count("evaluations.snapshot")
                ctx.count("variant.%s.evals" % variant)
                if os.path.exists(os.path.join(snap, "MAIN_WRITELOCK")):
                    ctx.count("lock.stale_file_present")
                try:
                    obs = evaluate(snap, "%d:%d" % (self.idx, self.j))
                except EvalFailure as ef:
                    obs = ef
                    self.eval_failures = getattr(self, "eval_failures", 0) + 1
                self.pending.append((n, kind, name, variant, info, self.slim(obs)))
                shutil.rmtree(snap, ignore_errors=True)

    def mp_recovery(self, n, kind, name, snap):
        """The statement's 'later writer' may be any writer: here the crash state is recovered by ix.writer(procs=2) (MpWriter)
        which adds two documents and commits; afterwards no orphaned segment file may be left and the index must open."""
        from whoosh import index
        ctx = self.ctx
        install_fork_hook()
        ctx.count("mprecovery.evals")
        w = dict(self.wb)
        w.update({"crash_before_event": n, "event_kind": kind, "event_file": norm_name(name),
                  "recovery_writer": "ix.writer(procs=2, batchsize=1): two documents added, commit()"})
        where = "%s:%s" % (kind, fileclass(name))
        box = {}
        import threading

        def fire():
            box["timed_out"] = True
            reap_children(box.get("w"))
        timer = threading.Timer(MP_TIMEOUT_S, fire)
        timer.daemon = True
        timer.start()
        try:
            try:
                random.seed("c02-mprec:%d:%d" % (self.idx, self.j))
                try:
                    ix = index.open_dir(snap)
                except index.EmptyIndexError:
                    ctx.count("mprecovery.absent")
                    return
                before = set(m.group(1) for m in (SEGFILE.match(f) for f in os.listdir(snap)) if m)
                live0 = set(seg.segment_id() for seg in ix._segments())
                mw = box["w"] = ix.writer(procs=2, batchsize=1, timeout=0)
                doc = {"id": "zy1", "t": "alfa yankee"}
                if "n" in mw.schema.names():
                    doc["n"] = 98
                mw.add_document(**doc)
                mw.add_document(**dict(doc, id="zy2"))
                mw.commit(merge=False)
                ix2 = index.open_dir(snap)
                live = set(seg.segment_id() for seg in ix2._segments())
                with ix2.searcher() as sr:
                    ndocs = sr.doc_count()
            finally:
                timer.cancel()
                reap_children(box.get("w"))
        except Exception as e:  # noqa
            if box.get("timed_out"):
                ctx.count("mprecovery.watchdog_fired")
                return
            from vf.core import HarnessError
            if isinstance(e, HarnessError) or _site(e) == "harness":
                raise
            if getattr(self, "mprec_failed", False):
                return
            self.mprec_failed = True
            ctx.fail("crash-state.writable", "mp-recovery-writer:exc:%s@%s:before:%s" % (type(e).__name__, _site(e), where),
                     w, _tb(e))
            return
        finally:
            pass
        files = sorted(os.listdir(snap))
        orphans = [f for f in files if SEGFILE.match(f) and SEGFILE.match(f).group(1) not in live]
        if before - live0:
            ctx.count("mprecovery.evals_with_orphans_before")
        ctx.count("mprecovery.completed")
        shutil.rmtree(snap, ignore_errors=True)
        if orphans and not getattr(self, "mprec_failed", False):
            self.mprec_failed = True
            w["orphans_after_multiprocess_commit"] = orphans
            ctx.fail("crash-state.orphans", "orphan-segment-file-survives-next-commit:mp-recovery-writer:before:%s" % where, w,
                     "files %r belong to no segment of the current TOC after the MpWriter's commit" % (orphans,))

    def mp_observe(self, n, kind, fz, snap):
        """Reach counters of a multi-process crash point: what of the sub-writers' work is inside the snapshot."""
        ctx = self.ctx
        phase = self.mp.get("phase", "feed")
        ctx.count("mp.crash_points")
        ctx.count("mp.crash_points.during_" + phase)
        if fz.pids:
            ctx.count("mp.crash_points.children_alive")
            ctx.count("mp.children_frozen", len(fz.stopped))
            if fz.unconfirmed:
                ctx.count("mp.children_stop_unconfirmed", fz.unconfirmed)
        ids = set(m.group(1) for m in (SEGFILE.match(f) for f in os.listdir(snap)) if m)
        child = ids - self.pre_ids - self.parent_ids
        if child:
            ctx.count("mp.crash_points.with_subwriter_segment_files")
            ctx.count("mp.crash_points.with_subwriter_segment_files.during_" + phase)
        tmpd = os.path.join(snap, "MAIN.tmp")
        if os.path.isdir(tmpd):
            names = os.listdir(tmpd)
            if any(f.endswith(".doclist") for f in names):
                ctx.count("mp.crash_points.with_job_files")
            if any(not f.endswith(".doclist") and not f.endswith(".ctmp") for f in names):
                ctx.count("mp.crash_points.with_run_files")

    def slim(self, obs):
        """Keep only what the verdict needs: match against the clean states known so far; keep the full
        observation only when it matches none of them (it may match a state that becomes known later)."""
        if isinstance(obs, EvalFailure):
            return obs
        c = comparable(obs)
        for i in range(len(self.states) - 1, -1, -1):
            if c == self.states[i]:
                return ("s", i, obs["orphans"], obs["leftover"])
        return obs

    def keep_kill_sample(self, n, kind, name, snap, sts):
        keep = os.path.join(self.root, "kill-%d" % n)
        shutil.copytree(snap, keep)
        frozen = []
        for s in sts:
            frozen.append({"rel": s.path[len(self.d) + 1:], "base": s.base, "ops": list(s.ops),
                           "flushed": s.flushed, "total": s.total})
        self.kill_samples.append({"n": n, "kind": kind, "name": name, "dir": keep, "open": frozen})


class _Frozen(object):
    def __init__(self, pids):
        self.pids = list(pids)
        self.stopped = []
        self.unconfirmed = 0

    @staticmethod
    def _state(pid):
        try:
            with open("/proc/%d/stat" % pid) as f:
                return f.read().rsplit(")", 1)[1].split()[0]
        except (OSError, IndexError):
            return "X"

    def __enter__(self):
        import signal
        import time
        for pid in self.pids:
            try:
                os.kill(pid, signal.SIGSTOP)
                self.stopped.append(pid)
            except OSError:
                pass
        deadline = time.time() + 2.0
        for pid in self.stopped:
            while self._state(pid) not in ("T", "t", "Z", "X", "x"):
                if time.time() > deadline:
                    self.unconfirmed += 1
                    break
                time.sleep(0.0002)
        return self

    def __exit__(self, *a):
        import signal
        for pid in self.stopped:
            try:
                os.kill(pid, signal.SIGCONT)
            except OSError:
                pass


def gen_mp_history(rng, k, tier):
    """One history whose monitored transactions go through whoosh.multiproc.MpWriter (procs >= 2). k = ordinal of the mp case
    (decides merged / multisegment and commit / cancel, so that every combination occurs whatever the seed)."""
    g = Gen(rng, tier)
    model, fs = {}, set(["id", "t", "n", "k"])
    prelude = []
    for _ in range(rng.randint(1, 3)):
        tx = g.tx(model, fs, commit="nomerge", finish="commit", maxops=2, schema_ops=False, compound=(rng.random() < 0.7))
        tx.pop("limitmb", None)
        tx["ops"] = [o for o in tx["ops"] if o[0] != "add_reader"]
        if not any(o[0] in ("add", "upd") for o in tx["ops"]):
            tx["ops"].append(["add", g.doc(g.newkey(), fs)])
        prelude.append(tx)
        model, fs = model_apply(model, fs, tx)
    ntx = 2 if tier == "quick" else rng.randint(2, 4)
    txs = []
    # first monitored transaction: a convenience method of the index object (FileIndex.optimize / add_field / remove_field
    # open and commit their own writers)
    which = ["optimize", "add_field", "remove_field", "add_field"][k % 4]
    if which == "optimize":
        tx = {"ops": [], "commit": "optimize", "finish": "commit", "compound": rng.random() < 0.5, "front": "ixmethod"}
    elif which == "add_field":
        tx = {"ops": [["add_field", "x-m%d" % k if k % 8 >= 4 else "xm%d" % k, rng.choice(["kw", "text"])]],
              "commit": "default", "finish": "commit", "compound": True, "front": "ixmethod"}
    else:
        tx = {"ops": [["remove_field", "k"]], "commit": "default", "finish": "commit", "compound": True, "front": "ixmethod"}
    txs.append(tx)
    model, fs = model_apply(model, fs, tx)
    for j in range(ntx):
        multiseg = bool((k + j) % 2)
        if j == 0:
            finish = "commit"
        elif j == 1:
            finish = "cancel" if (k // 2) % 2 == 0 else "commit"
        else:
            finish = rng.choice(["commit", "commit", "cancel"])
        ops, touched = [], set()
        for _ in range(rng.randint(3, 4) if tier == "quick" else rng.randint(3, 7)):
            key = g.newkey()
            touched.add(key)
            ops.append(["add", g.doc(key, fs)])
        live = sorted(kk for kk in model if kk not in touched)
        if live and rng.random() < 0.6:
            key = rng.choice(live)
            touched.add(key)
            op = ["del", key] if rng.random() < 0.5 else ["upd", g.doc(key, fs)]
            ops.insert(rng.randrange(len(ops) + 1), op)
        ckind = rng.choice(["default", "nomerge", "nomerge", "optimize"])
        if tier == "quick" and j == 0:
            ckind = "nomerge"       # (keeps the first, guaranteed, transaction of the quick tier small)
        tx = {"ops": ops, "commit": ckind, "finish": finish,
              "compound": ((k // 2 + j) % 2 == 0) if j < 2 else (rng.random() < 0.6), "front": "mp", "multiseg": multiseg,
              "procs": 2 if tier == "quick" else rng.choice([2, 2, 3]), "batch": rng.choice([1, 1, 2])}
        if rng.random() < 0.35:
            tx["limitmb"] = 0.0002          # the sub-writers spill sorted runs into MAIN.tmp/ as well
        txs.append(tx)
        model, fs = model_apply(model, fs, tx)
    return {"theme": "mp", "create_monitored": False, "prelude": prelude, "txs": txs, "genpad": 0}


def run_history(ctx, idx, hist=None):
    from vf.tap import Tap, scratch_root
    from whoosh import index
    rng = ctx.rng(idx)
    if hist is None:
        hist = gen_history(rng, idx, ctx.tier)
    ctx.count("histories")
    ctx.count("theme." + hist["theme"])
    root = tempfile.mkdtemp(prefix="vf-c02-", dir=scratch_root())
    d = os.path.join(root, "ix")
    os.mkdir(d)
    tap = Tap(root=root)
    tap.install()
    tap.pause()
    shapes = []
    nontrivial = False
    sample = None
    try:
        model, fs = {}, set()
        txs = [dict(create=True, ops=[], commit="create", finish="commit", compound=True, front="create")]
        monitored = [hist["create_monitored"]]
        for _ in range(hist.get("genpad", 0)):
            txs.append(dict(ops=[], commit="nomerge", finish="commit", compound=True, front="segment", pad=True))
            monitored.append(False)
        for t in hist["prelude"]:
            txs.append(t)
            monitored.append(False)
        for t in hist["txs"]:
            txs.append(t)
            monitored.append(True)
        kill_budget = ctx.pick(1, 4)
        if hist.get("neighbour"):
            random.seed("c02-neighbour:%d:%d" % (ctx.seed, idx))
            build_neighbour(d, hist["neighbour"], loose=(idx % 16 >= 8))
            ctx.count("neighbour.histories")
            ctx.count("neighbour.histories." + hist["neighbour"])
        for j, tx in enumerate(txs):
            if ctx.expired():
                ctx.truncated = True
                ctx.note("time cap reached inside history %d before transaction %d/%d" % (idx, j, len(txs)))
                break
            new_model, new_fs = model_apply(model, fs, tx)
            random.seed("c02-tx:%d:%d:%d" % (ctx.seed, idx, j))
            if not monitored[j]:
                exec_tx(d, tx)
                model, fs = new_model, new_fs
                continue
            wb = {"history_idx": idx, "theme": hist["theme"], "tx_index": j, "tx": tx,
                  "earlier_txs": txs[1:j], "model_old_keys": sorted(model), "model_new_keys": sorted(new_model)}
            ok, info = run_monitored_tx(ctx, tap, root, d, idx, j, tx, rng, wb, model, new_model, fs, new_fs,
                                        kill_budget)
            if info.get("kills"):
                kill_budget -= info["kills"]
            shapes.append((tx["commit"], tx["finish"], tx["compound"], tx.get("front"),
                           tuple(sorted(set(o[0] for o in tx["ops"]))), info.get("segs_before")))
            if info.get("both"):
                nontrivial = True
            if sample is None and info.get("sample"):
                sample = info["sample"]
            if not ok:
                break
            model, fs = new_model, new_fs
    finally:
        tap.uninstall()
        shutil.rmtree(root, ignore_errors=True)
    ctx.case((hist["theme"], tuple(shapes)), nontrivial, sample)


def run_monitored_tx(ctx, tap, root, d, idx, j, tx, rng, wb, model, new_model, fs, new_fs, kill_budget):
    """Returns (ok, info). ok=False stops the history (first disagreement; later ones would be cascades)."""
    from whoosh import index
    info = {}
    committed = bool(tx.get("create") or tx["finish"] in ("commit", "with") or tx.get("front") == "buffered")
    ctx.count("tx.monitored")
    ctx.count("tx.kind.%s.%s" % (tx["commit"], tx["finish"]))
    ctx.count("tx.front." + str(tx.get("front")))
    ctx.count("tx.compound" if tx["compound"] else "tx.loose")
    # ---- clean reference S_old
    pre = os.path.join(root, "pre")
    if os.path.exists(pre):
        shutil.rmtree(pre)
    shutil.copytree(d, pre)
    refdir = os.path.join(root, "ref")
    shutil.copytree(d, refdir)
    try:
        ref_old = evaluate(refdir, "%d:%d" % (idx, j))
    except EvalFailure as ef:
        if _site(ef.exc) == "harness":
            raise_harness("reference S_old could not be observed", ef)
        # a clean, quiescent index that cannot be dumped / written / re-opened: whoosh's failure, not a crash matter
        ctx.fail("clean-execution", "S_old-unobservable:%s:exc:%s@%s" % (ef.phase, type(ef.exc).__name__,
                                                                          _site(ef.exc)), wb, _tb(ef.exc))
        return False, info
    finally:
        shutil.rmtree(refdir, ignore_errors=True)
    segs_before = None
    if not tx.get("create"):
        _ix0 = index.open_dir(d)
        segs_before = len(_ix0._segments())
        gen_before = _ix0.latest_generation()
        if tx["finish"] in ("commit", "with") or tx.get("front") == "buffered":
            ctx.count("tx.monitored_committing")
            if len(str(gen_before + 1)) > len(str(gen_before)):
                ctx.count("tx.generation_digit_boundary")       # 9 -> 10 or 99 -> 100
                ctx.count("tx.generation_digit_boundary.%d" % (gen_before + 1))
    info["segs_before"] = segs_before
    # model cross-check of S_old
    crosscheck(ctx, "S_old", ref_old, model, fs, wb)
    if ref_old.get("nb_before"):
        ctx.count("neighbour.tx_monitored")
        if len(ref_old["nb_before"]) < 2 or ref_old["nb_before"] != ref_old["nb_after"]:
            ctx.fail("clean-execution", "neighbour-index-unobservable-or-changed-by-a-clean-commit", wb,
                     "; ".join(first_difference(ref_old["nb_before"], ref_old["nb_after"])))
            return False, info
    if tx.get("front") == "ixmethod":
        ctx.count("tx.ixmethod." + (tx["ops"][0][0] if tx["ops"] else "optimize"))
    run = TxRun(ctx, tap, root, d, idx, j, tx, rng, wb)
    run.states.append(comparable(ref_old))
    is_mp = tx.get("front") == "mp"
    if kill_budget > 0 and not tx.get("create") and not is_mp:
        run.kill_prob = ctx.pick(0.004, 0.01)
    rt, guard = None, None
    if is_mp:
        install_fork_hook()
        rt = run.mp = {"phase": "feed", "hook": run.sample}
        guard = _MpGuard(run, rt, MP_TIMEOUT_S)
        ctx.count("mp.tx")
        ctx.count("mp.tx.%s.%s" % ("multisegment" if tx.get("multiseg") else "merged", tx["finish"]))
        ctx.count("mp.tx.%s.%s.%s" % ("multisegment" if tx.get("multiseg") else "merged", tx["finish"],
                                      "compound" if tx["compound"] else "loose"))
    tap.reset_log()
    tap.on_event = run.on_event
    random.seed("c02-tx:%d:%d:%d" % (ctx.seed, idx, j))     # same seed string as the SIGKILL victim uses
    tap.resume()
    try:
        if is_mp:
            with guard:
                exec_tx(d, tx, rt)
        else:
            exec_tx(d, tx)
    except Exception as e:  # noqa - the clean execution itself failed: not a crash-atomicity matter
        tap.pause()
        tap.on_event = None
        from vf.core import HarnessError
        if isinstance(e, HarnessError):
            raise
        if is_mp and rt.get("timed_out"):
            ctx.count("mp.watchdog_fired")
            ctx.note("history %d tx %d: MpWriter transaction: no progress for %d s; sub-writers killed by the harness (%r)" % (
                idx, j, MP_TIMEOUT_S, e))
            return False, info
        site = _site(e)
        ctx.fail("clean-execution", "exc:%s@%s" % (type(e).__name__, site), wb,
                 "".join(traceback.format_exception(type(e), e, e.__traceback__))[-2500:])
        return False, info
    finally:
        tap.pause()
        tap.on_event = None
    if is_mp:
        if rt.get("timed_out"):
            ctx.count("mp.watchdog_fired")
            ctx.note("history %d tx %d: MpWriter transaction: no progress for %d s; sub-writers killed by the harness" % (
                idx, j, MP_TIMEOUT_S))
            return False, info
        ctx.count("mp.tx.completed")
        if rt.get("alive_at_return"):
            # observation only: after cancel() the sub-writer processes are still there (blocked on the job queue)
            ctx.count("mp.obs.subwriters_alive_after_%s" % tx["finish"], rt["alive_at_return"])
    nevents = tap.n
    # final crash point: the process dies after the transaction returned
    run.dirty = True
    run.crash_point(nevents + 1, "end", "")
    ctx.count("tx.events", nevents)
    # ---- clean reference S_new
    refdir = os.path.join(root, "ref")
    shutil.copytree(d, refdir)
    try:
        ref_new = evaluate(refdir, "%d:%d" % (idx, j))
    except EvalFailure as ef:
        ctx.fail("clean-execution", "S_new-unobservable:%s:exc:%s@%s" % (ef.phase, type(ef.exc).__name__,
                                                                          _site(ef.exc)), wb, _tb(ef.exc))
        return False, info
    finally:
        shutil.rmtree(refdir, ignore_errors=True)
    crosscheck(ctx, "S_new", ref_new, new_model, new_fs, wb)
    old_cmp, new_cmp = comparable(ref_old), comparable(ref_new)
    same = (old_cmp == new_cmp)
    if run.ck_failure is not None:
        n_ck, ef = run.ck_failure
        ctx.fail("clean-execution", "state-after-lock-release-unobservable:%s:exc:%s@%s" % (
            ef.phase, type(ef.exc).__name__, _site(ef.exc)), wb, _tb(ef.exc))
        return False, info
    states, bounds = run.states, run.bounds
    if new_cmp != states[-1]:
        # only for transactions that do not end with a lock release (index creation)
        states.append(new_cmp)
        bounds.append(nevents + 1 if not tx.get("create") else nevents)
    info["nstates"] = len(states)
    if not committed:
        ctx.count("reach.cancel_or_exception")
        if not same or len(states) != 1:
            ctx.fail("cancel.state", "cancelled-transaction-changed-state:%s" % tx["finish"], wb,
                     "; ".join(first_difference(old_cmp, new_cmp)))
            return False, info
    else:
        ctx.count("tx.committed")
        ctx.count("tx.commits_inside", len(states) - 1)
        if len(states) > 2:
            ctx.count("tx.multi_commit")
    segs_after = len(index.open_dir(d)._segments())
    if committed and not tx.get("create"):
        added = any(o[0] in ("add", "upd", "add_reader") for o in tx["ops"])
        if tx["commit"] == "default" and segs_after < segs_before + (1 if added else 0):
            ctx.count("reach.merge_small")
        if tx["commit"] == "optimize" and segs_before >= 2:
            ctx.count("reach.optimize_merge")
            if segs_before >= 5:
                ctx.count("reach.optimize_merge_5plus_segments")
        if tx["commit"] == "clear" and segs_before >= 1:
            ctx.count("reach.clear")
        if not tx["compound"] and added:
            ctx.count("reach.loose_commit")
        if tx.get("limitmb"):
            if any(e[2] == "create" and e[3].endswith(".run") for e in tap.events):
                ctx.count("reach.pool_run_files")
        if any(o[0] in ("add_field", "remove_field") for o in tx["ops"]):
            ctx.count("reach.schema_change_commit")
    # ---- verdicts over the crash points, in event order.  Crash point "before event n" lies between the
    # clean states lo = #(lock releases that established a new state before n) and lo+1: only these two are allowed.
    seen = set()
    flips = []          # (state index reached, crash point n) at the first 'full' snapshot showing it
    top_full = 0
    ok = True
    for (n, kind, name, variant, cuts, obs) in run.pending:
        w = dict(wb)
        w.update({"crash_before_event": n, "event_kind": kind, "event_file": norm_name(name), "variant": variant,
                  "open_file_cuts(cut,flushed,total)": dict((norm_name(k), v) for k, v in cuts.items()),
                  "events_in_tx": nevents, "clean_states_in_tx": len(states)})
        where = "%s:%s" % (kind, fileclass(name))
        if isinstance(obs, EvalFailure):
            e = obs.exc
            ctx.fail("crash-state." + phase_monitor(obs.phase),
                     "%s:exc:%s@%s[%s]" % (obs.phase, type(e).__name__, _site(e), variant_class(variant)), w, _tb(e))
            ok = False
            break
        if isinstance(obs, tuple):
            _, m, orphans, leftover = obs
        else:
            c = comparable(obs)
            orphans, leftover = obs["orphans"], obs["leftover"]
            m = None
            for i in range(len(states) - 1, -1, -1):
                if c == states[i]:
                    m = i
                    break
        lo = sum(1 for b in bounds if b < n)
        if m is None:
            c = comparable(obs)
            ref = states[min(lo + 1, len(states) - 1)] if state_gen(c) != state_gen(states[lo]) else states[lo]
            part = "state" if c["state"] != ref["state"] else "after-fresh-commit"
            if c["state"] == ref["state"] and c["after"] == ref["after"]:
                part = "neighbour-index-disturbed" if c["nb_before"] != ref["nb_before"] else \
                    "neighbour-index-disturbed-by-next-commit"
            w["expected"] = "observation identical to the clean state before or after the commit in progress"
            w["observed_vs_nearest_clean_state"] = first_difference(ref, c)
            w["observed_keys"] = keys_of(c["state"])
            w["allowed_keys"] = [keys_of(states[i]["state"]) for i in range(lo, min(lo + 2, len(states)))]
            ctx.fail("crash-state.atomicity", "neither-old-nor-new:%s:before:%s[%s]" % (part, where,
                                                                                          variant_class(variant)), w,
                     "; ".join(w["observed_vs_nearest_clean_state"]))
            ok = False
            break
        if not (lo <= m <= lo + 1):
            w["observed_state_index"] = m
            w["allowed_state_indexes"] = [lo, lo + 1]
            w["observed_keys"] = keys_of(states[m]["state"])
            ctx.fail("crash-state.atomicity", "%s:before:%s[%s]" % (
                "completed-commit-lost" if m < lo else "state-of-a-later-commit", where, variant_class(variant)), w)
            ok = False
            break
        ctx.count("outcome.old" if m == lo else "outcome.new")
        if is_mp:
            ctx.count("mp.outcome.old" if m == lo else "mp.outcome.new")
            if kind.startswith("sample-"):
                ctx.count("mp.outcome.at_sample_points")
        seen.add(m)
        for lf in leftover:
            ctx.count("leftover." + lf.split(":")[0])
        if orphans:
            w["orphans_after_fresh_commit"] = orphans
            ctx.fail("crash-state.orphans", "orphan-segment-file-survives-next-commit:before:%s" % where, w,
                     "files %r belong to no segment of the current TOC" % (orphans,))
            ok = False
            break
        if variant == "full":
            if m > top_full:
                flips.append((m, n))
                top_full = m
            elif m < top_full:
                ctx.count("flip.back_to_old")
    if ok and committed and len(states) > 1:
        if len(seen) == len(states):
            ctx.count("tx.both_outcomes")
            if is_mp:
                ctx.count("mp.tx.both_outcomes")
            info["both"] = True
        else:
            ctx.count("tx.single_outcome")
            ctx.note("history %d tx %d: states observed %r of %d" % (idx, j, sorted(seen), len(states)))
        from vf.tap import MUTATING
        for (m, n) in flips:
            # the event executed just before the first snapshot showing state m
            fl = None
            for ev in tap.events:
                if ev[0] < n and ev[2] in MUTATING:
                    fl = ev
            if fl is None:
                continue
            fk = "%s:%s" % (fl[2], fileclass(fl[3]))
            ctx.count("flip.at." + fk)
            if fl[2] == "rename" and fileclass(fl[3]) == "toc":
                ctx.count("flip.at_toc_rename")
            else:
                ctx.count("flip.other")
                ctx.note("history %d tx %d: flip to state %d at %s" % (idx, j, m, fk))
            if "sample" not in info:
                info["sample"] = {"history": idx, "tx": tx, "events": nevents, "snapshots_evaluated": len(run.pending),
                                  "flip_after_event": [fl[0], fl[2], norm_name(fl[3])],
                                  "old_keys": keys_of(old_cmp["state"]), "new_keys": keys_of(new_cmp["state"])}
    # ---- real SIGKILL cross-validation of sampled crash points
    if ok and run.kill_samples:
        kills = 0
        for ks in run.kill_samples[:kill_budget]:
            kills += 1
            if not validate_real_kill(ctx, root, pre, tx, idx, j, ks, states, bounds, wb):
                ok = False
                break
        info["kills"] = kills
    for ks in run.kill_samples:
        shutil.rmtree(ks["dir"], ignore_errors=True)
    shutil.rmtree(pre, ignore_errors=True)
    return ok, info


MP_TIMEOUT_S = 60


class _MpGuard(object):
    """While one MpWriter transaction runs: (1) a watchdog timer kills the sub-writer processes after MP_TIMEOUT_S (a dead or
    hung child then costs one transaction, which is dropped without a verdict), (2) SubWriterTask.join() - where the parent
    waits, without any storage event of its own, for the sub-writers to finish their segments - polls and calls the
    sample hook between polls."""

    def __init__(self, run, rt, timeout_s):
        self.run, self.rt, self.timeout_s = run, rt, timeout_s

    def _fire(self):
        self.rt["timed_out"] = True
        w = self.rt.get("mpw")
        if w is not None:
            import signal
            for t in list(w.tasks):
                try:
                    os.kill(t.pid, signal.SIGCONT)
                    os.kill(t.pid, signal.SIGKILL)
                except Exception:  # noqa
                    pass

    def __enter__(self):
        import threading
        from whoosh import multiproc
        self.cls = multiproc.SubWriterTask
        self.orig = orig = self.cls.__dict__.get("join")
        base_join = self.cls.join
        run, rt = self.run, self.rt

        def join(task, timeout=None):
            mine = task in list(getattr(rt.get("mpw"), "tasks", ()) or ())      # (not the sub-writers of a recovery writer)
            if timeout is None and mine and not rt.get("timed_out") and not rt.get("in_callback"):
                while run.nsamples.get("join", 0) < 8:
                    base_join(task, 0.003)
                    if task.exitcode is not None:
                        break
                    run.sample("join")
            return base_join(task, timeout)
        self.cls.join = join
        # the guard measures time WITHOUT PROGRESS of the parent (no storage event, no sample point finished for timeout_s
        # seconds): the harness's own snapshot evaluations inside the callbacks are progress, a parent blocked in join() /
        # Queue.get() on a dead or hung sub-writer is not
        import time
        rt["last_progress"] = time.time()
        self.stop = threading.Event()

        def watch():
            while not self.stop.wait(1.0):
                if rt.get("in_callback"):
                    continue
                if time.time() - rt["last_progress"] > self.timeout_s:
                    self._fire()
                    return
        self.timer = threading.Thread(target=watch)
        self.timer.daemon = True
        self.timer.start()
        return self

    def __exit__(self, *a):
        self.stop.set()
        if self.orig is None:
            try:
                del self.cls.join
            except AttributeError:
                pass
        else:
            self.cls.join = self.orig


def keys_of(state):
    if state == ABSENT:
        return ABSENT
    return sorted(state["dump"]["stored"])


def state_gen(c):
    return None if c["state"] == ABSENT else c["state"]["gen"]


def phase_monitor(phase):
    if phase in ("open_dir", "dump+probes", "create_in(after-absent)"):
        return "readable"
    return "writable"


def variant_class(variant):
    return "all-writes" if variant == "full" else "prefix"


def _site(e):
    from vf.core import whoosh_site
    site, in_harness = whoosh_site(e)
    return site or "harness"


def _tb(e):
    return "".join(traceback.format_exception(type(e), e, e.__traceback__))[-2500:]


def raise_harness(msg, ef):
    from vf.core import HarnessError
    raise HarnessError("%s: phase=%s exc=%r\n%s" % (msg, ef.phase, ef.exc, _tb(ef.exc)))


def crosscheck(ctx, label, ref, model, fs, wb):
    """S_old / S_new of the clean run against the independent dict model of the history."""
    ctx.count("model.crosscheck")
    st = ref["state"]
    if st == ABSENT:
        if model or fs:
            ctx.fail("model", "%s-absent-but-model-nonempty" % label, wb)
        return
    got = stored_view(st)
    if got != model:
        w = dict(wb)
        w["expected_model"] = model
        w["observed_stored"] = got
        ctx.fail("model", "%s-differs-from-dict-model" % label, w,
                 "missing=%r unexpected=%r" % (sorted(set(model) - set(got)), sorted(set(got) - set(model))))
    if set(st["schema"]) != set(fs):
        ctx.fail("model", "%s-schema-differs-from-model" % label, wb, "schema %r model %r" % (st["schema"], sorted(fs)))
    if st["probes"]["doc_count"] != len(model):
        ctx.fail("model", "%s-doc_count" % label, wb, "%r vs %d" % (st["probes"]["doc_count"], len(model)))
    exp_alfa = sorted(k for k, v in model.items() if "alfa" in v["t"].split())
    if st["probes"]["alfa"] != exp_alfa:
        ctx.fail("model", "%s-probe-term" % label, wb, "%r vs %r" % (st["probes"]["alfa"], exp_alfa))


# ----------------------------------------------------------------------
# real SIGKILL cross-validation
# ----------------------------------------------------------------------

def validate_real_kill(ctx, root, pre, tx, idx, j, ks, states, bounds, wb):
    """Run the same transaction in a child process on a copy of the pre-transaction directory, SIGKILL it from
    its own tap callback just before event k, then (a) the real crash directory must be one of the modelled
    snapshots of crash point k (closed files byte-identical; open files a stream prefix between flushed and
    total), (b) the monitor must accept it."""
    from vf.core import ROOT, repo_root
    vd = os.path.join(root, "victim")
    if os.path.exists(vd):
        shutil.rmtree(vd)
    shutil.copytree(pre, vd)
    env = dict(os.environ)
    env["PYTHONPATH"] = ROOT + os.pathsep + env.get("PYTHONPATH", "")
    env["PYTHONHASHSEED"] = "0"
    env["VERIF_REPO"] = repo_root()
    seedstr = "c02-tx:%d:%d:%d" % (ctx.seed, idx, j)
    cmd = [sys.executable, "-m", "vf.workers.c02_victim", vd, json.dumps(tx), seedstr, str(ks["n"])]
    ctx.count("realkill.attempts")
    try:
        p = subprocess.run(cmd, cwd=ROOT, env=env, stdout=subprocess.PIPE, stderr=subprocess.STDOUT, timeout=120)
    except subprocess.TimeoutExpired:
        ctx.count("realkill.timeout")
        ctx.note("real-kill child timed out (history %d tx %d event %d)" % (idx, j, ks["n"]))
        return True
    if p.returncode != -9:
        ctx.count("realkill.not_killed")
        ctx.note("real-kill child rc=%s (history %d tx %d event %d): %s" % (
            p.returncode, idx, j, ks["n"], p.stdout.decode("utf-8", "replace")[-300:]))
        return True
    w = dict(wb)
    w.update({"real_sigkill_before_event": ks["n"], "event_kind": ks["kind"], "event_file": norm_name(ks["name"])})
    # (a) containment in the modelled set
    problems = compare_crash_dirs(vd, ks)
    if problems:
        ctx.count("realkill.model_mismatch")
        w["problems"] = problems[:6]
        ctx.fail("harness.crash-model", "real-crash-state-not-in-modelled-set", w, "; ".join(problems[:6]))
        return False
    # (b) the monitor on the real crash state
    try:
        obs = evaluate(vd, "%d:%d" % (idx, j))
    except EvalFailure as ef:
        e = ef.exc
        ctx.fail("crash-state." + phase_monitor(ef.phase), "%s:exc:%s@%s[real-sigkill]" % (
            ef.phase, type(e).__name__, _site(e)), w, _tb(e))
        return False
    c = comparable(obs)
    lo = sum(1 for b in bounds if b < ks["n"])
    allowed = states[lo:lo + 2]
    if c not in allowed:
        ctx.fail("crash-state.atomicity", "neither-old-nor-new:real-sigkill:before:%s:%s" % (
            ks["kind"], fileclass(ks["name"])), w, "; ".join(first_difference(allowed[0], c)))
        return False
    if obs["orphans"]:
        ctx.fail("crash-state.orphans", "orphan-segment-file-survives-next-commit:real-sigkill", w, repr(obs["orphans"]))
        return False
    ctx.count("realkill.traces_validated")
    ctx.count("realkill.outcome." + ("old" if c == allowed[0] else "new"))
    return True


def _tree(d):
    out = {}
    for base, dirs, files in os.walk(d):
        for f in files:
            p = os.path.join(base, f)
            with open(p, "rb") as fh:
                out[norm_name(os.path.relpath(p, d))] = fh.read()
        for dn in dirs:
            out[os.path.relpath(os.path.join(base, dn), d) + "/"] = None
    return out


def compare_crash_dirs(real_dir, ks):
    from vf.tap import FileState
    real = _tree(real_dir)
    model = _tree(ks["dir"])
    openf = dict((norm_name(o["rel"]), o) for o in ks["open"])
    problems = []
    for name in sorted(set(real) | set(model)):
        if name not in real:
            problems.append("missing in real crash dir: %s" % name)
        elif name not in model:
            problems.append("unexpected in real crash dir: %s" % name)
        elif name in openf:
            o = openf[name]
            st = FileState(name, "wb", o["base"])
            st.ops, st.flushed, st.total = o["ops"], o["flushed"], o["total"]
            data = real[name]
            lo, hi = st.flushed, st.total
            if name.endswith(".seg"):
                # the compound directory pickles the mtime of every assembled file: run-dependent bytes, same length
                okp = any(len(st.content(c)) == len(data) for c in _candidate_cuts(st, data, lo, hi))
            else:
                okp = any(st.content(c) == data for c in _candidate_cuts(st, data, lo, hi))
            if not okp:
                problems.append("open file %s: real content (%d bytes) is no stream prefix in [%d,%d] (full=%d bytes)"
                                % (name, len(data), lo, hi, len(st.content(hi))))
        elif name.endswith(".seg") and len(real[name]) == len(model[name]):
            pass        # mtimes inside the compound directory differ between runs
        elif real[name] != model[name]:
            problems.append("closed file %s differs (%d vs %d bytes)" % (
                name, len(real[name] or b""), len(model[name] or b"")))
    return problems


def _candidate_cuts(st, data, lo, hi):
    """Cuts whose content could equal `data`: after the last flush point the stream is one sequential run, so
    the file length determines the cut whenever the run extends the file; fall back to scanning."""
    if hi - lo <= 4096:
        return range(lo, hi + 1)
    full = len(st.content(hi))
    guess = hi - (full - len(data))
    cands = [c for c in (guess - 1, guess, guess + 1, lo, hi) if lo <= c <= hi]
    return cands


# ----------------------------------------------------------------------

def run(ctx):
    # per shard: one multi-process history first (quick) / at positions 0 and 4 (thorough), the single-process histories keep
    # the indices (and therefore the generated content) they had before the multi-process cases existed
    mp_at = (0,) if ctx.quick else (0, 4)
    for idx in ctx.cases(quick=3, thorough=8):
        ctx.reseed_global(idx)
        k = idx // ctx.nshards
        shard = idx % ctx.nshards
        import time
        t0 = time.time()
        if k in mp_at:
            kk = mp_at.index(k) * ctx.nshards + shard
            run_history(ctx, idx, gen_mp_history(ctx.rng(idx, "mp"), kk, ctx.tier))
            ctx.count("wall_ms.mp_histories", int((time.time() - t0) * 1000))      # (evidence only: where the budget went)
        else:
            hk = k - sum(1 for m in mp_at if m < k)
            run_history(ctx, hk * ctx.nshards + shard)
            ctx.count("wall_ms.single_process_histories", int((time.time() - t0) * 1000))
