"""C08 - stored values and column values come back unchanged for the right document.

Monitor shape: reference model = the generated rows / documents themselves.
Layer 1 drives every Column type of whoosh.columns directly (writer.add / finish / reader);
layer 2 drives real indexes (documents with arbitrary subsets of fields, several commits,
merges, deletions, compound/loose segments, mmap on/off, RamStorage, copy_to_ram,
BufferedWriter) and reads back through every documented access path.
"""
import datetime
import decimal
import math
import os
import shutil
import struct
import tempfile

LEVEL = "exploration"
RULE = ("cases are seeded; (a) direct column round trips: (column type+configuration, storage kind, base offset, "
        "row count, sparse ascending docnum set, values around the type's thresholds) -> every row is read back "
        "through reader[i] (random order), iteration, load(), sort_key and compared with the supplied value or "
        "the column default; (b) index histories: a schema drawn from the shipped field types (stored and/or "
        "sortable), documents with random subsets of fields, 1..6 commits with add/update/delete, merge choice, "
        "compound flag, storage kind, writer front-end -> after every commit all live documents are read back "
        "through stored_fields / all_stored_fields / document() / Hit / column_reader (top-level and per leaf). "
        "A case is non-trivial when at least one value was supplied AND at least one row/field was left "
        "unsupplied; distinct = distinct (column configuration, size signature) resp. (schema signature, "
        "history signature, configuration).")
ASSUMPTIONS = [
    "offsets/lengths above 2^31 (VarBytesColumn 'q' retyping is disabled by allow_longs=False and documented as a 2 GB limit) are out of budget: not exercised, not claimed",
    "float columns of typecode 'f' are given float32-representable values only (the column documents 'compact binary', not widening)",
    "-0.0 and 0 compare equal (==), NaN read back as NaN counts as unchanged",
    "a list value supplied to a single-valued sortable field is expected to yield its first element from the column (FieldType.to_bytes/NUMERIC.to_column_value take value[0]); the stored value is the list itself",
    "RefBytesColumn: values beyond 65535 distinct non-default values are documented to be replaced by the default (with a warning); the oracle demands exact read-back for the first 65535 distinct values and value-or-default beyond",
    "column values at deleted document numbers are unconstrained",
    "docnums passed to ColumnWriter.add are strictly ascending and < doccount (how the per-document writer calls it)",
    "a column that never received an add() call is not read (whoosh creates a column file on the first value)",
    "the expected default of a translated (field-level) column reader is field.from_column_value(column default) for NUMERIC/DATETIME, '' for text-like fields, None/[]/False/b'' for the raw COLUMN field types",
]
SHARDS = {"quick": 4, "thorough": 16}
BUDGET_S = {"quick": 75, "thorough": 700}
_FLOORS = {"col.cases": 500, "col.rows.supplied": 30000, "col.rows.default": 9000, "col.reads": 40000,
          "col.refbytes.reftype.H": 25, "col.refbytes.reftype.B": 40, "col.varbytes.stored_offsets": 30,
          "col.varbytes.lentype.i": 5, "col.sortkeys": 15000,
          "idx.cases": 350, "idx.stored.reads": 10000, "idx.stored.absent_checked": 8000,
          "idx.column.reads.supplied": 12000, "idx.column.reads.default": 8000, "idx.column.some_segment_lacks_column": 600,
          "idx.hit.column_fallback": 8000, "idx.hit.absent_checked": 6000, "idx.verifies.multisegment": 400,
          "idx.verifies.with_deletions": 250, "idx.buffered.verifies": 250, "idx.reopen.copy_to_ram": 80,
          "idx.reopen.reopened": 80, "idx.loose": 100, "idx.compound": 150, "idx.frontend.serialmp": 50}
FLOORS = {"quick": _FLOORS,
          "thorough": dict(_FLOORS, **{"col.refbytes.distinct>65535": 12, "col.varbytes.rows>32768": 25,
                                       "col.varbytes.offtype.i": 60})}


def rb(rng, n):
    return bytes(rng.randrange(256) for _ in range(n))


def nfail(ctx):
    return sum(v for k, v in ctx.counters.items() if k.startswith("fail:"))


def same(a, b):
    """== plus NaN-aware comparison (recursively through tuples/lists)."""
    if isinstance(a, float) and isinstance(b, float) and math.isnan(a) and math.isnan(b):
        return True
    if isinstance(a, (list, tuple)) and isinstance(b, (list, tuple)) and type(a) is type(b) and len(a) == len(b):
        return all(same(x, y) for x, y in zip(a, b))
    if isinstance(a, dict) and isinstance(b, dict) and set(a) == set(b):
        return all(same(a[k], b[k]) for k in a)
    try:
        return bool(a == b)
    except Exception:  # noqa
        return False


def same_typed(a, b):
    """same() and the same concrete type at every level (bool is not int, str is not bytes)."""
    if not same(a, b):
        return False
    if type(a) is not type(b):
        return False
    if isinstance(a, (list, tuple)):
        return all(same_typed(x, y) for x, y in zip(a, b))
    if isinstance(a, dict):
        return all(same_typed(a[k], b[k]) for k in a)
    return True


# ----------------------------------------------------------------------
# value generators
# ----------------------------------------------------------------------

WORDS = ["alfa", "bravo", "charlie", "delta", "echo", "foxtrot", "golf", "hotel", "india", "juliet",
         "kilo", "lima", "été", "中文", "\U0001F600smile", "naïve\U00010348", "z"]

INT_RANGE = {"b": (-128, 127), "B": (0, 255), "h": (-2 ** 15, 2 ** 15 - 1), "H": (0, 2 ** 16 - 1),
             "i": (-2 ** 31, 2 ** 31 - 1), "I": (0, 2 ** 32 - 1), "l": (-2 ** 31, 2 ** 31 - 1), "L": (0, 2 ** 32 - 1),
             "q": (-2 ** 63, 2 ** 63 - 1), "Q": (0, 2 ** 64 - 1)}


def f32(x):
    return struct.unpack("!f", struct.pack("!f", x))[0]


def gen_int(rng, lo, hi):
    return rng.choice([lo, hi, 0 if lo <= 0 <= hi else lo, lo + 1, hi - 1, rng.randint(lo, hi), rng.randint(lo, hi),
                       max(lo, min(hi, rng.randint(-300, 300)))])


def gen_float(rng, single=False):
    v = rng.choice([0.0, -0.0, 1.0, -1.5, 1e-30, 3.141592653589793, -2.5e10, float("inf"), float("-inf"),
                    rng.uniform(-1e6, 1e6), rng.uniform(-1, 1), 1.7976931348623157e308, 5e-324])
    if single:
        try:
            v = f32(v)
        except OverflowError:
            v = float("inf")
    return v


def gen_picklable(rng, depth=0):
    k = rng.randrange(16 if depth < 2 else 11)
    if k == 0:
        return rng.choice([0, 1, -1, 2 ** 31, -2 ** 63, 2 ** 64, 10 ** 30])
    if k == 1:
        return gen_float(rng)
    if k == 2:
        return " ".join(rng.choice(WORDS) for _ in range(rng.randint(0, 4)))
    if k == 3:
        return rb(rng, rng.choice([0, 1, 5, 300]))
    if k == 4:
        return rng.choice([True, False])
    if k == 5:
        return decimal.Decimal(rng.choice(["0", "0.05", "-0.05", "123.456", "-1E+20", "1E-20"]))
    if k == 6:
        return rng.choice([datetime.datetime.min, datetime.datetime.max, datetime.datetime(1970, 1, 1),
                           datetime.datetime(2024, 2, 29, 23, 59, 59, 999999), datetime.date(2000, 1, 1)])
    if k == 7:
        return ""
    if k == 8:
        return 0.0
    if k == 9:
        return frozenset(rng.sample(range(10), rng.randint(0, 3)))
    if k == 10:
        return rng.choice([(), [], {}, b""])
    if k == 11:
        return [gen_picklable(rng, depth + 1) for _ in range(rng.randint(0, 3))]
    if k == 12:
        return tuple(gen_picklable(rng, depth + 1) for _ in range(rng.randint(0, 3)))
    if k == 13:
        return {rng.choice(WORDS): gen_picklable(rng, depth + 1) for _ in range(rng.randint(0, 3))}
    if k == 14:
        return {"k": [1, 2.5, "x", b"y", None, (True,)]}
    return complex(1, -2)


# ----------------------------------------------------------------------
# layer 1: column specifications
# ----------------------------------------------------------------------

class Spec(object):
    """One column configuration: how to build it, draw values, and what to expect back."""

    def __init__(self, name, col, default, gen, exp=None, sortkey=None, reversible=False, typed=True,
                 sig=None, limit_default=False):
        self.name = name            # stable mechanism name, e.g. "Numeric(i)"
        self.col = col
        self.default = default      # value expected for rows that were not supplied
        self.gen = gen              # rng -> value to add
        self.exp = exp or (lambda v: v)   # value added -> value expected back
        self.sortkey = sortkey      # expected value -> expected sort_key (None: not checked)
        self.reversible = reversible
        self.typed = typed          # also compare concrete types
        self.sig = sig if sig is not None else name


def spec_varbytes(rng, ctx, big=False):
    from whoosh import columns
    allow = rng.random() < 0.8
    cutoff = rng.choice([0, 1, 5, 2 ** 15])
    lens = rng.choice([(0, 1, 3), (0, 1, 3, 17), (0, 17, 255, 256, 257), (1, 300, 900), (0, 3, 66000)])
    col = columns.VarBytesColumn(allow_offsets=allow, write_offsets_cutoff=cutoff)
    heavy = [0]

    def gen(r):
        n = r.choice(lens)
        if n > 60000:
            heavy[0] += 1
            if heavy[0] > 3:
                n = 3
        return rb(r, n) if n < 2000 else (rb(r, 16) * (n // 16 + 1))[:n]
    return Spec("VarBytes", col, b"", gen, sortkey=lambda v: v,
                sig=("VarBytes", allow, cutoff, lens))


def spec_fixedbytes(rng, ctx):
    from whoosh import columns
    n = rng.choice([1, 2, 4, 9])
    default = None if rng.random() < 0.5 else rb(rng, n)
    col = columns.FixedBytesColumn(n, default=default)
    dflt = default if default is not None else b"\x00" * n

    def gen(r):
        return r.choice([rb(r, n), rb(r, n), dflt, b"\x00" * n, b"\xff" * n])
    return Spec("FixedBytes", col, dflt, gen, sortkey=lambda v: v, sig=("FixedBytes", n, default is None))


def spec_refbytes(rng, ctx, distinct=None):
    from whoosh import columns
    fixedlen = rng.choice([0, 0, 2, 3])
    if distinct is None:
        distinct = rng.choice([1, 3, 10, 40, 253, 254, 255, 256, 257, 258, 300])
    if fixedlen:
        default = None if rng.random() < 0.5 else rb(rng, fixedlen)
        dflt = default if default is not None else b"\x00" * fixedlen
    else:
        default = None if rng.random() < 0.5 else rb(rng, rng.choice([0, 1, 4]))
        dflt = default if default is not None else b""
    col = columns.RefBytesColumn(fixedlen, default=default)
    pool = []
    seen = set([dflt])
    k = 0
    while len(pool) < distinct:
        k += 1
        if fixedlen:
            v = struct.pack("!I", k)[-fixedlen:] if fixedlen >= 3 or k < 65536 else rb(rng, fixedlen)
            if fixedlen == 2 and k >= 65536:
                break
        else:
            v = b"v%d" % k if rng.random() < 0.9 else rb(rng, rng.choice([1, 2, 5])) + b"%d" % k
        if v not in seen:
            seen.add(v)
            pool.append(v)
    state = {"i": 0}

    def gen(r):
        # walk through the whole pool first (so that the number of distinct values is reached), then repeat
        i = state["i"]
        state["i"] += 1
        if i < len(pool):
            return pool[i]
        return r.choice([r.choice(pool), dflt]) if pool else dflt
    sp = Spec("RefBytes", col, dflt, gen, sortkey=lambda v: v, sig=("RefBytes", fixedlen, default is None, distinct))
    sp.pool_size = len(pool)
    return sp


def spec_numeric(rng, ctx):
    from whoosh import columns
    tc = rng.choice("bBhHiIlLqQfd")
    if tc in "fd":
        single = tc == "f"
        default = rng.choice([0, 0, float("nan"), -1.5, float("inf"), 2.0])
        col = columns.NumericColumn(tc, default=default)
        return Spec("Numeric(%s)" % tc, col, default, lambda r: r.choice([gen_float(r, single), default]),
                    exp=float, sortkey=lambda v: v, reversible=True, typed=False,
                    sig=("Numeric", tc, repr(default)))
    lo, hi = INT_RANGE[tc]
    default = rng.choice([0 if lo <= 0 else lo, 0 if lo <= 0 else lo, lo, hi, gen_int(rng, lo, hi)])
    col = columns.NumericColumn(tc, default=default) if (default or rng.random() < 0.5) else columns.NumericColumn(tc)
    return Spec("Numeric(%s)" % tc, col, default, lambda r: r.choice([gen_int(r, lo, hi), default]),
                sortkey=lambda v: v, reversible=True,
                sig=("Numeric", tc, "lo" if default == lo else "hi" if default == hi else "0" if not default else "x"))


def spec_bit(rng, ctx):
    from whoosh import columns
    ca = rng.choice([0, 2, 2048])
    col = columns.BitColumn(compress_at=ca) if ca != 2048 or rng.random() < 0.5 else columns.BitColumn()
    p = rng.choice([0.1, 0.5, 0.9])
    return Spec("Bit", col, False, lambda r: r.random() < p, sortkey=lambda v: int(v), reversible=True,
                sig=("Bit", ca))


def spec_compressed(rng, ctx):
    from whoosh import columns
    level = rng.choice([1, 3, 9])
    col = columns.CompressedBytesColumn(level=level) if rng.random() < 0.7 else columns.CompressedBytesColumn()
    lens = rng.choice([(0, 1, 3), (0, 17, 255, 256, 257), (1, 300, 900)])
    return Spec("CompressedBytes", col, b"", lambda r: rb(r, r.choice(lens)) if r.random() < 0.7 else b"ab" * r.choice(lens),
                sortkey=lambda v: v, sig=("CompressedBytes", lens))


def spec_compressedblock(rng, ctx):
    from whoosh import columns
    bs = rng.choice([1, 1, 32])
    col = columns.CompressedBlockColumn(blocksize=bs)
    lens = rng.choice([(0, 1, 3), (0, 17, 255, 256), (100, 300, 900)])
    return Spec("CompressedBlock", col, b"", lambda r: rb(r, r.choice(lens)), sortkey=lambda v: v,
                sig=("CompressedBlock", bs, lens))


def spec_struct(rng, ctx):
    from whoosh import columns
    fmt, default, gen = rng.choice([
        ("!i", (7,), lambda r: (gen_int(r, -2 ** 31, 2 ** 31 - 1),)),
        ("<hH", (0, 0), lambda r: (gen_int(r, -2 ** 15, 2 ** 15 - 1), gen_int(r, 0, 65535))),
        ("!dB", (0.5, 255), lambda r: (gen_float(r), gen_int(r, 0, 255))),
        (">qb3s", (-1, -1, b"abc"), lambda r: (gen_int(r, -2 ** 63, 2 ** 63 - 1), gen_int(r, -128, 127), rb(r, 3))),
    ])
    col = columns.StructColumn(fmt, default)
    return Spec("Struct", col, default, lambda r: r.choice([gen(r), gen(r), default]), sortkey=lambda v: v,
                sig=("Struct", fmt))


def spec_pickle(rng, ctx):
    from whoosh import columns
    child = rng.choice(["VarBytes", "CompressedBytes"])
    col = columns.PickleColumn(columns.VarBytesColumn() if child == "VarBytes" else columns.CompressedBytesColumn())
    return Spec("Pickle(%s)" % child, col, None, lambda r: gen_picklable(r) if r.random() < 0.9 else None,
                sig=("Pickle", child))


def spec_varbyteslist(rng, ctx):
    from whoosh import columns
    col = columns.VarBytesListColumn()
    return Spec("VarBytesList", col, [], lambda r: [rb(r, r.choice([0, 1, 3, 130, 300])) for _ in range(r.choice([0, 1, 1, 2, 5, 130]))],
                sortkey=lambda v: v[0] if v else None, sig=("VarBytesList",))


def spec_fixedbyteslist(rng, ctx):
    from whoosh import columns
    n = rng.choice([1, 2, 7])
    col = columns.FixedBytesListColumn(n)
    return Spec("FixedBytesList", col, [], lambda r: [rb(r, n) for _ in range(r.choice([0, 1, 1, 2, 5, 40]))],
                sortkey=lambda v: v[0] if v else None, sig=("FixedBytesList", n))


def spec_clamped(rng, ctx):
    from whoosh import columns
    tc = rng.choice("BHiIqQ")
    lo, hi = INT_RANGE[tc]
    col = columns.ClampedNumericColumn(columns.NumericColumn(tc))

    def gen(r):
        return r.choice([gen_int(r, lo, hi), gen_int(r, lo, hi), lo - 1, hi + 1, lo - r.randint(1, 10 ** 6), hi + r.randint(1, 10 ** 6)])
    return Spec("ClampedNumeric(%s)" % tc, col, 0, gen, exp=lambda v: max(lo, min(hi, v)), sortkey=lambda v: v,
                sig=("ClampedNumeric", tc))


SPECS = [(spec_varbytes, 4), (spec_fixedbytes, 2), (spec_refbytes, 4), (spec_numeric, 6), (spec_bit, 2),
         (spec_compressed, 2), (spec_compressedblock, 1), (spec_struct, 2), (spec_pickle, 3),
         (spec_varbyteslist, 1), (spec_fixedbyteslist, 1), (spec_clamped, 1)]


class Env(object):
    """A storage to write one column file into and read it back from."""

    def __init__(self, rng, kinds=("ram", "file", "mmap")):
        from whoosh.filedb.filestore import RamStorage, FileStorage
        self.kind = rng.choice(kinds)
        self.dir = None
        if self.kind == "ram":
            self.st = RamStorage()
        else:
            self.dir = tempfile.mkdtemp(prefix="vf-c08-")
            self.st = FileStorage(self.dir, supports_mmap=(self.kind == "mmap"))

    def close(self):
        try:
            self.st.close()
        except Exception:  # noqa
            pass
        if self.dir:
            shutil.rmtree(self.dir, ignore_errors=True)


def column_case(ctx, rng, big=None):
    bag = []
    for fn, wt in SPECS:
        bag += [fn] * wt
    if big == "ref65536":
        sp = spec_refbytes(rng, ctx, distinct=rng.choice([65534, 65535, 65536, 65537]))
        n = sp.pool_size + rng.choice([0, 1, 50])
        density = 1.0
    elif big == "var32768":
        sp = spec_varbytes(rng, ctx)
        n = rng.choice([2 ** 15 - 1, 2 ** 15, 2 ** 15 + 1, 2 ** 15 + 700, 2 ** 16 + 5])
        density = rng.choice([0.5, 0.95])
    else:
        sp = rng.choice(bag)(rng, ctx)
        n = rng.choice([1, 2, 3, 8, 9, 33, 70, 300])
        if sp.name == "RefBytes":
            n = max(n, sp.pool_size + rng.choice([0, 1, 20]))
        density = rng.choice([0.1, 0.5, 0.9, 1.0])
    pre = rng.choice([0, 0, 0, 0, 7])
    env = Env(rng)
    rows = {}
    docnums = [i for i in range(n) if rng.random() < density]
    if not docnums:
        docnums = [rng.randrange(n)]
    if sp.name == "RefBytes" and len(docnums) < sp.pool_size:
        docnums = list(range(n))
    w = {"layer": "column", "column": sp.name, "config": sp.sig, "storage": env.kind, "basepos": pre,
         "doccount": n, "supplied": len(docnums)}
    mechsfx = "" if pre == 0 else "@basepos>0"
    ctx.count("col.cases")
    ctx.count("col.type.%s" % sp.name.split("(")[0])
    ctx.count("col.storage.%s" % env.kind)
    nf0 = nfail(ctx)
    try:
        def write():
            import warnings
            f = env.st.create_file("c.col")
            f.write(b"P" * pre)
            cw = sp.col.writer(f)
            with warnings.catch_warnings():
                warnings.simplefilter("ignore")
                for dn in docnums:
                    v = sp.gen(rng)
                    rows[dn] = v
                    cw.add(dn, v)
                cw.finish(n)
            f.close()
        ok, _ = ctx.guard("col.write", w, write)
        if not ok:
            return ("col", sp.sig, "write-failed"), False, w
        # expected rows
        expected = []
        soft = set()
        if sp.name == "RefBytes":
            # rank of first occurrence among non-default values; beyond 65535 the value may be dropped
            rank = {}
            for dn in docnums:
                v = rows[dn]
                if v != sp.default and v not in rank:
                    rank[v] = len(rank) + 1
            for dn in docnums:
                if rows[dn] in rank and rank[rows[dn]] > 65535:
                    soft.add(dn)
            ctx.count("col.refbytes.distinct>255" if len(rank) > 255 else "col.refbytes.distinct<=255")
            if len(rank) > 65535:
                ctx.count("col.refbytes.distinct>65535")
            w["distinct_nondefault"] = len(rank)
        for i in range(n):
            expected.append(sp.exp(rows[i]) if i in rows else sp.default)
        ctx.count("col.rows.supplied", len(rows))
        ctx.count("col.rows.default", n - len(rows))
        eq = same_typed if sp.typed else same

        def mismatch(api, i, got):
            if i in soft and same(got, sp.default):
                return False
            if eq(got, expected[i]):
                return False
            kind = "unsupplied-row" if i not in rows else "supplied-row"
            ctx.fail("col.read", "%s.%s:%s%s" % (sp.name, api, kind, mechsfx),
                     dict(w, row=i, supplied_rows_near=[d for d in docnums if abs(d - i) <= 2]),
                     "row %d: got %r expected %r" % (i, _short(got), _short(expected[i])))
            return True

        def open_reader():
            f = env.st.open_file("c.col")
            length = env.st.file_length("c.col") - pre
            return sp.col.reader(f, pre, length, n)

        def read():
            r = open_reader()
            if sp.name == "VarBytes":
                ctx.count("col.varbytes.stored_offsets" if r.had_stored_offsets else "col.varbytes.derived_offsets")
                ctx.count("col.varbytes.lentype.%s" % r._lengths.typecode)
                if n > 2 ** 15:
                    ctx.count("col.varbytes.rows>32768")
                if r.had_stored_offsets:
                    ctx.count("col.varbytes.offtype.%s" % r._offsets.typecode)
            if sp.name == "RefBytes":
                ctx.count("col.refbytes.reftype.%s" % r._typecode)
            if len(r) != n:
                ctx.fail("col.read", "%s.len%s" % (sp.name, mechsfx), w, "len %r expected %d" % (len(r), n))
            order = list(range(n))
            if n > 2000:
                order = sorted(set(rng.sample(range(n), 600) + docnums[:200] + docnums[-200:] + list(range(n - 50, n))))
            rng.shuffle(order)
            for i in order:
                ctx.count("col.reads")
                if mismatch("getitem", i, r[i]):
                    return
            # iteration
            got = list(r)
            ctx.count("col.iters")
            if len(got) != n:
                ctx.fail("col.read", "%s.iter:length%s" % (sp.name, mechsfx), w, "iter yielded %d rows expected %d" % (len(got), n))
                return
            for i in range(n):
                if mismatch("iter", i, got[i]):
                    return
            # load()
            r2 = open_reader()
            ld = r2.load()
            ctx.count("col.loads")
            for i in order[:300]:
                if mismatch("load", i, ld[i]):
                    return
            # sort_key
            if sp.sortkey is not None:
                r3 = open_reader()
                for i in order[:100]:
                    ek = sp.sortkey(expected[i])
                    if ek is None or i in soft:
                        continue
                    k = r3.sort_key(i)
                    ctx.count("col.sortkeys")
                    if not same(k, ek):
                        ctx.fail("col.read", "%s.sort_key%s" % (sp.name, mechsfx), dict(w, row=i), "got %r expected %r" % (_short(k), _short(ek)))
                        return
                if sp.reversible:
                    r4 = open_reader()
                    r4.set_reverse()
                    for i in order[:60]:
                        ek = sp.sortkey(expected[i])
                        k = r4.sort_key(i)
                        ek = (1 - ek) if sp.name == "Bit" else (0 - ek)
                        ctx.count("col.sortkeys.reversed")
                        if not same(k, ek):
                            ctx.fail("col.read", "%s.sort_key(reversed)%s" % (sp.name, mechsfx), dict(w, row=i), "got %r expected %r" % (k, ek))
                            return
            # the default the column advertises (used for segments that lack the column file)
            dv = sp.col.default_value()
            ctx.count("col.default_value")
            if not same(dv, sp.default):
                ctx.fail("col.read", "%s.default_value" % sp.name, w, "default_value() %r, unsupplied rows read %r" % (dv, sp.default))
        ctx.guard("col.read", w, read)
    finally:
        env.close()
    nontrivial = len(rows) > 0 and len(rows) < n
    return ("col", sp.sig, env.kind, pre, n if n < 10 else (n // 50) * 50 + 10, len(docnums) == n), nontrivial, w


def _short(x):
    r = repr(x)
    return r if len(r) < 200 else r[:200] + "...(%d chars)" % len(r)


# ----------------------------------------------------------------------
# layer 2: real indexes
# ----------------------------------------------------------------------

def gen_text(rng, allow_list=True):
    if allow_list and rng.random() < 0.12:
        return [gen_text(rng, False) for _ in range(rng.randint(1, 3))]
    return " ".join(rng.choice(WORDS) for _ in range(rng.choice([0, 1, 1, 2, 3, 6])))


def first(v):
    return v[0] if isinstance(v, (list, tuple)) else v


class FSpec(object):
    """One schema field: constructor, value generator, what its stored value / column value must read back as."""

    def __init__(self, kind, make, gen, stored, col=None, col_exp=None, free_override=False, typed_col=True):
        self.kind = kind              # stable name used in mechanism keys, e.g. "NUMERIC(int32,signed)"
        self.make = make              # () -> FieldType
        self.gen = gen                # rng -> value for add_document
        self.stored = stored
        self.col = col                # None or a short column description (has a column)
        self.col_exp = col_exp or (lambda v: first(v))
        self.free_override = free_override   # _stored_<f> may be any picklable (stored only, no column, not analysed)
        self.typed_col = typed_col
        self.name = None
        self.field = None


def text_col(rng):
    from whoosh import columns
    k = rng.choice(["True", "True", "VarBytes", "RefBytes", "CompressedBytes", "CompressedBlock"])
    if k == "True":
        return True, "default"
    if k == "VarBytes":
        return columns.VarBytesColumn(write_offsets_cutoff=rng.choice([0, 2, 2 ** 15])), k
    if k == "RefBytes":
        return columns.RefBytesColumn(), k
    if k == "CompressedBytes":
        return columns.CompressedBytesColumn(), k
    return columns.CompressedBlockColumn(blocksize=1), k


def gen_fspec(rng, flags):
    from whoosh import fields, columns
    kind = rng.choice(["TEXT", "TEXT", "KEYWORD", "ID", "NUMERIC", "NUMERIC", "NUMERIC", "FLOAT", "DECIMAL", "DATETIME",
                       "BOOLEAN", "STORED", "NGRAM", "NGRAMWORDS", "IDLIST", "COLUMN", "COLUMN"])
    stored = rng.random() < 0.6
    sortable = rng.random() < 0.6
    if kind == "TEXT":
        sc, cname = text_col(rng) if sortable else (False, None)
        vec = rng.random() < 0.2
        return FSpec("TEXT", lambda: fields.TEXT(stored=stored, sortable=sc, vector=vec or None), gen_text, stored, cname,
                     free_override=False)
    if kind == "KEYWORD":
        commas, lower = rng.random() < 0.3, rng.random() < 0.3
        return FSpec("KEYWORD", lambda: fields.KEYWORD(stored=stored, sortable=sortable, commas=commas, lowercase=lower),
                     lambda r: (",".join(first(gen_text(r, False)).split()) if commas else gen_text(r)), stored,
                     "default" if sortable else None)
    if kind == "ID":
        sc, cname = text_col(rng) if sortable else (False, None)
        return FSpec("ID", lambda: fields.ID(stored=stored, sortable=sc),
                     lambda r: r.choice([r.choice(WORDS), "id-%d" % r.randrange(1000), gen_text(r, False), [r.choice(WORDS), "x"]]),
                     stored, cname)
    if kind == "NUMERIC":
        bits = rng.choice([8, 16, 32, 64])
        signed = rng.random() < 0.7
        lo, hi = (-2 ** (bits - 1), 2 ** (bits - 1) - 1) if signed else (0, 2 ** bits - 1)

        def gen(r):
            if r.random() < 0.1:
                return [gen_int(r, lo, hi) for _ in range(r.randint(1, 3))]
            return gen_int(r, lo, hi)
        return FSpec("NUMERIC(int%d,%s)" % (bits, "signed" if signed else "unsigned"),
                     lambda: fields.NUMERIC(int, bits, stored=stored, signed=signed, sortable=sortable), gen, stored,
                     "Numeric" if sortable else None)
    if kind == "FLOAT":
        signed = rng.random() < 0.8

        def gen(r):
            v = r.choice([0.0, 1.0, 1.5, 1e-30, 3.141592653589793, 2.5e10, r.uniform(0, 1e6), 1.7976931348623157e308, 5e-324])
            return -v if signed and r.random() < 0.5 else v
        return FSpec("NUMERIC(float,%s)" % ("signed" if signed else "unsigned"),
                     lambda: fields.NUMERIC(float, stored=stored, signed=signed, sortable=sortable), gen, stored,
                     "Numeric" if sortable else None)
    if kind == "DECIMAL":
        dp = rng.choice([1, 2, 4])
        bits = rng.choice([32, 64])
        lim = (2 ** (bits - 1) - 1) // (10 ** dp)

        def gen(r):
            q = decimal.Decimal(1).scaleb(-dp)
            v = r.choice([decimal.Decimal(0), q, -q, q * 5, -q * 5, decimal.Decimal(lim), decimal.Decimal(-lim),
                          decimal.Decimal(r.randint(-lim * 10 ** dp, lim * 10 ** dp)).scaleb(-dp)])
            return v
        return FSpec("NUMERIC(decimal%d)" % bits,
                     lambda: fields.NUMERIC(int, bits, decimal_places=dp, stored=stored, sortable=sortable), gen, stored,
                     "Numeric" if sortable else None, col_exp=lambda v: first(v))
    if kind == "DATETIME":
        if not flags["datetime_col"]:
            sortable_dt = False
        else:
            sortable_dt = sortable

        def gen(r):
            return r.choice([datetime.datetime.min, datetime.datetime.max, datetime.datetime(1970, 1, 1),
                             datetime.datetime(2024, 2, 29, 23, 59, 59, 999999), datetime.datetime(1, 1, 1, 0, 0, 0, 1),
                             datetime.datetime(r.randint(1, 9999), r.randint(1, 12), r.randint(1, 28), r.randint(0, 23),
                                               r.randint(0, 59), r.randint(0, 59), r.randint(0, 999999))])
        return FSpec("DATETIME", lambda: fields.DATETIME(stored=stored, sortable=sortable_dt), gen, stored,
                     "Numeric" if sortable_dt else None)
    if kind == "BOOLEAN":
        return FSpec("BOOLEAN", lambda: fields.BOOLEAN(stored=True), lambda r: r.random() < 0.5, True)
    if kind == "STORED":
        def gen(r):
            v = gen_picklable(r)
            return v if v is not None else 0
        return FSpec("STORED", lambda: fields.STORED(), gen, True, free_override=True)
    if kind == "NGRAM":
        return FSpec("NGRAM", lambda: fields.NGRAM(minsize=2, maxsize=3, stored=stored, sortable=sortable),
                     lambda r: first(gen_text(r, False)), stored, "default" if sortable else None)
    if kind == "NGRAMWORDS":
        return FSpec("NGRAMWORDS", lambda: fields.NGRAMWORDS(minsize=2, maxsize=3, stored=stored, sortable=sortable),
                     lambda r: first(gen_text(r, False)), stored, "default" if sortable else None)
    if kind == "IDLIST":
        return FSpec("IDLIST", lambda: fields.IDLIST(stored=True), lambda r: r.choice([gen_text(r, False), [r.choice(WORDS), "q"]]),
                     True)
    # COLUMN(any column type)
    bag = []
    for fn, wt in SPECS:
        bag += [fn] * wt
    sp = rng.choice(bag)(rng, None)
    if sp.name == "RefBytes":
        sp = spec_refbytes(rng, None, distinct=rng.choice([1, 3, 10]))

    def gen(r):
        v = sp.gen(r)
        return v

    def col_exp(v):
        return sp.exp(v)
    fs = FSpec("COLUMN(%s)" % sp.name, lambda: fields.COLUMN(sp.col), gen, False, sp.name, col_exp=col_exp,
               typed_col=sp.typed)
    fs.raw_default = sp.default
    return fs


def _flags():
    """Which value types are usable in this tree (defects located in files owned by another property)."""
    return {"datetime_col": DATETIME_COLUMNS}


# DATETIME(sortable=True): on the pinned tree the column default (2**64-1 microseconds) could not be decoded
# (OverflowError in fields.py, owned by C13, fixed there as "DATETIME(sortable=True) raised OverflowError reading the
# column value of a document without a date"). Set to False to keep DATETIME columns out of the generator on a tree
# that lacks that fix (stored DATETIME values are exercised either way).
DATETIME_COLUMNS = True


class Model(object):
    def __init__(self):
        self.docs = {}       # key -> {"fields": {name: value}, "over": {name: value}}
        self.order = []

    def expected_stored(self, key, fspecs):
        d = self.docs[key]
        out = {"id": key}
        for fs in fspecs:
            if fs.name in d["fields"] and fs.stored:
                v = d["over"].get(fs.name, d["fields"][fs.name])
                if v is not None:
                    out[fs.name] = v
        return out

    def expected_column(self, key, fs):
        """(supplied?, expected translated value)"""
        d = self.docs[key]
        if fs.name in d["fields"]:
            v = d["over"].get(fs.name, d["fields"][fs.name])
            if v is not None:
                return True, fs.col_exp(v)
        return False, fs.col_default


def gen_doc(rng, key, fspecs):
    fields_, over = {}, {}
    for fs in fspecs:
        if rng.random() < 0.6:
            v = fs.gen(rng)
            if v is None:
                continue
            fields_[fs.name] = v
            if (fs.stored or fs.col) and rng.random() < 0.12:
                over[fs.name] = gen_picklable(rng) if (fs.free_override and rng.random() < 0.7) else fs.gen(rng)
                if over[fs.name] is None:
                    del over[fs.name]
    return {"fields": fields_, "over": over}


def doc_kwargs(key, d):
    kw = {"id": key}
    kw.update(d["fields"])
    for k, v in d["over"].items():
        kw["_stored_" + k] = v
    return kw


def verify(ctx, w, searcher, model, fspecs, where, sample_rng):
    """Compare every documented read path of `searcher` with the model. Returns False after the first disagreement."""
    from whoosh import query
    reader = searcher.reader()
    multi = "multi" if not reader.is_atomic() else "atomic"
    nf0 = nfail(ctx)

    def bad(path, fs, detail, **extra):
        kind = fs.kind if fs is not None else "-"
        col = (":col=%s" % fs.col) if (fs is not None and fs.col and "column" in path or path.startswith("Hit[")) and fs is not None and fs.col else ""
        ctx.fail("idx.read", "%s[%s]:%s%s" % (path, multi, kind, col), dict(w, where=where, **extra), detail)
        return False

    docnums = list(reader.all_doc_ids())
    ctx.count("idx.verifies")
    if len(docnums) != len(model.docs) or reader.doc_count() != len(model.docs):
        return bad("doc_count", None, "all_doc_ids=%d doc_count=%d model=%d" % (len(docnums), reader.doc_count(), len(model.docs)))
    key_of = {}
    # stored_fields by docnum (searcher and reader)
    for dn in docnums:
        sf = searcher.stored_fields(dn)
        ctx.count("idx.stored.reads")
        key = sf.get("id")
        if key not in model.docs or key in key_of.values():
            return bad("stored_fields", None, "doc %d has unknown or duplicate key %r" % (dn, key), docnum=dn)
        key_of[dn] = key
        exp = model.expected_stored(key, fspecs)
        if not same_typed(sf, exp):
            f = _first_diff(sf, exp)
            fs = next((x for x in fspecs if x.name == f), None)
            return bad("stored_fields", fs, "doc %s field %s: got %s expected %s" % (key, f, _short(sf.get(f, "<absent>")), _short(exp.get(f, "<absent>"))),
                       doc=key, field=f)
        ctx.count("idx.stored.absent_checked", sum(1 for fs in fspecs if fs.stored and fs.name not in exp))
    if set(key_of.values()) != set(model.docs):
        return bad("stored_fields", None, "live keys differ from model")
    # all_stored_fields
    asf = list(reader.all_stored_fields())
    ctx.count("idx.all_stored_fields")
    if len(asf) != len(docnums):
        return bad("all_stored_fields", None, "yielded %d dicts for %d live docs" % (len(asf), len(docnums)))
    for dn, sf in zip(docnums, asf):
        if not same_typed(sf, model.expected_stored(key_of[dn], fspecs)):
            return bad("all_stored_fields", None, "entry for doc %s differs: %s" % (key_of[dn], _short(sf)), doc=key_of[dn])
    # iter_docs
    for dn, sf in reader.iter_docs():
        if dn not in key_of or not same_typed(sf, model.expected_stored(key_of[dn], fspecs)):
            return bad("iter_docs", None, "entry (%d, %s) differs" % (dn, _short(sf)))
    # columns: top-level reader and per leaf
    colfs = [fs for fs in fspecs if fs.col]
    leaves = list(reader.leaf_readers())
    for fs in colfs:
        has = [bool(lr.has_column(fs.name)) for lr, _ in leaves]
        if any(has) and not all(has):
            ctx.count("idx.column.some_segment_lacks_column")
        if len(leaves) > 1:
            ctx.count("idx.column.multi_readers")

        def colbody():
            cr = reader.column_reader(fs.name)
            for dn in docnums:
                supplied, exp = model.expected_column(key_of[dn], fs)
                got = cr[dn]
                ctx.count("idx.column.reads.supplied" if supplied else "idx.column.reads.default")
                eq = same_typed if (fs.typed_col and supplied) else same
                if not eq(got, exp):
                    return bad("column_reader", fs, "doc %s (docnum %d, %s): got %s expected %s" % (
                        key_of[dn], dn, "supplied" if supplied else "not supplied", _short(got), _short(exp)),
                        doc=key_of[dn], field=fs.name, segments_having_column=has)
            if len(cr) != reader.doc_count_all():
                return bad("column_reader.len", fs, "len(column reader)=%d, doc_count_all=%d" % (len(cr), reader.doc_count_all()),
                           field=fs.name, segments_having_column=has)
            # iteration covers deleted rows too: compare the live positions
            allv = list(cr)
            ctx.count("idx.column.iters")
            if len(allv) != reader.doc_count_all():
                return bad("column_reader.iter", fs, "iter yielded %d rows, doc_count_all=%d" % (len(allv), reader.doc_count_all()),
                           field=fs.name, segments_having_column=has)
            for dn in docnums:
                supplied, exp = model.expected_column(key_of[dn], fs)
                if not same(allv[dn], exp):
                    return bad("column_reader.iter", fs, "row %d: got %s expected %s" % (dn, _short(allv[dn]), _short(exp)), field=fs.name)
            for lr, base in leaves:
                lcr = lr.column_reader(fs.name)
                for ldn in lr.all_doc_ids():
                    supplied, exp = model.expected_column(key_of[base + ldn], fs)
                    ctx.count("idx.column.leaf_reads")
                    if not same(lcr[ldn], exp):
                        return bad("leaf.column_reader", fs, "doc %s: got %s expected %s" % (key_of[base + ldn], _short(lcr[ldn]), _short(exp)),
                                   doc=key_of[base + ldn], field=fs.name)
            return True
        ok, res = ctx.guard("idx.read", dict(w, where=where, path="column_reader[%s]" % multi, field=fs.name, fieldkind=fs.kind,
                                             column=fs.col, segments_having_column=has), colbody)
        if not ok or res is False:
            return False
    # Hits
    keys = sorted(model.docs)
    sample = keys if len(keys) <= 6 else sample_rng.sample(keys, 6)
    for key in sample:
        r = searcher.search(query.Term("id", key), limit=3)
        ctx.count("idx.hit.searches")
        if len(r) != 1:
            return bad("search(Term(id))", None, "%d hits for key %s" % (len(r), key), doc=key)
        hit = r[0]
        exp = model.expected_stored(key, fspecs)
        if not same_typed(hit.fields(), exp):
            return bad("Hit.fields", None, "doc %s: %s expected %s" % (key, _short(hit.fields()), _short(exp)), doc=key)
        d = searcher.document(id=key)
        if not same_typed(d, exp):
            return bad("Searcher.document", None, "doc %s: %s expected %s" % (key, _short(d), _short(exp)), doc=key)
        for fs in fspecs:
            ctx.count("idx.hit.getitem")
            try:
                got = hit[fs.name]
                raised = False
            except KeyError:
                raised = True
            if fs.name in exp:
                if raised or not same_typed(got, exp[fs.name]):
                    return bad("Hit[stored]", fs, "doc %s field %s: %s expected %s" % (key, fs.name, "KeyError" if raised else _short(got), _short(exp[fs.name])), doc=key, field=fs.name)
            elif fs.col:
                supplied, cexp = model.expected_column(key, fs)
                if raised:
                    # has_column() is false when no segment holds a column file for the field
                    if supplied or reader.has_column(fs.name):
                        return bad("Hit[column]", fs, "doc %s field %s: KeyError, expected %s" % (key, fs.name, _short(cexp)), doc=key, field=fs.name)
                    ctx.count("idx.hit.keyerror_no_column_anywhere")
                elif not same(got, cexp):
                    return bad("Hit[column]", fs, "doc %s field %s (%s): got %s expected %s" % (key, fs.name, "supplied" if supplied else "not supplied", _short(got), _short(cexp)), doc=key, field=fs.name)
                else:
                    ctx.count("idx.hit.column_fallback")
            else:
                if not raised:
                    return bad("Hit[absent]", fs, "doc %s field %s: got %s, expected KeyError" % (key, fs.name, _short(got)), doc=key, field=fs.name)
                ctx.count("idx.hit.absent_checked")
    return nfail(ctx) == nf0


def _first_diff(a, b):
    for k in sorted(set(a) | set(b)):
        if k not in a or k not in b or not same_typed(a[k], b[k]):
            return k
    return None


def index_case(ctx, rng):
    from vf import core
    from whoosh import fields
    from whoosh.filedb.filestore import RamStorage, FileStorage, copy_to_ram
    from whoosh.writing import BufferedWriter
    flags = _flags()
    fspecs = []
    for i in range(rng.randint(2, 6)):
        fs = gen_fspec(rng, flags)
        fs.name = "f%d" % i
        fspecs.append(fs)
    wide = rng.random() < 0.04
    if wide:
        # many documents with > 256 distinct values in a reference column read through a real index
        from whoosh import columns as _columns
        fs = FSpec("ID", lambda: fields.ID(sortable=_columns.RefBytesColumn()), lambda r: "u%04d" % r.randrange(2000), False, "RefBytes")
        fs.name = "f%d" % len(fspecs)
        fspecs.append(fs)
        ctx.count("idx.wide")
    # zz_poison sorts after every other field name: a junk value makes add_document() raise AFTER the other
    # fields of that document were processed (rejected documents must leave nothing behind)
    schema = fields.Schema(id=fields.ID(stored=True, unique=True), zz_poison=fields.NUMERIC(int))
    for fs in fspecs:
        fs.field = fs.make()
        schema.add(fs.name, fs.field)
        if fs.col:
            ct = fs.field.column_type
            if hasattr(fs, "raw_default"):
                fs.col_default = fs.raw_default
            else:
                # the column default as the field type itself decodes it; a field that cannot decode its own default
                # is a defect of the code under test, not of the harness
                ok, fs.col_default = ctx.guard("idx.schema", {"layer": "index", "field": fs.kind, "step": "from_column_value(default)"},
                                               fs.field.from_column_value, ct.default_value())
                if not ok:
                    return ("idx", "schema-failed", fs.kind), False, {"layer": "index", "field": fs.kind}
    storage_kind = rng.choice(["ram", "file", "mmap"])
    compound = rng.random() < 0.6
    frontend = rng.choice(["writer", "writer", "writer", "buffered"]) if not wide else "writer"
    ncommits = rng.choice([1, 2, 3, 3, 4, 6, 8])
    schema_sig = tuple((fs.kind, fs.stored, fs.col) for fs in fspecs)
    if frontend == "writer" and not wide:
        # a quarter of the plain-writer cases go through the multi-process writer's machinery instead (SerialMpWriter: the same
        # sub-writer / merge-of-sub-segments code, in process): every document is first written to a sub-segment and then copied
        # into the final one. Drawn from a private stream so that the other cases stay what they were.
        import random as _random
        if _random.Random(repr((schema_sig, storage_kind, compound, ncommits))).random() < 0.25:
            frontend = "serialmp"
    w = {"layer": "index", "schema": ["%s=%s(stored=%s,column=%s)" % (fs.name, fs.kind, fs.stored, fs.col) for fs in fspecs],
         "storage": storage_kind, "compound": compound, "frontend": frontend, "history": []}
    ctx.count("idx.cases")
    ctx.count("idx.storage.%s" % storage_kind)
    ctx.count("idx.frontend.%s" % frontend)
    ctx.count("idx.compound" if compound else "idx.loose")
    d = None
    if storage_kind == "ram":
        st = RamStorage()
    else:
        d = tempfile.mkdtemp(prefix="vf-c08-")
        st = FileStorage(d, supports_mmap=(storage_kind == "mmap"))
    model = Model()
    hist_sig = []
    nsupplied = nabsent = 0
    nkey = [0]

    def newkey():
        nkey[0] += 1
        return "k%03d" % nkey[0]

    def body():
        nonlocal nsupplied, nabsent
        ix = st.create_index(schema)
        for c in range(ncommits):
            if c and (c + ncommits) % 2 == 1:
                # later commits (and the reads after them) go through a re-opened index: field and column types then
                # come from the schema pickled in the TOC
                ix = st.open_index()
                ctx.count("idx.reopened_between_commits")
            merge_kind = rng.choice(["nomerge", "nomerge", "default", "optimize"])
            ckw = {"nomerge": {"merge": False}, "default": {}, "optimize": {"optimize": True}}[merge_kind]
            ops = []
            if frontend == "buffered":
                limit = rng.choice([2, 3, 100])
                bw = BufferedWriter(ix, period=None, limit=limit, writerargs={"compound": compound}, commitargs=ckw)
                try:
                    for _ in range(rng.randint(1, 5)):
                        key = newkey()
                        doc = gen_doc(rng, key, fspecs)
                        bw.add_document(**doc_kwargs(key, doc))
                        model.docs[key] = doc
                        ops.append(("add", key, sorted(doc["fields"]), sorted(doc["over"])))
                    w["history"].append({"buffered_limit": limit, "merge": merge_kind, "ops": ops})
                    s = bw.searcher()
                    try:
                        ctx.count("idx.buffered.verifies")
                        if not verify(ctx, w, s, model, fspecs, "BufferedWriter.searcher() before close, commit %d" % c, rng):
                            return
                    finally:
                        s.close()
                finally:
                    bw.close()
            else:
                if frontend == "serialmp":
                    from whoosh.multiproc import SerialMpWriter
                    wr = SerialMpWriter(ix, procs=2 + (c % 2), compound=compound)
                else:
                    wr = ix.writer(compound=compound)
                live = sorted(model.docs)
                for _ in range(rng.randint(1, 5) if not (wide and c == 0) else rng.randint(270, 300)):
                    op = rng.choice(["add", "add", "add", "delete", "update"])
                    if rng.random() < 0.12:
                        # a document the schema rejects part-way through; the caller absorbs the error and goes on
                        # with the same writer (tests/test_writing.py::test_add_fail_with_absorbed_exception)
                        rkey = newkey()
                        rdoc = gen_doc(rng, rkey, fspecs)
                        try:
                            wr.add_document(zz_poison=u"not a number", **doc_kwargs(rkey, rdoc))
                            raise core.HarnessError("poisoned document was accepted")
                        except core.HarnessError:
                            raise
                        except Exception:  # noqa - the documented rejection
                            ctx.count("idx.rejected_adds")
                            ops.append(("rejected-add", rkey, sorted(rdoc["fields"]), sorted(rdoc["over"])))
                    if op == "add" or not live:
                        key = newkey()
                        doc = gen_doc(rng, key, fspecs)
                        wr.add_document(**doc_kwargs(key, doc))
                        model.docs[key] = doc
                        ops.append(("add", key, sorted(doc["fields"]), sorted(doc["over"])))
                    elif op == "delete":
                        key = live.pop(rng.randrange(len(live)))
                        wr.delete_by_term("id", key)
                        del model.docs[key]
                        ops.append(("delete", key))
                        ctx.count("idx.deletes")
                    else:
                        key = live.pop(rng.randrange(len(live)))
                        doc = gen_doc(rng, key, fspecs)
                        wr.update_document(**doc_kwargs(key, doc))
                        model.docs[key] = doc
                        ops.append(("update", key, sorted(doc["fields"]), sorted(doc["over"])))
                        ctx.count("idx.updates")
                wr.commit(**ckw)
                w["history"].append({"merge": merge_kind, "ops": ops})
            hist_sig.append((merge_kind, tuple(o[0] for o in ops)))
            ctx.count("idx.commits")
            ctx.count("idx.commit.%s" % merge_kind)
            if c == ncommits - 1 or rng.random() < 0.6:
                s = ix.searcher()
                try:
                    nseg = len(s.reader().leaf_readers()) if not s.reader().is_atomic() else 1
                    ctx.count("idx.verifies.multisegment" if nseg > 1 else "idx.verifies.onesegment")
                    if s.reader().has_deletions():
                        ctx.count("idx.verifies.with_deletions")
                    if not verify(ctx, w, s, model, fspecs, "after commit %d (%d segments)" % (c, nseg), rng):
                        return
                finally:
                    s.close()
        # survives copying to RAM / re-opening with the other mmap setting
        if storage_kind != "ram":
            if rng.random() < 0.5:
                ram = copy_to_ram(st)
                ix2 = ram.open_index()
                where = "copy_to_ram"
            else:
                st2 = FileStorage(d, supports_mmap=(storage_kind != "mmap"))
                ix2 = st2.open_index()
                where = "reopened with supports_mmap=%s" % (storage_kind != "mmap")
            ctx.count("idx.reopen.%s" % where.split(" ")[0])
            s = ix2.searcher()
            try:
                verify(ctx, w, s, model, fspecs, where, rng)
            finally:
                s.close()

    try:
        ctx.guard("idx.write", w, body)
    finally:
        try:
            st.close()
        except Exception:  # noqa
            pass
        if d:
            shutil.rmtree(d, ignore_errors=True)
    for key, doc in model.docs.items():
        nsupplied += len(doc["fields"])
        nabsent += len(fspecs) - len(doc["fields"])
    shape = ("idx", schema_sig, tuple(hist_sig), storage_kind, compound, frontend)
    if len(w["history"]) > 4:
        w = dict(w, history=w["history"][:4] + ["... %d more commits" % (len(w["history"]) - 4)])
    return shape, (nsupplied > 0 and nabsent > 0), w


# ----------------------------------------------------------------------
# driver
# ----------------------------------------------------------------------

def run(ctx):
    for idx in ctx.cases(quick=700, thorough=2400):
        rng = ctx.rng(idx)
        ctx.reseed_global(idx)
        if idx % 5 < 2:
            shape, nontrivial, w = index_case(ctx, rng)
        else:
            big = None
            if not ctx.quick and idx % 200 == 2:
                big = "ref65536" if (idx // 200) % 2 == 0 else "var32768"
                ctx.count("col.big.%s" % big)
            shape, nontrivial, w = column_case(ctx, rng, big)
        ctx.case(shape, nontrivial, sample=w if idx % 101 in (0, 1) else None)
