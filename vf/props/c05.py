"""C05 - limiting a search to the top N never changes which hits win or their scores.

Differential monitor on the real engine: search(q, limit=k, **opts) vs. the first k entries of
search(q, limit=None, **opts) on the same searcher, while CollectorSpy counters
(skipped_times / replaced_times of the TopCollector) prove that the block-skipping and
tree-rewriting optimisations actually engaged.
"""
LEVEL = "exploration"
RULE = ("case = (history -> index of 30..400 docs with posting block limit 2..128, 1..4 segments, deletions; weighting model "
        "and parameters; query tree with boosts/negation/DisMax/ranges/phrases; k in {1,2,3,5,10,25}; options among filter, "
        "mask, terms=True, collapse); the limited result list must equal the prefix of the exhaustive ranking (score desc, "
        "doc number asc on exact ties). Non-trivial when the query matches more than k documents; distinct = (query type "
        "tree, layout signature, weighting, k, options).")
ASSUMPTIONS = [
    "the exhaustive ranking search(limit=None) is the oracle (its scores are C09's subject)",
    "two hits whose exhaustive scores differ by less than 1e-9 relative but are not bit-identical may swap places (float summation order); counted as float_noise_ties",
    "sortedby / reverse are C14's subject and not combined here",
]
SHARDS = {"quick": 6, "thorough": 16}
BUDGET_S = {"quick": 80, "thorough": 700}
FLOORS = {"c05.comparisons": 1200, "c05.nontrivial": 500, "c05.skipped_engaged": 100, "c05.replaced_engaged": 300}


def spy(results):
    c = results.collector
    seen = 0
    while c is not None and seen < 6:
        if hasattr(c, "skipped_times"):
            return c.skipped_times, c.replaced_times
        c = getattr(c, "child", None)
        seen += 1
    return 0, 0


def ranking(r):
    return [(h.docnum, h.score) for h in r]


def compare(ctx, full, top, k):
    """Return None if `top` is the k-prefix of `full`, else a description."""
    from vf.monitors import close
    want = full[:k]
    if len(top) != len(want):
        return "limited search returned %d hits, exhaustive prefix has %d" % (len(top), len(want))
    if top == want:
        return None
    fullmap = dict(full)
    # scores must be those of the exhaustive ranking
    for d, sc in top:
        if d not in fullmap:
            return "hit %d is not in the exhaustive result" % d
        if not close(sc, fullmap[d]):
            return "doc %d scores %r under the limit but %r exhaustively" % (d, sc, fullmap[d])
    for (d1, s1), (d2, s2) in zip(top, top[1:]):
        if s1 < s2 and not close(s1, s2):
            return "limited result not ordered by score: (%d,%r) before (%d,%r)" % (d1, s1, d2, s2)
        if s1 == s2 and d1 > d2:
            return "exact tie not in document order: %d before %d (score %r)" % (d1, d2, s1)
    topset = set(d for d, _ in top)
    low = min(sc for _, sc in top) if top else None
    for d, sc in full:
        if d in topset:
            continue
        if sc > low and not close(sc, low):
            return "doc %d (score %r) beats the weakest returned hit (score %r) but was not returned" % (d, sc, low)
        if sc == low:
            lowdocs = [dd for dd, ss in top if ss == low]
            if lowdocs and d < max(lowdocs):
                return "exact tie at the cut: doc %d (score %r) precedes returned doc %d" % (d, sc, max(lowdocs))
    for (d, sc), (wd, wsc) in zip(top, want):
        if d != wd and sc == wsc:
            return "exact tie resolved differently: rank holds %d, exhaustive ranking %d" % (d, wd)
    ctx.count("c05.float_noise_ties")
    return None


def gen_opts(rng, model):
    from whoosh import query, sorting
    opts, names = {}, []
    r = rng.random()
    if r < 0.2:
        opts["filter"] = rng.choice([query.Term("k", rng.choice(model.KVOCAB)), query.NumericRange("n", -2, 4),
                                     query.Or([query.Term("t", "alfa"), query.Term("t", "bravo")])])
        names.append("filter")
    elif r < 0.35:
        opts["mask"] = rng.choice([query.Term("k", rng.choice(model.KVOCAB)), query.Term("t", "charlie")])
        names.append("mask")
    if rng.random() < 0.2:
        opts["terms"] = True
        names.append("terms")
    if rng.random() < 0.12:
        opts["collapse"] = rng.choice(["n", "id"])
        opts["collapse_limit"] = rng.choice([1, 1, 2])
        names.append("collapse")
    return opts, tuple(names)


def run(ctx):
    from vf import model
    from vf.props.c12 import gen_weighting
    model.check_analysis()
    for idx in ctx.cases(quick=80, thorough=400):
        rng = ctx.rng(idx)
        ctx.reseed_global(idx)
        h = model.gen_history(rng, ndocs=(30, 400) if rng.random() < 0.7 else (5, 40), boosts=rng.choice([False, True, "fractional"]), maxlen=8, burst=rng.choice([0.0, 0.05, 0.15]),
                              delete_modes=("none", "few", "many", "segment"))
        h["blocklimit"] = rng.choice([2, 2, 4, 16, 128])
        staged = False
        if idx % 29 == 3:
            h = model.gen_big_history(rng, small_first=rng.random() < 0.7)
            ctx.count("c05.big_segment_cases")
        elif idx % 3 == 1:
            h = model.gen_staged_history(rng)
            staged = True
            ctx.count("c05.staged_cases")
        if idx % 7 == 3 and len(h["commits"]) > 1:
            h["front"] = "serialmp-optimize"     # see vf.model.build
            ctx.count("c05.serialmp_optimize_builds")
        wname, wobj = gen_weighting(rng)
        wb = {"history": {"commits": [len(c) for c in h["commits"]], "deletes": len(h["deletes"]),
                          "blocklimit": h["blocklimit"], "storage": h["storage"]}, "case_idx": idx, "weighting": wname}
        ok, built = ctx.guard("c05.build", wb, model.build, h, field_boosts=rng.choice([False, False, True, True, 0.1, 0.7]))
        if not ok:
            continue
        sig = model.layout_sig(h)
        ctx.count("c05.model.%s" % wname.split("(")[0])
        try:
            psz = model.partsize_for(idx)
            if psz is not None:
                ctx.count("c05.small_array_parts")
                wb["array_partsize(default of ArrayUnionMatcher)"] = psz
            with model.array_partsize(psz), built.ix.searcher(weighting=wobj) as s:
                plan = [None] * 14
                if staged:
                    # pair sweep: every And / Or of two frequent words, optionally with the first one boosted, small k
                    from whoosh import query as _q
                    ws = model.VOCAB[:4]
                    for a in ws:
                        for b in ws:
                            if a != b:
                                ta = _q.Term("t", a, boost=rng.choice([1.0, 1.0, 2.0, 3.0]))
                                tb = _q.Term("t", b)
                                plan.append((rng.choice([_q.And, _q.And, _q.Or])([ta, tb]), rng.choice([1, 2, 3])))
                    # positional sweep: a phrase of two frequent words, alone and next to / under another clause
                    for _ in range(8):
                        a, b, c = rng.sample(ws, 3)
                        ph = _q.Phrase("t", [a, b], slop=rng.choice([1, 1, 2, 3]))
                        shape = rng.choice([lambda: ph, lambda: _q.Or([ph, _q.Term("t", c)]), lambda: _q.And([ph, _q.Term("t", c)]),
                                            lambda: _q.AndMaybe(ph, _q.Term("t", c)), lambda: _q.Or([ph, _q.Term("t", c, boost=2.0)])])
                        plan.append((shape(), rng.choice([1, 2, 3, 5])))
                if staged or psz is not None:
                    # array-union sweep: a boosted Or of 3-4 frequent words (buffered union) under And / AndMaybe / Or / DisMax
                    # parents, which consult its max_quality / block_quality when they rewrite against the k-th score
                    from whoosh import query as _q
                    arng = ctx.rng(idx, "array-union-sweep")
                    for _ in range(6):
                        ws_ = arng.sample(model.VOCAB[:6], arng.choice([3, 3, 4]))
                        au = _q.Or([_q.Term(arng.choice(["t", "t", "u"]), w_) for w_ in ws_], boost=arng.choice([1.0, 2.0, 5.0, 25.0, 0.5]))
                        other = _q.Term("t", arng.choice(model.VOCAB[:5]), boost=arng.choice([1.0, 1.0, 3.0]))
                        shape = arng.choice(["and", "and", "andmaybe", "andmaybe-rev", "or", "dismax", "require"])
                        qq = {"and": lambda: _q.And([other, au]), "andmaybe": lambda: _q.AndMaybe(other, au),
                              "andmaybe-rev": lambda: _q.AndMaybe(au, other), "or": lambda: _q.Or([other, au]),
                              "dismax": lambda: _q.DisjunctionMax([other, au]), "require": lambda: _q.Require(au, other)}[shape]()
                        plan.append((qq, arng.choice([1, 1, 2, 3, 5])))
                        ctx.count("c05.array_union_sweep_queries")
                for item in plan:
                    if item is not None:
                        q, k = item
                        opts, optnames = {}, ()
                        ctx.count("c05.pair_sweep_queries")   # (pair, positional and array-union sweeps)
                    else:
                        if rng.random() < (0.8 if staged else 0.4):
                            q = model.gen_skip_stress(rng)
                            ctx.count("c05.skip_stress_queries")
                        else:
                            q = model.gen_query(rng, depth=rng.choice([1, 2, 2, 3]), scoring=True)
                        opts, optnames = gen_opts(rng, model)
                        k = rng.choice([1, 2, 3, 5, 10, 25])
                    w = dict(wb, query=repr(q), k=k, options=[(n, repr(opts[n])) for n in sorted(opts)])

                    def body():
                        full = s.search(q, limit=None, **opts)
                        fl = ranking(full)
                        top = s.search(q, limit=k, **opts)
                        tl = ranking(top)
                        sk, rp = spy(top)
                        return fl, tl, sk, rp, len(top)
                    ok, res = ctx.guard("c05.search", w, body)
                    if not ok:
                        continue
                    fl, tl, sk, rp, toplen = res
                    ctx.count("c05.comparisons")
                    if sk > 0:
                        ctx.count("c05.skipped_engaged")
                    if rp > 1:
                        ctx.count("c05.replaced_engaged")
                    why = compare(ctx, fl, tl, k)
                    if why is not None:
                        ctx.fail("c05.prefix", "limit-vs-exhaustive:%s%s" % (wname.split("(")[0], ":" + "+".join(optnames) if optnames else ""),
                                 dict(w, exhaustive_prefix=fl[:k + 3], limited=tl, skipped_times=sk, replaced_times=rp), why)
                    elif toplen != len(fl):
                        ctx.fail("c05.len", "len(results):%s" % wname.split("(")[0], dict(w, skipped_times=sk),
                                 "len(limited results)=%d but %d documents match" % (toplen, len(fl)))
                    nontrivial = len(fl) > k
                    if nontrivial:
                        ctx.count("c05.nontrivial")
                    ctx.case((model.qshape(q), sig, wname.split("(")[0], k, optnames), nontrivial,
                             sample=dict(w, matched=len(fl), skipped_times=sk, replaced_times=rp) if ctx.evaluations % 250 == 0 else None)
        finally:
            built.close()
