"""C12 - quality bounds are true upper bounds on scores.

Invariant monitor on the real matcher trees (vf.monitors.Cursor with bounds on):
after every protocol operation block_quality() >= score of the current entry and
max_quality() >= every remaining score; skip_to_quality(q) never passes an entry scoring > q;
replace(q) never drops one nor changes its score. Leaf monitor: for an on-disk term posting
list block_quality() >= score of EVERY entry of the current posting block.
Reference scores come from plain stepping of a fresh matcher (C11/C09 check them).
"""
LEVEL = "exploration"
RULE = ("case = (generated corpus -> real index with block limit 2..128, weighting model and parameters, query tree, "
        "top-level or per-segment matcher) x 3 generated programs over {next, skip_to, replace(0), skip_to_quality(q), "
        "replace(q)} with q in {0, negative, a remaining score, just below/above one, mid, above max}; bounds are asserted "
        "after every operation. Non-trivial: the matcher claims quality support and has >= 2 entries; distinct = "
        "(matcher class tree, opcode sequence, weighting model).")
ASSUMPTIONS = [
    "scores of the reference list come from plain stepping (their correctness is C09's subject)",
    "comparison slack 1e-9 relative",
    "models that do not claim quality support (PL2, DFree, ReverseWeighting, FunctionWeighting after the fix: commits) are run too; the monitor counts that they do not claim and checks nothing else for them",
]
SHARDS = {"quick": 6, "thorough": 16}
BUDGET_S = {"quick": 70, "thorough": 600}
FLOORS = {"c12.bound_checks": 3000, "c12.skip_to_quality_checks": 300, "c12.skip_to_quality_moved": 30,
          "c12.replace_checks": 100, "c12.replace_pruned": 20, "c12.leaf_block_checks": 200}


def gen_weighting(rng):
    from whoosh import scoring
    r = rng.random()
    if r < 0.35:
        kw = {}
        if rng.random() < 0.4:
            kw["t_B"] = rng.choice([0.0, 0.3, 1.0])
        w = scoring.BM25F(B=rng.choice([0.0, 0.5, 0.75, 1.0]), K1=rng.choice([0.5, 1.2, 2.0]), **kw)
        return "BM25F(B=%s,K1=%s,%s)" % (w.B, w.K1, sorted(kw.items())), w
    if r < 0.5:
        return "TF_IDF", scoring.TF_IDF()
    if r < 0.62:
        return "Frequency", scoring.Frequency()
    if r < 0.74:
        return "Multi(BM25F,k=Frequency,u=TF_IDF)", scoring.MultiWeighting(scoring.BM25F(), k=scoring.Frequency(), u=scoring.TF_IDF())
    if r < 0.82:
        return "PL2", scoring.PL2(c=rng.choice([0.5, 1.0, 3.0]))
    if r < 0.9:
        return "DFree", scoring.DFree()
    if r < 0.96:
        return "Reverse(BM25F)", scoring.ReverseWeighting(scoring.BM25F())
    return "Function(weight)", scoring.FunctionWeighting(lambda searcher, fieldname, text, matcher: matcher.weight())


def leaf_blocks(ctx, rng, s, wname, wb):
    """For on-disk term posting lists: block_quality() dominates every entry of the current block."""
    from vf import model
    from vf.monitors import TOL
    from whoosh.codec.whoosh3 import W3LeafMatcher
    for subs, offset in s.leaf_searchers():
        field = rng.choice(["t", "t", "u", "k"])
        word = model.zipf_choice(rng, model.VOCAB if field != "k" else model.KVOCAB)
        r = subs.reader()
        if (field, word) not in r:
            continue
        w = dict(wb, weighting=wname, term=[field, word])

        def body():
            m = subs.postings(field, word)
            if not isinstance(m, W3LeafMatcher) or not m.supports_block_quality():
                ctx.count("c12.leaf_not_blockwise")
                return
            ref = subs.postings(field, word)
            entries = []
            while ref.is_active():
                entries.append((ref.id(), ref.score()))
                ref.next()
            mq = m.max_quality()
            top = max(sc for _, sc in entries)
            if mq < top - TOL * max(1.0, abs(top)):
                ctx.fail("c12.leaf", "max_quality<score:%s" % wname.split("(")[0], w, "max_quality=%r < %r" % (mq, top))
            nblocks = 0
            while m.is_active():
                lo, hi = m.block_min_id(), m.block_max_id()
                bq = m.block_quality()
                inblock = [(i, sc) for i, sc in entries if lo <= i <= hi]
                ctx.count("c12.leaf_block_checks")
                for i, sc in inblock:
                    if bq < sc - TOL * max(1.0, abs(sc)):
                        ctx.fail("c12.leaf", "block_quality<entry-in-block:%s" % wname.split("(")[0], w,
                                 "block [%d..%d] block_quality=%r < score %r of id %d" % (lo, hi, bq, sc, i))
                        return
                m.skip_to(hi + 1)
                nblocks += 1
            if nblocks > 1:
                ctx.count("c12.leaf_multiblock_lists")
        ctx.guard("c12.leaf", w, body)


def run(ctx):
    from vf import model
    from vf.props import c11
    model.check_analysis()
    for idx in ctx.cases(quick=150, thorough=500):
        rng = ctx.rng(idx)
        ctx.reseed_global(idx)
        h = model.gen_history(rng, ndocs=(5, 70) if rng.random() < 0.6 else (60, 200), boosts="fractional", maxlen=8, burst=rng.choice([0.0, 0.05, 0.15]))
        h["blocklimit"] = rng.choice([2, 2, 4, 16, 128])
        staged = (idx % 4 == 2)
        if staged:
            # long flat multi-block posting lists with a few strong documents early and late (as in C05): the binary matchers'
            # block skipping has something to skip, and every pair of frequent words is driven through threshold programs
            h = model.gen_staged_history(rng)
            ctx.count("c12.staged_cases")
        if idx % 7 == 3 and len(h["commits"]) > 1:
            h["front"] = "serialmp-optimize"     # see vf.model.build
            ctx.count("c12.serialmp_optimize_builds")
        wname, wobj = gen_weighting(rng)
        wb = {"history": {"commits": [len(c) for c in h["commits"]], "deletes": len(h["deletes"]),
                          "blocklimit": h["blocklimit"], "storage": h["storage"]}, "case_idx": idx, "weighting": wname}
        ok, built = ctx.guard("c12.build", wb, model.build, h, field_boosts=rng.choice([False, False, True, True, 0.1, 0.7]))
        if not ok:
            continue
        ctx.count("c12.model.%s" % wname.split("(")[0])
        try:
            psz = model.partsize_for(idx)
            if psz is not None:
                ctx.count("c12.small_array_parts")
                wb["array_partsize(default of ArrayUnionMatcher)"] = psz
            with model.array_partsize(psz), built.ix.searcher(weighting=wobj) as s:
                leaf_blocks(ctx, rng, s, wname, wb)
                for _ in range(10):
                    c11.one_query(ctx, rng, built, s, wb, mode="c12")
                if staged:
                    from whoosh import query as _q
                    prng = ctx.rng(idx, "pair-sweep")
                    ws = model.VOCAB[:4]
                    for a in ws:
                        for b in ws:
                            if a != b:
                                ta = _q.Term("t", a, boost=prng.choice([1.0, 1.0, 2.0, 3.0]))
                                tb = _q.Term("t", b)
                                qq = prng.choice([_q.And, _q.And, _q.Or, _q.AndMaybe, _q.Require])
                                qq = qq([ta, tb]) if qq in (_q.And, _q.Or) else qq(ta, tb)
                                ctx.count("c12.pair_sweep_queries")
                                c11.one_query(ctx, prng, built, s, wb, mode="c12", q=qq)
        finally:
            built.close()
