"""C17 - index- and query-time analysis agree: documents are findable by their own words.

Monitor shape: analyzer-vs-analyzer relation + string slicing, observed through the real engine.
For a generated corpus of texts, one shipped analyzer configuration and one field type:

 (a) every document is matched by Term(field, tok) for each token the analyzer produced in index mode;
 (b) by And of the tokens the same text yields in query mode (field.process_text(mode="query"), what the parser
     does) - and, for single whitespace-delimited pieces of the text that are free of parser syntax, by the query
     the real QueryParser builds for that piece;
 (c) for positional fields, by Phrase of tokens taken at any run of consecutive positions - of the index-time stream and
     (c') of the query-time stream of the same text (a MultiFilter analyzer indexes more tokens than it queries);
 (d) positions never decrease in emission order, strictly increase for one-token-per-word analyzers, and follow
     the order of appearance (a token wholly before another in the text has no greater position);
 (e) character offsets delimit the token's source: 0<=start<=end<=len(text), and re-analysing exactly
     text[start:end] reproduces the token spanning that whole slice;
 (f) Hit.highlights(): every excerpt piece, stripped of markup, is a substring of the original text and every
     marked span is made of source texts of matched query terms.
"""
import html
import random
import re

LEVEL = "exploration"
RULE = ("a case = one analyzer configuration (67 shipped analyzers / tokenizer|filter compositions, incl. per-language "
        "analyzers) x one field type that analyses text (TEXT with/without positions and chars, KEYWORD, ID, IDLIST, "
        "NGRAM, NGRAMWORDS) x 4..6 generated texts (multi-script unicode, punctuation, numbers, URLs, e-mail, very "
        "long/short tokens, stop words of several languages, CamelCase and intra-word punctuation, sentences) indexed "
        "into one small index; each document is then searched for by its own tokens (Term / And of query-mode tokens / "
        "parser on single pieces / Phrase at consecutive positions) and highlighted with 2 of the fragmenter x "
        "formatter pairs. Non-trivial when at least one document produced two or more distinct tokens; distinct = "
        "distinct (analyzer, field kind, sorted piece classes of the texts).")
ASSUMPTIONS = [
    "a document whose text yields no index-time token at all in the field (empty text, only stop words, shorter than the "
    "minimum n-gram) has no 'own words': (a)-(c) are vacuous for it and (b) is not demanded",
    "(b) through the real QueryParser is demanded only for whitespace-delimited pieces without parser syntax characters "
    "( ) [ ] { } : ^ * ? \" ' ~ < > = and operator words, and only when every index-mode token of the piece analysed "
    "alone is one of the document's index-mode tokens (context-dependent filters - BiWord, Shingle, Tee(BiWord), "
    "IDAnalyzer, comma keyword lists, PathTokenizer - legitimately analyse a lone word differently from the word in "
    "context)",
    "(c) is demanded for fields whose format stores positions (TEXT(phrase=True), NGRAM(phrase=True)), for runs of 2..3 "
    "consecutive position numbers each of which carries at least one token, with slop=1",
    "(d): 'strictly increasing' is demanded only of analyzers whose documentation gives one token per word "
    "(tokenizer + lowercase/stop/stem/charset/substitution/strip filters); for filters documented or observed to emit "
    "several tokens per position (IntraWordFilter merges, TeeFilter, DoubleMetaphone(combine), CompoundWordFilter, "
    "n-gram tokenizers and filters, ShingleFilter, BiWordFilter) only monotonicity and order of appearance are demanded",
    "(e) is demanded of every analyzer that sets character offsets; exactness is phrased as a metamorphic relation "
    "(re-analysis of the slice yields the same token text spanning the whole slice) so that stemming, folding, "
    "bi-words, shingles and merged sub-words - whose text differs from the slice - are covered without knowing the "
    "transformation; ReverseTextFilter branches, PathTokenizer (no offsets) and DelimitedAttributeFilter (moves endchar "
    "by design) are classified not offset-preserving and excluded from (e) and from the marked-span clause of (f)",
    "(f) marked spans are read from the Fragment objects the real highlighter hands to the real formatter (captured "
    "by wrapping formatter.format on the instance) and, for HtmlFormatter, also from the produced markup; a marked "
    "span must start at the start and end at the end of source ranges of matched terms and be covered by such ranges. "
    "UppercaseFormatter output is compared case-insensitively (upper() of both sides); GenshiFormatter is not "
    "exercised because genshi is not installed in the environment (recorded in evidence, not a verdict)",
    "(f) 'source text of a matched term' = the character range of any token carrying that term's text in the analysis "
    "the highlighter itself uses (index mode for Hit.highlights, query mode for highlight.highlight(), both with "
    "removestops=False): an occurrence that the stop filter dropped at index time but whose text equals a matched "
    "term (an n-gram equal to a stop word) may be marked",
    "Hit.highlights(strict_phrase=True) is exercised for Phrase queries over the document's own consecutive tokens; "
    "only 'what is marked is source text of a phrase word' is demanded, not which occurrences",
    "highlight queries are Or/Term queries over 1..3 of the document's own index-time tokens, searched with and "
    "without terms=True (the PinpointFragmenter path needs terms=True and chars=True)",
    "token texts longer than 32k bytes are not generated (the on-disk term length limit is another property's subject)",
]
SHARDS = {"quick": 4, "thorough": 16}
BUDGET_S = {"quick": 90, "thorough": 600}
FLOORS = {"cases": 700, "docs": 3500, "a.term_checks": 20000, "b.and_checks": 3300, "b.parser_checks": 5500,
          "c.phrase_checks": 5000, "d.position_streams": 3300, "e.offset_checks": 30000, "e.exact_by_reanalysis": 2500,
          "f.highlights": 6500, "f.marked_spans": 11000, "f.pinpoint": 400, "f.strict_phrase": 700,
          "f.strict_phrase_spans": 100, "f.lowlevel": 1000, "f.html_markup_checks": 2000}

# ----------------------------------------------------------------------
# texts
# ----------------------------------------------------------------------
PIECES = {
    "plain": ["hello", "world", "render", "shading", "library", "whoosh", "search", "index", "token", "alfa", "bravo"],
    "caps": ["World", "HELLO", "Whoosh", "NASA", "iPhone", "McDonald", "USA"],
    "stop": ["the", "and", "a", "of", "to", "is", "in", "The", "AND", "it", "not", "or", "you", "with"],
    "stop-other": ["der", "die", "und", "le", "la", "les", "et", "el", "los", "que", "и", "не", "het", "och", "ja", "og",
                   "az", "il", "um", "ve", "bir"],
    "morph": ["running", "runs", "ran", "libraries", "rendered", "shaded", "searching", "indexes", "connection",
              "connected", "générations", "laufen", "gelaufen", "häuser", "corriendo", "бегущий", "книги", "parlando",
              "huizen", "springer"],
    "intra": ["Wi-Fi", "PowerShot", "SD500", "r2d2", "e-mail", "foo_bar", "O'Neil's", "it's", "Super-Duper-XL500-42-AutoCoder!",
              "A's+B's&C's", "getInt", "get_real", "XMLHttpRequest", "x-ray-5", "v2.0-beta", "2500mAh", "AB12cd34"],
    "num": ["2500", "42", "3.14", "1,000", "007", "1e10", "-5", "2020-01-03", "10:25:54", "1/2", "٣٤"],
    "url": ["http://example.com/a?b=c", "https://whoosh.readthedocs.io/en/latest/", "www.example.org", "ftp://x.y/z.txt",
            "user@example.com", "first.last+tag@mail.example.co.uk", "/usr/local/bin", "C:\\Temp\\file.txt", "a/b/c"],
    "accent": ["café", "naïve", "ÀÉÎ", "straße", "Ærø", "crème", "brûlée", "señor", "Ångström", "İstanbul", "ǅ", "ﬁsh",
               "cafe\u0301"],
    "script": ["日本語", "テキスト", "Ελληνικά", "русский", "текст", "עברית", "العربية", "हिन्दी", "한국어", "ไทย", "中文",
               "\U0001F600", "x\U0001D54Fy"],
    "short": ["x", "a", "I", "é", "1", "ab", "no"],
    "long": ["supercalifragilisticexpialidocious" * 3, "a" * 300, "ab" * 600, "x1" * 150, "Long" * 80, "-".join(["seg"] * 60)],
    "punct": ["C++", "#tag", "@home", "—", ",", ".", "!", "?", "...", "(", ")", "[x]", "{y}", "a&b", "50%", "$9.99", "x=y",
              "a|b", "~", "^", "render^2", "file^0.5", "*", "\"quoted\"", "'single'", "`", ";", ":", "<b>", "&amp;"],
    "compound": ["greeneggs", "turbosquid", "applescript", "green", "eggs", "apple", "script"],
    "space": ["", " ", "\t", "\u00a0", "\u3000", "\u200b"],
}
CLASS_WEIGHTS = [("plain", 10), ("caps", 4), ("stop", 6), ("stop-other", 2), ("morph", 5), ("intra", 5), ("num", 3),
                 ("url", 2), ("accent", 4), ("script", 3), ("short", 2), ("long", 1), ("punct", 3), ("compound", 1),
                 ("space", 1)]
SEPS = [" ", " ", " ", " ", "  ", ", ", ". ", "! ", "? ", "; ", "-", "\n", "\t", " - ", " / ", ",", ". . . "]
PARSER_SPECIAL = set("()[]{}:^*?\"'~<>=\\") | set("\u055E\u061F\u1367")
OPERATOR_WORDS = {"AND", "OR", "NOT", "ANDNOT", "ANDMAYBE", "REQUIRE", "TO"}


def gen_text(rng):
    kind = rng.random()
    if kind < 0.04:
        return rng.choice(["", " ", "the", "a of the", ".", "x", "—", "!!!", "\n"]), ("degenerate",)
    n = rng.choice([1, 2, 3, 4, 5, 6, 8, 10, 14])
    names = [c for c, _ in CLASS_WEIGHTS]
    wts = [w for _, w in CLASS_WEIGHTS]
    parts, classes = [], set()
    for i in range(n):
        c = rng.choices(names, wts)[0]
        classes.add(c)
        parts.append(rng.choice(PIECES[c]))
        if i < n - 1:
            parts.append(rng.choice(SEPS))
    if rng.random() < 0.15:
        parts.append(rng.choice([".", "!", "?", " ", "\n"]))
    if rng.random() < 0.08:
        parts.insert(0, rng.choice([" ", ", ", "- ", "(", "\n"]))
    return "".join(parts), tuple(sorted(classes))


# ----------------------------------------------------------------------
# analyzer catalogue: name -> (factory, positions class, offsets kind)
#   positions: "one" one token per position expected; "multi" several tokens may share a position
#   offsets:   "exact" metamorphic exactness demanded; None = not offset-preserving / no offsets
# ----------------------------------------------------------------------

def catalogue():
    from whoosh import analysis as A
    from whoosh.analysis import filters as F
    from whoosh.support.charset import accent_map, charset_table_to_dict, default_charset
    words = frozenset(["green", "eggs", "turbo", "squid", "apple", "script", "hell", "hello", "wor", "ld"])
    cat = {}

    def add(name, fn, pos="one", off="exact"):
        cat[name] = (fn, pos, off)
    add("standard", lambda: A.StandardAnalyzer())
    add("standard-nostop", lambda: A.StandardAnalyzer(stoplist=None))
    add("standard-minmax", lambda: A.StandardAnalyzer(minsize=3, maxsize=8))
    add("standard-gaps", lambda: A.StandardAnalyzer(expression=r"\s+", gaps=True))
    add("stop-norenumber", lambda: A.RegexTokenizer() | A.LowercaseFilter() | A.StopFilter(renumber=False))
    add("simple", lambda: A.SimpleAnalyzer())
    add("simple-gaps", lambda: A.SimpleAnalyzer(expression=r"[\s,.;!?]+", gaps=True))
    add("stemming", lambda: A.StemmingAnalyzer())
    add("stemming-ignore", lambda: A.StemmingAnalyzer(ignore=frozenset(["running", "libraries"]), cachesize=None))
    add("stemming-smallcache", lambda: A.StemmingAnalyzer(cachesize=2))
    for lang in ("de", "fr", "es", "ru", "it", "pt", "nl", "sv", "fi", "da", "no", "hu", "ro", "tr", "ar", "en"):
        add("lang-" + lang, (lambda lang=lang: A.LanguageAnalyzer(lang)))
    add("keyword", lambda: A.KeywordAnalyzer())
    add("keyword-lower", lambda: A.KeywordAnalyzer(lowercase=True))
    add("keyword-commas", lambda: A.KeywordAnalyzer(commas=True))
    add("keyword-lower-commas", lambda: A.KeywordAnalyzer(lowercase=True, commas=True))
    add("id", lambda: A.IDAnalyzer())
    add("id-lower", lambda: A.IDAnalyzer(lowercase=True))
    add("regex", lambda: A.RegexAnalyzer())
    add("regex-custom", lambda: A.RegexAnalyzer(r"[A-Za-z]+|\d+"))
    add("regex-gaps", lambda: A.RegexAnalyzer(r"[^\w]+", gaps=True))
    add("url", lambda: A.RegexTokenizer(F.url_pattern) | A.LowercaseFilter())
    add("fancy", lambda: A.FancyAnalyzer(), pos="multi")
    add("fancy-merge", lambda: A.FancyAnalyzer(mergewords=True, mergenums=True), pos="multi")
    add("ngram23", lambda: A.NgramAnalyzer(2, 3), pos="multi")
    add("ngram4", lambda: A.NgramAnalyzer(4), pos="multi")
    add("ngramwords23", lambda: A.NgramWordAnalyzer(2, 3), pos="multi")
    add("ngramwords-start", lambda: A.NgramWordAnalyzer(2, 4, at="start"), pos="multi")
    add("ngramwords-end", lambda: A.NgramWordAnalyzer(2, 4, at="end"), pos="multi")
    add("ngram-after-folding", lambda: A.RegexTokenizer() | A.CharsetFilter(charset_table_to_dict(default_charset))
        | A.NgramFilter(2, 3), pos="multi")
    add("ngram-after-stemming", lambda: A.StemmingAnalyzer() | A.NgramFilter(3), pos="multi")
    add("intraword", lambda: A.RegexTokenizer(r"\S+") | A.IntraWordFilter() | A.LowercaseFilter(), pos="multi")
    add("intraword-merge", lambda: A.RegexTokenizer(r"\S+") | A.IntraWordFilter(mergewords=True, mergenums=True)
        | A.LowercaseFilter(), pos="multi")
    add("intraword-nosplit", lambda: A.RegexTokenizer(r"\S+") | A.IntraWordFilter(splitwords=False, splitnums=False)
        | A.LowercaseFilter(), pos="multi")
    add("intraword-multifilter", lambda: A.RegexTokenizer(r"\S+") | A.MultiFilter(
        index=A.IntraWordFilter(mergewords=True, mergenums=True),
        query=A.IntraWordFilter(mergewords=False, mergenums=False)) | A.LowercaseFilter(), pos="multi")
    add("charset-accent", lambda: A.StandardAnalyzer() | A.CharsetFilter(accent_map))
    add("charset-default", lambda: A.RegexTokenizer() | A.CharsetFilter(charset_table_to_dict(default_charset)))
    add("charset-tokenizer", lambda: A.CharsetTokenizer(charset_table_to_dict(default_charset)))
    add("biword", lambda: A.RegexTokenizer() | A.LowercaseFilter() | A.BiWordFilter(), pos="multi")
    add("biword-stop", lambda: A.StandardAnalyzer() | A.BiWordFilter(sep="_"), pos="multi")
    add("shingle2", lambda: A.RegexTokenizer() | A.LowercaseFilter() | A.ShingleFilter(2), pos="multi")
    add("shingle3", lambda: A.RegexTokenizer() | A.ShingleFilter(3, " "), pos="multi")
    add("tee-biword", lambda: A.RegexTokenizer(r"\S+") | A.TeeFilter(A.PassFilter(), A.BiWordFilter())
        | A.LowercaseFilter(), pos="multi")
    add("tee-reverse", lambda: A.RegexTokenizer(r"\S+") | A.TeeFilter(A.LowercaseFilter(), A.ReverseTextFilter()),
        pos="multi", off=None)
    add("dmetaphone", lambda: A.RegexTokenizer() | A.LowercaseFilter() | A.DoubleMetaphoneFilter(), pos="multi")
    add("dmetaphone-combine", lambda: A.RegexTokenizer() | A.LowercaseFilter() | A.DoubleMetaphoneFilter(combine=True),
        pos="multi")
    add("substitution", lambda: A.RegexTokenizer(r"\S+") | A.SubstitutionFilter("-", "") | A.LowercaseFilter())
    add("strip", lambda: A.RegexTokenizer(r"[^,;]+") | A.StripFilter() | A.LowercaseFilter())
    add("compound-keep", lambda: A.RegexTokenizer() | A.LowercaseFilter() | A.CompoundWordFilter(words, True),
        pos="multi")
    add("compound-nokeep", lambda: A.RegexTokenizer() | A.LowercaseFilter() | A.CompoundWordFilter(words, False),
        pos="multi")
    add("delimited-attr", lambda: A.RegexTokenizer(r"[A-Za-z]+(\^[0-9]+(\.[0-9]+)?)?") | A.DelimitedAttributeFilter(), off=None)
    add("path", lambda: A.PathTokenizer(), pos="one")
    add("space-lower-stop-stem", lambda: A.SpaceSeparatedTokenizer() | A.LowercaseFilter() | A.StopFilter()
        | A.StemFilter())
    return cat


# analyzers for which a quoted run of the document's own words is NOT promised to match as a phrase (documented reasons)
NO_QUOTED_PHRASE = {"stop-norenumber"}      # StopFilter(renumber=False): removed words leave position gaps by request


FIELD_KINDS_FOR_ANALYZER = ["text-pos", "text-pos", "text-pos-chars", "text-pos-chars", "text-nopos", "keyword-ana",
                            "id-ana"]
BUILTIN_FIELDS = ["KEYWORD", "KEYWORD-lower-commas", "ID", "IDLIST", "NGRAM", "NGRAM-phrase", "NGRAMWORDS",
                  "NGRAMWORDS-start", "TEXT-default", "TEXT-lang-de", "TEXT-spelling"]


def make_field(kind, ana):
    from whoosh import fields
    if kind == "text-pos":
        return fields.TEXT(analyzer=ana, stored=True, phrase=True)
    if kind == "text-pos-chars":
        return fields.TEXT(analyzer=ana, stored=True, phrase=True, chars=True)
    if kind == "text-nopos":
        return fields.TEXT(analyzer=ana, stored=True, phrase=False)
    if kind == "keyword-ana":
        return fields.KEYWORD(analyzer=ana, stored=True, scorable=True)
    if kind == "id-ana":
        return fields.ID(analyzer=ana, stored=True)
    if kind == "KEYWORD":
        return fields.KEYWORD(stored=True)
    if kind == "KEYWORD-lower-commas":
        return fields.KEYWORD(stored=True, lowercase=True, commas=True)
    if kind == "ID":
        return fields.ID(stored=True)
    if kind == "IDLIST":
        return fields.IDLIST(stored=True)
    if kind == "NGRAM":
        return fields.NGRAM(minsize=2, maxsize=4, stored=True)
    if kind == "NGRAM-phrase":
        return fields.NGRAM(minsize=2, maxsize=3, stored=True, phrase=True)
    if kind == "NGRAMWORDS":
        return fields.NGRAMWORDS(minsize=2, maxsize=4, stored=True)
    if kind == "NGRAMWORDS-start":
        return fields.NGRAMWORDS(minsize=2, maxsize=4, stored=True, at="start")
    if kind == "TEXT-default":
        return fields.TEXT(stored=True, chars=True)
    if kind == "TEXT-lang-de":
        return fields.TEXT(stored=True, lang="de")
    if kind == "TEXT-spelling":
        return fields.TEXT(stored=True, spelling=True)
    raise ValueError(kind)


# ----------------------------------------------------------------------

class Tok(object):
    __slots__ = ("text", "pos", "sc", "ec")

    def __init__(self, t, want_pos, want_chars):
        self.text = t.text
        self.pos = getattr(t, "pos", None) if want_pos else None
        self.sc = getattr(t, "startchar", None) if want_chars else None
        self.ec = getattr(t, "endchar", None) if want_chars else None

    def tup(self):
        return (self.text, self.pos, self.sc, self.ec)


def exc_mech(stage, e):
    from vf.core import whoosh_site
    site, in_harness = whoosh_site(e)
    return "%s:exc:%s@%s" % (stage, type(e).__name__, site), in_harness


def short(s, n=120):
    return s if len(s) <= n else s[:n] + "...(%d chars)" % len(s)


def analyse(ana, text, mode, chars=True, **kw):
    return [Tok(t, True, chars) for t in ana(text, positions=True, chars=chars, mode=mode, **kw)]


def source_ranges(ana, text, mode, qset, fallback):
    """Source ranges of every occurrence of the matched terms as the highlighter sees the text: it re-analyses
    with removestops=False, so an occurrence that was stopped at index time but carries a matched term's text
    (e.g. a gram equal to a stop word) is still an occurrence of that term's text."""
    try:
        toks = analyse(ana, text, mode, removestops=False)
    except Exception:  # noqa
        toks = fallback
    return sorted(set((t.sc, t.ec) for t in list(toks) + list(fallback) if t.text in qset and t.sc is not None))


def one_case(ctx, rng, CAT, names):
    import traceback
    from whoosh import fields, query, qparser
    from whoosh.filedb.filestore import RamStorage

    # ---- configuration
    if rng.random() < 0.18:
        kind = rng.choice(BUILTIN_FIELDS)
        aname = "field:" + kind
        field = make_field(kind, None)
        ana = field.analyzer
        posclass = "multi" if "NGRAM" in kind else "one"
        offkind = "exact"
    else:
        aname = rng.choice(names)
        fn, posclass, offkind = CAT[aname]
        ana = fn()
        kind = rng.choice(FIELD_KINDS_FOR_ANALYZER)
        field = make_field(kind, ana)
    ctx.count("cases")
    ctx.count("z.config.%s" % aname)
    texts, classes = [], set()
    for _ in range(rng.randint(4, 6)):
        t, cl = gen_text(rng)
        texts.append(t)
        classes.update(cl)
    wit0 = {"analyzer": aname, "field": kind}
    has_offsets = offkind is not None
    has_positions = bool(field.format and field.format.supports("positions"))

    # ---- token streams (monitors d, e)
    docs = []
    for text in texts:
        wit = dict(wit0, text=short(text, 400))
        try:
            itoks = analyse(ana, text, "index", chars=has_offsets or True)
            qtexts = list(field.process_text(text, mode="query"))
        except Exception as e:  # noqa
            mech, in_harness = exc_mech("analyze", e)
            if in_harness:
                raise
            ctx.fail("analyze", mech, wit, traceback.format_exc()[-2000:])
            docs.append(None)
            continue
        docs.append((text, itoks, qtexts))
        check_positions(ctx, wit, itoks, posclass)
        if has_offsets:
            check_offsets(ctx, wit, ana, text, itoks)

    # ---- index
    schema = fields.Schema(id=fields.ID(stored=True), f=field)
    try:
        ix = RamStorage().create_index(schema)
        w = ix.writer()
        for i, text in enumerate(texts):
            w.add_document(id=str(i), f=text)
        w.commit()
    except Exception as e:  # noqa
        mech, in_harness = exc_mech("index", e)
        if in_harness:
            raise
        ctx.fail("index", mech, dict(wit0, texts=[short(t, 200) for t in texts]), traceback.format_exc()[-2000:])
        return (aname, kind, "index-failed"), False, wit0
    nontrivial = False
    sample = None
    # every second case: the index is re-opened from its storage, as a search process would do it. The schema - and with it
    # the analyzer configuration used at QUERY time - then comes from the pickle in the TOC, not from the object in memory
    if random.Random("c17-reopen:%r" % rng.random()).random() < 0.5:
        try:
            ix = ix.storage.open_index()
            schema = ix.schema
            qfield = schema["f"]
            docs = [None if d is None else (d[0], d[1], list(qfield.process_text(d[0], mode="query"))) for d in docs]
            ctx.count("cases.reopened_schema")
            wit0 = dict(wit0, schema="unpickled from the TOC")
            # the unpickled analyzer must analyse exactly as the one the documents were indexed with
            for d in docs:
                if d is None or qfield.analyzer is None:
                    continue
                again = analyse(qfield.analyzer, d[0], "index")
                ctx.count("reopen.stream_compares")
                if [t.tup() for t in again] != [t.tup() for t in d[1]]:
                    ctx.fail("reopen.analysis", "index-mode-stream-differs-after-schema-round-trip:%s" % aname,
                             dict(wit0, text=short(d[0], 400), before=[t.tup() for t in d[1]][:12],
                                  after=[t.tup() for t in again][:12]))
                    break
        except Exception as e:  # noqa
            mech, in_harness = exc_mech("reopen", e)
            if in_harness:
                raise
            ctx.fail("index", mech, dict(wit0, texts=[short(t, 200) for t in texts]), traceback.format_exc()[-2000:])
            return (aname, kind, "reopen-failed"), False, wit0
    try:
        parser = qparser.QueryParser("f", schema)
    except Exception:  # noqa
        parser = None
    with ix.searcher() as s:
        def ids(q, **kw):
            return set(s.stored_fields(dn)["id"] for dn in s.docs_for_query(q, **kw))
        for i, d in enumerate(docs):
            if d is None:
                continue
            text, itoks, qtexts = d
            ctx.count("docs")
            did = str(i)
            wit = dict(wit0, text=short(text, 400), doc=did)
            distinct = []
            seen = set()
            for t in itoks:
                if t.text not in seen:
                    seen.add(t.text)
                    distinct.append(t.text)
            if len(distinct) >= 2:
                nontrivial = True
            if not distinct:
                ctx.count("docs.no_tokens")
                continue
            try:
                # (a) own index-time tokens
                pick = distinct if len(distinct) <= 14 else rng.sample(distinct, 14)
                for tok in pick:
                    ctx.count("a.term_checks")
                    if did not in ids(query.Term("f", tok)):
                        ctx.fail("a.own-token", "term-not-found:%s" % aname, dict(wit, token=short(tok)),
                                 "Term(f, %r) does not match the document that produced it" % short(tok))
                        break
                # (b) conjunction of query-mode tokens
                if qtexts:
                    ctx.count("b.and_checks")
                    q = query.And([query.Term("f", x) for x in dict.fromkeys(qtexts)])
                    if did not in ids(q):
                        missing = [x for x in dict.fromkeys(qtexts) if did not in ids(query.Term("f", x))]
                        ctx.fail("b.query-mode-and", "and-of-query-tokens-not-found:%s" % aname,
                                 dict(wit, query_tokens=[short(x, 40) for x in qtexts[:12]],
                                      unfound=[short(x, 40) for x in missing[:6]],
                                      index_tokens=[short(x, 40) for x in distinct[:12]]))
                else:
                    ctx.count("b.no_query_tokens")
                # (b') the real parser on single pieces
                if parser is not None:
                    pieces = [p for p in dict.fromkeys(text.split())
                              if not (set(p) & PARSER_SPECIAL) and p not in OPERATOR_WORDS]
                    rng.shuffle(pieces)
                    for piece in pieces[:3]:
                        try:
                            ptoks = [t.text for t in ana(piece, mode="index")]
                        except Exception:  # noqa  (reported by the analyze monitor on whole texts)
                            continue
                        if not ptoks or not all(x in seen for x in ptoks):
                            ctx.count("b.parser_skipped_context")
                            continue
                        ctx.count("b.parser_checks")
                        pq = parser.parse(piece)
                        if did not in ids(pq):
                            ctx.fail("b.parser", "parser-word-not-found:%s" % aname,
                                     dict(wit, piece=short(piece), parsed=repr(pq)[:300],
                                          piece_index_tokens=[short(x, 40) for x in ptoks[:8]]))
                            break
                # (c) phrases at consecutive positions
                phrase_words = None
                if has_positions:
                    bypos = {}
                    for t in itoks:
                        if t.pos is not None:
                            bypos.setdefault(t.pos, []).append(t.text)
                    ps = sorted(bypos)
                    runs = []
                    for a in range(len(ps)):
                        for ln in (2, 3):
                            if a + ln <= len(ps) and ps[a + ln - 1] == ps[a] + ln - 1:
                                runs.append(ps[a:a + ln])
                    rng.shuffle(runs)
                    for run in runs[:4]:
                        words = [rng.choice(bypos[p]) for p in run]
                        if phrase_words is None:
                            phrase_words = words
                        ctx.count("c.phrase_checks")
                        if did not in ids(query.Phrase("f", words)):
                            ctx.fail("c.phrase", "phrase-at-consecutive-positions-not-found:%s" % aname,
                                     dict(wit, words=[short(x, 40) for x in words], positions=run))
                            break
                # (c') the same reading with QUERY-time analysis of the document's text (what a quoted phrase typed by a user
                # becomes): tokens at consecutive query-time positions must find the document by phrase as well
                if has_positions:
                    qana = schema["f"].analyzer
                    try:
                        qtoks = analyse(qana, text, "query") if qana is not None else []
                    except Exception:  # noqa - reported by the analyze monitor
                        qtoks = []
                    qbypos = {}
                    for t in qtoks:
                        if t.pos is not None:
                            qbypos.setdefault(t.pos, []).append(t.text)
                    qps = sorted(qbypos)
                    qruns = [qps[a:a + ln] for a in range(len(qps)) for ln in (2, 3)
                             if a + ln <= len(qps) and qps[a + ln - 1] == qps[a] + ln - 1]
                    rng2 = random.Random("c17-qphrase:%r" % rng.random())
                    rng2.shuffle(qruns)
                    for run in qruns[:3]:
                        words = [rng2.choice(qbypos[p_]) for p_ in run]
                        ctx.count("c.query_phrase_checks")
                        if did not in ids(query.Phrase("f", words)):
                            ctx.fail("c.phrase", "phrase-at-consecutive-query-time-positions-not-found:%s" % aname,
                                     dict(wit, words=[short(x, 40) for x in words], query_positions=run,
                                          index_tokens=[t.tup() for t in itoks[:16]], query_tokens=[t.tup() for t in qtoks[:16]]))
                            break
                # (c'') the quoted text typed by a user: the source text spanning 2..4 CONSECUTIVE index-time tokens (whatever lies
                # between them in the source - stop words, punctuation - included), through the real parser. Tokens that the
                # analyzer drops in between must not keep the kept ones apart, unless the analyzer is configured not to
                # renumber (NO_QUOTED_PHRASE)
                if (has_positions and has_offsets and parser is not None and posclass == "one" and aname not in NO_QUOTED_PHRASE
                        and len(itoks) >= 2 and all(t.sc is not None for t in itoks)):
                    rng3 = random.Random("c17-quoted:%r" % rng.random())
                    for _try in range(3):
                        a0 = rng3.randrange(len(itoks) - 1)
                        b0 = min(len(itoks) - 1, a0 + rng3.choice([1, 1, 2, 3]))
                        ptext = text[itoks[a0].sc:itoks[b0].ec]
                        if (set(ptext) & PARSER_SPECIAL) or '"' in ptext or any(w_ in OPERATOR_WORDS for w_ in ptext.split()):
                            continue
                        if any(c_.isspace() and c_ != " " for c_ in ptext):
                            continue        # the parser's quoted-phrase syntax does not span line breaks
                        try:
                            ptoks = [t.text for t in ana(ptext, mode="index")]
                        except Exception:  # noqa
                            continue
                        if ptoks != [t.text for t in itoks[a0:b0 + 1]]:
                            ctx.count("c.quoted_phrase_skipped_context")      # the piece analyses differently out of context
                            continue
                        ctx.count("c.quoted_phrase_checks")
                        pq = parser.parse('"%s"' % ptext)
                        if did not in ids(pq):
                            ctx.fail("c.phrase", "quoted-own-text-not-found:%s" % aname,
                                     dict(wit, quoted=short(ptext), parsed=repr(pq)[:300], index_tokens=[t.tup() for t in itoks[:16]]))
                            break
                # (f) highlights
                if has_offsets or True:
                    check_highlights(ctx, rng, s, wit, field, ana, text, itoks, distinct, did, kind, has_offsets)
                    if phrase_words and has_offsets and rng.random() < 0.5:
                        check_strict_phrase(ctx, rng, s, wit, ana, text, itoks, phrase_words, did)
            except Exception as e:  # noqa
                mech, in_harness = exc_mech("search", e)
                if in_harness:
                    raise
                ctx.fail("search", mech, wit, traceback.format_exc()[-2500:])
            if sample is None and len(distinct) >= 2:
                sample = dict(wit, index_tokens=[short(x, 30) for x in distinct[:8]],
                              query_tokens=[short(x, 30) for x in qtexts[:8]])
    return (aname, kind, tuple(sorted(classes))), nontrivial, sample


# ---- (d) positions -----------------------------------------------------

def check_positions(ctx, wit, itoks, posclass):
    if not itoks or itoks[0].pos is None:
        return
    ctx.count("d.position_streams")
    prev = None
    for t in itoks:
        if t.pos is None:
            continue
        if prev is not None:
            ctx.count("d.position_pairs")
            if t.pos < prev.pos:
                ctx.fail("d.positions", "positions-decrease:%s" % wit["analyzer"],
                         dict(wit, tokens=[x.tup() for x in itoks[:20]]),
                         "pos %r after pos %r" % (t.pos, prev.pos))
                return
            if posclass == "one" and t.pos == prev.pos:
                ctx.fail("d.positions", "positions-not-strict:%s" % wit["analyzer"],
                         dict(wit, tokens=[x.tup() for x in itoks[:20]]),
                         "two tokens share position %r" % (t.pos,))
                return
        prev = t
    # order of appearance: a token that ends before another starts must not have a greater position
    withc = [t for t in itoks if t.sc is not None and t.pos is not None]
    for a in range(len(withc) - 1):
        A = withc[a]
        for B in withc[a + 1:a + 6]:
            if B.ec <= A.sc and B.ec > B.sc and B.pos > A.pos:
                ctx.fail("d.positions", "position-order-vs-text-order:%s" % wit["analyzer"],
                         dict(wit, tokens=[x.tup() for x in itoks[:20]]),
                         "%r lies before %r in the text but has the greater position" % (B.tup(), A.tup()))
                return
            if A.ec <= B.sc and A.ec > A.sc and A.pos > B.pos:
                ctx.fail("d.positions", "position-order-vs-text-order:%s" % wit["analyzer"],
                         dict(wit, tokens=[x.tup() for x in itoks[:20]]),
                         "%r lies before %r in the text but has the greater position" % (A.tup(), B.tup()))
                return


# ---- (e) offsets -------------------------------------------------------

def _has_strip(ana):
    items = getattr(ana, "items", None) or [ana]
    out = False
    for x in items:
        if type(x).__name__ == "StripFilter":
            out = True
        sub = getattr(x, "items", None)
        if sub:
            out = out or any(type(y).__name__ == "StripFilter" for y in sub)
    return out


def check_offsets(ctx, wit, ana, text, itoks):
    n = len(text)
    done = set()
    for t in itoks:
        if t.sc is None or t.ec is None:
            continue
        key = (t.text, t.sc, t.ec)
        if key in done:
            continue
        done.add(key)
        if len(done) > 40:
            break
        ctx.count("e.offset_checks")
        if not (0 <= t.sc <= t.ec <= n):
            ctx.fail("e.offsets", "chars-out-of-range:%s" % wit["analyzer"], dict(wit, token=t.tup(), textlen=n))
            return
        piece = text[t.sc:t.ec]
        # the slice IS the token (possibly lower-cased): exact by inspection. Surrounding white space inside the
        # slice is only legitimate behind a StripFilter (it strips the token TEXT and documents that it keeps the
        # offsets of the unstripped token); for every other analyzer a slice with extra blanks is not "exactly the
        # token's source text" and falls through to the re-analysis test below
        variants = [piece, piece.lower()]
        if _has_strip(ana):
            variants += [piece.strip(), piece.strip().lower()]
        if t.text in variants:
            ctx.count("e.exact_by_equality")
            continue
        # independent of the analyzer under test (the re-analysis below would repeat an offset bug of the
        # tokenizer itself): a token without surrounding blanks whose reported source slice has some is not
        # delimited exactly - unless a StripFilter is documented to produce just that
        if piece != piece.strip() and t.text == t.text.strip() and not _has_strip(ana):
            ctx.fail("e.offsets", "slice-has-surrounding-whitespace:%s" % wit["analyzer"],
                     dict(wit, token=t.tup(), slice=short(piece, 80)),
                     "text[%d:%d]=%r for token %r" % (t.sc, t.ec, short(piece, 60), short(t.text, 60)))
            return
        # otherwise (stemming, folding, bi-words, merged sub-words ...): the token must be reproducible from
        # exactly this slice, spanning it fully
        try:
            again = [(x.text, x.startchar, x.endchar) for x in ana(piece, positions=True, chars=True, mode="index")]
        except Exception:  # noqa  (the analyze monitor reports exceptions)
            continue
        ctx.count("e.exact_by_reanalysis")
        if not any(tx == t.text and sc == 0 and ec == len(piece) for tx, sc, ec in again):
            ctx.fail("e.offsets", "slice-does-not-reproduce-token:%s" % wit["analyzer"],
                     dict(wit, token=t.tup(), slice=short(piece, 80), reanalysed=[a for a in again[:8]]),
                     "text[%d:%d]=%r re-analysed gives %r, not the token %r spanning the slice" % (
                         t.sc, t.ec, short(piece, 60), again[:6], short(t.text, 60)))
            return


# ---- (f) highlights ------------------------------------------------------
SENT = "\x00\x01\x00"
TAG = re.compile(r"</?strong[^>]*>")
MARK = re.compile(r'<strong class="match term\d+">(.*?)</strong>', re.S)


def check_highlights(ctx, rng, s, wit, field, ana, text, itoks, distinct, did, kind, has_offsets):
    from whoosh import highlight, query
    if not field.stored:
        return
    # query over 1..3 of the document's own tokens
    k = rng.choice([1, 1, 2, 3])
    qtoks = rng.sample(distinct, min(k, len(distinct)))
    q = query.Term("f", qtoks[0]) if len(qtoks) == 1 else query.Or([query.Term("f", x) for x in qtoks])
    fragmenters = [("context", lambda: highlight.ContextFragmenter(maxchars=rng.choice([200, 40, 15]),
                                                                  surround=rng.choice([20, 5, 0]))),
                   ("sentence", lambda: highlight.SentenceFragmenter(maxchars=rng.choice([200, 30]))),
                   ("whole", lambda: highlight.WholeFragmenter()),
                   ("pinpoint", lambda: highlight.PinpointFragmenter(maxchars=rng.choice([200, 30]),
                                                                    surround=rng.choice([20, 4, 0]),
                                                                    autotrim=rng.random() < 0.3))]
    formatters = [("upper", lambda: highlight.UppercaseFormatter(between=SENT)),
                  ("html", lambda: highlight.HtmlFormatter(between=SENT)),
                  ("null", lambda: highlight.NullFormatter())]
    qset = set(qtoks)
    if has_offsets and rng.random() < 0.3:
        check_lowlevel_highlight(ctx, rng, wit, ana, text, qtoks)
    # source ranges of the matched terms, from the index-mode analysis of the whole text
    ranges = source_ranges(ana, text, "index", qset, itoks)
    for _ in range(2):
        frname, frf = rng.choice(fragmenters)
        foname, fof = rng.choice(formatters)
        terms = rng.random() < 0.6 or frname == "pinpoint"
        r = s.search(q, limit=None, terms=terms)
        hit = None
        for h in r:
            if h["id"] == did:
                hit = h
        if hit is None:
            return      # (a) reports unfindable documents
        fm = fof()
        fm.between = SENT
        captured = []
        orig = fm.format

        def spy(fragments, replace=False, orig=orig, captured=captured):
            fragments = list(fragments)
            captured.append(fragments)
            return orig(fragments, replace)
        fm.format = spy
        r.fragmenter = frf()
        r.formatter = fm
        ctx.count("f.highlights")
        ctx.count("f.%s.%s" % (frname, foname))
        pin = frname == "pinpoint" and terms and "chars" in kind
        if pin:
            ctx.count("f.pinpoint")
        hw = dict(wit, fragmenter=frname, formatter=foname, terms=terms, query_tokens=[short(x, 40) for x in qtoks])
        out = hit.highlights("f", top=rng.choice([1, 3, 5]))
        if not isinstance(out, str):
            ctx.fail("f.highlight", "non-string-output:%s" % foname, hw, repr(out)[:200])
            continue
        if not out:
            ctx.count("f.empty")
        # --- excerpt pieces are substrings of the original text
        for piece in (out.split(SENT) if out else []):
            ctx.count("f.pieces")
            if foname == "html":
                plain = html.unescape(TAG.sub("", piece))
                ok = plain in text
            elif foname == "upper":
                plain = piece
                ok = piece.upper() in text.upper()
            else:
                plain = piece
                ok = piece in text
            if not ok:
                ctx.fail("f.highlight", "excerpt-not-substring:%s/%s" % (frname, foname),
                         dict(hw, excerpt=short(plain, 200), pinpoint_path=pin))
                break
        # --- marked spans are matched terms' source texts
        if not captured:
            continue
        frags = captured[0]
        for fr in frags:
            if not (0 <= fr.startchar <= fr.endchar <= len(text)):
                ctx.fail("f.highlight", "fragment-out-of-range:%s" % frname,
                         dict(hw, fragment=(fr.startchar, fr.endchar), textlen=len(text), pinpoint_path=pin))
                break
            if not has_offsets:
                continue
            index = fr.startchar
            for m in fr.matches:
                if m.startchar is None or m.startchar < index:
                    continue
                index = m.endchar
                ctx.count("f.marked_spans")
                a, b = m.startchar, m.endchar
                inside = [(sc, ec) for sc, ec in ranges if a <= sc and ec <= b]
                ok = bool(inside) and min(sc for sc, _ in inside) == a and max(ec for _, ec in inside) == b
                if ok:
                    # covered without holes
                    reach = a
                    for sc, ec in sorted(inside):
                        if sc > reach:
                            ok = False
                            break
                        reach = max(reach, ec)
                    ok = ok and reach >= b
                if not ok:
                    ctx.fail("f.highlight", "marked-span-not-a-matched-term:%s%s" % (frname, "(stored-chars)" if pin else ""),
                             dict(hw, span=(a, b), marked=short(text[a:b], 80), matched_term_ranges=ranges[:12],
                                  pinpoint_path=pin, output=short(out, 300)),
                             "marked text[%d:%d]=%r; source ranges of the matched terms: %r" % (
                                 a, b, short(text[a:b], 60), ranges[:12]))
                    break
        if foname == "html" and has_offsets and out:
            marked = [html.unescape(x) for x in MARK.findall(out)]
            expect = []
            for fr in frags:
                index = fr.startchar
                for m in fr.matches:
                    if m.startchar is None or m.startchar < index:
                        continue
                    index = m.endchar
                    expect.append(text[m.startchar:m.endchar])
            ctx.count("f.html_markup_checks")
            if marked != expect:
                ctx.fail("f.highlight", "html-markup-differs-from-fragments:%s" % frname,
                         dict(hw, marked=[short(x, 40) for x in marked[:8]], expected=[short(x, 40) for x in expect[:8]]))


def check_lowlevel_highlight(ctx, rng, wit, ana, text, qtoks):
    """whoosh.highlight.highlight(text, terms, analyzer, fragmenter, formatter) - the documented low-level API, which
    analyses in query mode."""
    from whoosh import highlight
    try:
        qmode = analyse(ana, text, "query")
    except Exception:  # noqa  (the analyze monitor reports exceptions of index mode; query mode is (b)'s subject)
        return
    qset = set(qtoks)
    ranges = source_ranges(ana, text, "query", qset, qmode)
    frname, fr = rng.choice([("context", highlight.ContextFragmenter(surround=rng.choice([20, 3]))),
                             ("sentence", highlight.SentenceFragmenter()), ("whole", highlight.WholeFragmenter()),
                             ("pinpoint", highlight.PinpointFragmenter(surround=rng.choice([20, 3])))])
    fm = rng.choice([highlight.NullFormatter(), highlight.HtmlFormatter(tagname="em", classname="hit", maxclasses=2),
                     highlight.UppercaseFormatter()])
    fm.between = SENT
    captured = []
    orig = fm.format

    def spy(fragments, replace=False):
        fragments = list(fragments)
        captured.append(fragments)
        return orig(fragments, replace)
    fm.format = spy
    ctx.count("f.lowlevel")
    hw = dict(wit, api="highlight.highlight()", fragmenter=frname, formatter=type(fm).__name__,
              query_tokens=[short(x, 40) for x in qtoks])
    out = highlight.highlight(text, qset, ana, fr, fm, top=rng.choice([1, 3]),
                              order=rng.choice([highlight.FIRST, highlight.SCORE, highlight.LONGER, highlight.SHORTER]))
    for piece in (out.split(SENT) if out else []):
        if isinstance(fm, highlight.HtmlFormatter):
            ok = html.unescape(re.sub(r"</?em[^>]*>", "", piece)) in text
        elif isinstance(fm, highlight.UppercaseFormatter):
            ok = piece.upper() in text.upper()
        else:
            ok = piece in text
        if not ok:
            ctx.fail("f.highlight", "excerpt-not-substring:lowlevel/%s" % frname, dict(hw, excerpt=short(piece, 200)))
            return
    for fr_ in (captured[0] if captured else []):
        index = fr_.startchar
        for m in fr_.matches:
            if m.startchar is None or m.startchar < index:
                continue
            index = m.endchar
            ctx.count("f.lowlevel_spans")
            if not span_ok(m.startchar, m.endchar, ranges):
                ctx.fail("f.highlight", "marked-span-not-a-matched-term:lowlevel/%s" % frname,
                         dict(hw, span=(m.startchar, m.endchar), marked=short(text[m.startchar:m.endchar], 80),
                              matched_term_ranges=ranges[:12], output=short(out, 300)))
                return


def span_ok(a, b, ranges):
    """A marked span [a,b) must start at the start and end at the end of source ranges of matched terms and be
    covered by such ranges without holes."""
    inside = sorted((sc, ec) for sc, ec in ranges if a <= sc and ec <= b)
    if not inside or inside[0][0] != a or max(ec for _, ec in inside) != b:
        return False
    reach = a
    for sc, ec in inside:
        if sc > reach:
            return False
        reach = max(reach, ec)
    return reach >= b


def check_strict_phrase(ctx, rng, s, wit, ana, text, itoks, words, did):
    """Hit.highlights(strict_phrase=True) for a phrase query made of the document's own consecutive tokens: what is
    marked must still be source text of the phrase's words."""
    from whoosh import highlight, query
    q = query.Phrase("f", list(words))
    r = s.search(q, limit=None)
    hit = None
    for h in r:
        if h["id"] == did:
            hit = h
    if hit is None:
        return
    fm = highlight.NullFormatter()
    fm.between = SENT
    captured = []
    orig = fm.format

    def spy(fragments, replace=False):
        fragments = list(fragments)
        captured.append(fragments)
        return orig(fragments, replace)
    fm.format = spy
    r.fragmenter = rng.choice([highlight.WholeFragmenter, highlight.ContextFragmenter])()
    r.formatter = fm
    ctx.count("f.strict_phrase")
    hw = dict(wit, phrase=[short(x, 40) for x in words], strict_phrase=True)
    out = hit.highlights("f", top=3, strict_phrase=True)
    for piece in (out.split(SENT) if out else []):
        if piece not in text:
            ctx.fail("f.highlight", "excerpt-not-substring:strict-phrase", dict(hw, excerpt=short(piece, 200)))
            return
    qset = set(words)
    ranges = source_ranges(ana, text, "index", qset, itoks)
    nmarked = 0
    for fr in (captured[0] if captured else []):
        index = fr.startchar
        for m in fr.matches:
            if m.startchar is None or m.startchar < index:
                continue
            index = m.endchar
            nmarked += 1
            ctx.count("f.strict_phrase_spans")
            if not span_ok(m.startchar, m.endchar, ranges):
                ctx.fail("f.highlight", "strict-phrase-marks-non-phrase-word",
                         dict(hw, span=(m.startchar, m.endchar), marked=short(text[m.startchar:m.endchar], 80),
                              phrase_word_ranges=ranges[:12], output=short(out, 300)))
                return


# ----------------------------------------------------------------------

def run(ctx):
    CAT = catalogue()
    names = sorted(CAT)
    try:
        import genshi  # noqa
        ctx.extra["genshi_formatter"] = "available but not exercised"
    except Exception:  # noqa
        ctx.extra["genshi_formatter"] = "genshi not installed: GenshiFormatter not exercised"
    for idx in ctx.cases(quick=700, thorough=5000):
        rng = ctx.rng(idx)
        ctx.reseed_global(idx)
        shape, nontrivial, sample = one_case(ctx, rng, CAT, names)
        ctx.case(shape, nontrivial, sample=sample if idx % 37 == 0 else None)
