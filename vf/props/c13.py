"""C13 - numeric and date fields order and range-match exactly.

Monitor shape: (A) exhaustive enumeration of the 8-bit domain on the pure range-decomposition functions
(split_ranges / tiered_ranges) against interval arithmetic; (B) reference-model monitor: real NUMERIC/DATETIME
fields in a real small index, NumericRange/DateRange result sets, sort order, encodings and domain checks
compared with plain Python comparisons on the values.
"""
import datetime
import math
import struct
from decimal import Decimal

LEVEL = "exploration"
EXHAUSTIVE = ("8-bit domain, pure functions, enumerated completely in every run (both tiers): "
              "(1) whoosh.util.numeric.split_ranges(8, step, start, end) for every step in 1..8 and every pair "
              "0 <= start <= end <= 255 (8 x 32896 = 263168 calls, counter exhaustive.split_ranges); "
              "(2) to_sortable/from_sortable and NUMERIC(int, 8).to_bytes/from_bytes over all 256 values, signed and "
              "unsigned (counter exhaustive.codec8); "
              "(3) tiered_ranges(int, 8, signed, start, end, step, startexcl, endexcl) for signed in {True, False}, "
              "step in 0..8, all four exclusivity flag pairs and every start <= end with each end also None "
              "(2 x 9 x 4 x 33409 = 2405448 calls, counter exhaustive.tiered_ranges). "
              "The thorough tier additionally enumerates completely, through a real 256-document index holding every "
              "value of the domain once, for NUMERIC(int, 8, signed in {True, False}): every NumericRange(start, end, startexcl, "
              "endexcl) of the same (start, end, flags) space for shift_step 1 (2 x 4 x 33409 = 267272 searches) and every closed "
              "NumericRange(start, end) of the same (start, end) space for shift_step 4 and shift_step 0 (4 x 33409 = 133636 "
              "searches; on 8 bits shift_step 8 compiles to the same single term range as 0); together 400908 searches, "
              "counter exhaustive.searched. "
              "Everything wider than 8 bits (16/32/64-bit ints, floats, Decimals, datetimes) is sampled with boundary bias, not exhaustive.")
RULE = ("exhaustive part: see exhaustive_scope. Sampled part: a case = one field configuration (int 8/16/32/64 x signed/"
        "unsigned x shift_step 0..8, float signed/unsigned, Decimal with decimal_places 1..4, DATETIME) + a boundary-biased "
        "multiset of 1..30 values (min, max, 0, -0.0, denormals, infinities, microseconds, datetime.min/max, neighbours of "
        "bucket boundaries) indexed into a real index (1 or 2 segments) + ~24 range queries with bounds drawn from the "
        "values, their neighbours and the domain extremes (closed/open/half-open/unbounded; NumericRange/DateRange objects via "
        "search() and docs(), and the query language) + point queries + ~10 tiered_ranges calls checked as a pure function on the wide "
        "domain + sort (column and term based) + out-of-domain probes at indexing and query time; 20% of the cases have "
        "multi-valued documents. Every 25th case is a big one: a segment of 4120-4950 documents (or 2100-2900 plus a second "
        "segment), uniformly drawn values, optional deletions, 10 narrow / wide / open ranges through docs(), search(), "
        "scored=False and limit=3 (len and docs()), so that sparse matches straddle the 2048-document parts of the buffered union. "
        "A searched range is non-trivial when its expected result is neither empty nor every document; distinct = distinct "
        "(field configuration, flags, None-pattern, bound classes, result-size class).")
ASSUMPTIONS = [
    "-0.0 and 0.0 are equal values: either placement/order of the two is accepted; NaN is not a value of the domain",
    "-0.0 is not fed to NUMERIC(float, signed=False) (its sign bit makes it a negative bit pattern; rejecting or accepting it is not judged)",
    "Decimal fields are fed Decimal instances/strings with at most decimal_places fractional digits (the documentation "
    "says further digits are truncated), as values and as range bounds",
    "an out-of-domain range bound at query time may either raise (ValueError/OverflowError/QueryParserError/QueryError) or "
    "be answered exactly as the mathematical interval; it must not match anything else (no wrapping)",
    "an out-of-domain value at indexing time must raise (any exception; field.is_valid() may answer False or raise) and "
    "leave no document in the index",
    "time zones are out of scope: datetimes are naive",
    "sortedby: only the order of documents with different values is judged (ties may come in any order); all documents "
    "have a value (missing values belong to C14)",
    "the DATETIME text syntax is only probed with impossible calendar fields (must be rejected at indexing time); date "
    "range strings in the query language and the date parser plug-in (ambiguous dates, floor/ceil) belong to C16",
    "the byte layout of the terms is not prescribed: only from_bytes(to_bytes(x)) == x, order of the full-precision bytes, and "
    "weak monotonicity of every lower-precision level are demanded",
    "query-language paths (n:[a TO b], n:{a TO b}, n:[a TO], n:[TO b], n:v) are used for ints, Decimals and floats whose repr has "
    "no exponent; an out-of-domain bound there may also be answered with a NullQuery",
    "multi-valued documents (a list of numbers in one field) match when any of their values is inside; sorting is only judged "
    "on single-valued cases",
]
SHARDS = {"quick": 4, "thorough": 16}
BUDGET_S = {"quick": 80, "thorough": 900}
FLOORS = {
    "quick": {"exhaustive.split_ranges": 263168, "exhaustive.tiered_ranges": 2405448, "exhaustive.codec8": 512,
              "range.searched": 4500, "range.nontrivial": 3000, "range.path.parser": 900, "point.searched": 700,
              "tiered.sampled": 1500, "codec.values": 5000, "sort.checked": 300, "ood.index": 1200, "ood.query": 1100,
              "cfg.int": 90, "cfg.float": 40, "cfg.decimal": 25, "cfg.datetime": 25, "cfg.multivalued": 30,
              "range.zero_sign_relaxed": 3, "range.big_searched": 80, "range.big_sparse_across_parts": 25},
    "thorough": {"exhaustive.split_ranges": 263168, "exhaustive.tiered_ranges": 2405448, "exhaustive.codec8": 512,
                 "exhaustive.searched": 400908,
                 "range.searched": 32000, "range.nontrivial": 23000, "range.path.parser": 7000, "point.searched": 5000,
                 "tiered.sampled": 11500, "codec.values": 36000, "sort.checked": 2100, "ood.index": 10000, "ood.query": 8000,
                 "cfg.int": 670, "cfg.float": 260, "cfg.decimal": 190, "cfg.datetime": 200, "cfg.multivalued": 250,
                 "range.zero_sign_relaxed": 40, "range.big_searched": 500, "range.big_sparse_across_parts": 150},
}


# ----------------------------------------------------------------------
# (A) exhaustive 8-bit pure functions
# ----------------------------------------------------------------------

def _union(buckets):
    """buckets: list of (lo, hi) inclusive -> sorted disjoint list of maximal intervals."""
    out = []
    for lo, hi in sorted(buckets):
        if out and lo <= out[-1][1] + 1:
            if hi > out[-1][1]:
                out[-1][1] = hi
        else:
            out.append([lo, hi])
    return [tuple(x) for x in out]


def _check_buckets(ctx, monitor, mechpfx, w, ranges, bits, step, lo, hi):
    """ranges: iterable of (start, end, shift) as produced by split_ranges/tiered_ranges.
    The consumer shifts start and end right by shift and matches every indexed term of that level whose
    shifted value lies in between; so a bucket covers the values v with start>>shift <= v>>shift <= end>>shift.
    Demanded: union == [lo, hi] exactly (empty when lo > hi), every bucket inside [0, 2^bits), every shift is a
    level that is actually indexed (multiple of step below bits)."""
    top = (1 << bits) - 1
    cover = []
    for s, e, sh in ranges:
        if sh < 0 or sh >= bits or (step and sh % step) or (not step and sh):
            ctx.fail(monitor, mechpfx + ":shift-not-an-indexed-level", w, "bucket %r" % ((s, e, sh),))
            return False
        a, b = s >> sh, e >> sh
        if lo > hi and a > b and 0 <= b and a <= (top >> sh):
            continue  # an empty (but encodable) bucket for an empty interval covers nothing
        if a < 0 or b > (top >> sh) or a > b:
            ctx.fail(monitor, mechpfx + ":bucket-outside-domain", w, "bucket %r shifted (%d, %d), domain max %d" % ((s, e, sh), a, b, top >> sh))
            return False
        cover.append((a << sh, (b << sh) | ((1 << sh) - 1)))
    got = _union(cover)
    exp = [(lo, hi)] if lo <= hi else []
    if got != exp:
        extra = any(g[0] < lo or g[1] > hi for g in got) if exp else bool(got)
        ctx.fail(monitor, mechpfx + (":covers-too-much" if extra else ":covers-too-little"), w,
                 "union of buckets %r expected %r" % (got[:6], exp))
        return False
    return True


def exhaustive_pure(ctx):
    from whoosh.util.numeric import split_ranges, tiered_ranges, to_sortable, from_sortable
    from whoosh import fields
    sh, n = ctx.shard, ctx.nshards
    # (1) split_ranges, 8 bit
    for step in range(1, 9):
        bad = False
        for start in range(256):
            if start % n != sh:
                continue
            for end in range(start, 256):
                ctx.count("exhaustive.split_ranges")
                if bad:
                    continue
                w = {"fn": "split_ranges", "intsize": 8, "step": step, "start": start, "end": end}
                try:
                    rs = list(split_ranges(8, step, start, end))
                except Exception as e:  # noqa
                    ctx.fail("split_ranges", "exc:%s(step=%d)" % (type(e).__name__, step), w, repr(e))
                    bad = True
                    continue
                if not _check_buckets(ctx, "split_ranges", "step=%d" % step, dict(w, buckets=rs), rs, 8, step, start, end):
                    bad = True  # first disagreement per step is the witness (smallest start, end)
    # (2) codec over the whole 8-bit domain
    if sh == 0:
        for signed in (True, False):
            dom = list(range(-128, 128)) if signed else list(range(256))
            f = fields.NUMERIC(int, 8, signed=signed)
            prev = None
            seen = set()
            for v in dom:
                ctx.count("exhaustive.codec8")
                w = {"fn": "codec8", "signed": signed, "value": v}
                s = to_sortable(int, 8, signed, v)
                if not (0 <= s <= 255) or s in seen:
                    ctx.fail("codec", "to_sortable(int8,%s):not-a-bijection" % signed, w, "sortable %r" % s)
                seen.add(s)
                if from_sortable(int, 8, signed, s) != v:
                    ctx.fail("codec", "from_sortable(int8,%s)" % signed, w)
                b = f.to_bytes(v)
                if f.from_bytes(b) != v:
                    ctx.fail("codec", "from_bytes(int8,%s)" % signed, w)
                if prev is not None and not (prev[0] < s and prev[1] < b):
                    ctx.fail("codec", "order(int8,%s)" % signed, w, "not above its predecessor")
                prev = (s, b)
            if (f.min_value, f.max_value) != (dom[0], dom[-1]):
                ctx.fail("codec", "min_max(int8,%s)" % signed, {"min": f.min_value, "max": f.max_value})
    # (3) tiered_ranges, 8 bit, both signs, all steps, flags, None ends
    for signed in (True, False):
        dom = list(range(-128, 128)) if signed else list(range(256))
        sort_of = {v: to_sortable(int, 8, signed, v) for v in dom}   # verified bijective+monotone in (2)
        for step in range(0, 9):
            for sx in (False, True):
                for ex in (False, True):
                    bad = False
                    key = "signed=%s,step=%d,startexcl=%s,endexcl=%s" % (signed, step, sx, ex)
                    starts = [None] + dom
                    for si, start in enumerate(starts):
                        if si % n != sh:
                            continue
                        ends = [None] + ([v for v in dom if v >= start] if start is not None else dom)
                        for end in ends:
                            ctx.count("exhaustive.tiered_ranges")
                            if bad:
                                continue
                            lo = 0 if start is None else sort_of[start] + (1 if sx else 0)
                            hi = 255 if end is None else sort_of[end] - (1 if ex else 0)
                            w = {"fn": "tiered_ranges", "bits": 8, "signed": signed, "step": step, "start": start, "end": end,
                                 "startexcl": sx, "endexcl": ex}
                            try:
                                rs = list(tiered_ranges(int, 8, signed, start, end, step, sx, ex))
                            except Exception as e:  # noqa
                                ctx.fail("tiered_ranges", "exc:%s(%s)" % (type(e).__name__, key), w, repr(e))
                                bad = True
                                continue
                            if not _check_buckets(ctx, "tiered_ranges", key, dict(w, buckets=rs), rs, 8, step, lo, hi):
                                bad = True
    ctx.case(("exhaustive-pure", sh), True, sample={"exhaustive": "8-bit split_ranges/tiered_ranges/codec", "shard": sh})


# ----------------------------------------------------------------------
# field configurations and value generators
# ----------------------------------------------------------------------

DENORM = 5e-324
FMAX = 1.7976931348623157e308
DT_MIN = datetime.datetime.min
DT_MAX = datetime.datetime.max


class Cfg(object):
    def __init__(self, kind, bits=32, signed=True, step=4, dc=0, sortable=True):
        self.kind, self.bits, self.signed, self.step, self.dc, self.sortable = kind, bits, signed, step, dc, sortable

    def key(self):
        return (self.kind, self.bits, self.signed, self.step, self.dc, self.sortable)

    def tag(self):
        if self.kind == "int":
            return "int%d%s/step%d" % (self.bits, "s" if self.signed else "u", self.step)
        if self.kind == "float":
            return "float%s/step%d" % ("s" if self.signed else "u", self.step)
        if self.kind == "decimal":
            return "decimal%d.%d%s/step%d" % (self.bits, self.dc, "s" if self.signed else "u", self.step)
        return "datetime"

    def make(self):
        from whoosh import fields
        if self.kind == "int":
            return fields.NUMERIC(int, self.bits, signed=self.signed, shift_step=self.step, stored=True, sortable=self.sortable)
        if self.kind == "float":
            return fields.NUMERIC(float, signed=self.signed, shift_step=self.step, stored=True, sortable=self.sortable)
        if self.kind == "decimal":
            return fields.NUMERIC(int, self.bits, decimal_places=self.dc, signed=self.signed, shift_step=self.step,
                                  stored=True, sortable=self.sortable)
        return fields.DATETIME(stored=True, sortable=self.sortable)

    # the domain, stated independently of the code under test
    def int_bounds(self):
        if self.signed:
            return -(1 << (self.bits - 1)), (1 << (self.bits - 1)) - 1
        return 0, (1 << self.bits) - 1


def pick_cfg(rng):
    r = rng.random()
    sortable = rng.random() < 0.7
    if r < 0.5:
        return Cfg("int", rng.choice([8, 16, 16, 32, 32, 64, 64]), rng.random() < 0.5, rng.choice([0, 1, 2, 3, 4, 4, 5, 6, 7, 8, 8]), sortable=sortable)
    if r < 0.7:
        return Cfg("float", 64, rng.random() < 0.7, rng.choice([0, 1, 4, 4, 8, 7]), sortable=sortable)
    if r < 0.85:
        return Cfg("decimal", rng.choice([16, 32, 64]), rng.random() < 0.7, rng.choice([0, 4, 8, 3]), dc=rng.choice([1, 2, 3, 4]), sortable=sortable)
    return Cfg("datetime", 64, True, 8, sortable=sortable)


def gen_value(cfg, rng, near=None):
    """One in-domain value, boundary biased. `near`: list of existing values to stay close to."""
    if cfg.kind == "int":
        lo, hi = cfg.int_bounds()
        step = cfg.step or 4
        c = rng.random()
        if near and c < 0.35:
            v = rng.choice(near) + rng.choice([-1, 1, -2, 2, 1 << step, -(1 << step), (1 << step) - 1])
        elif c < 0.55:
            v = rng.choice([lo, hi, lo + 1, hi - 1, lo + 2, hi - 2])
        elif c < 0.7:
            # neighbours of a bucket boundary of some level
            lvl = rng.randrange(1, max(2, cfg.bits // step + 1)) * step
            lvl = min(lvl, cfg.bits - 1)
            v = lo + (rng.randrange(0, 1 << (cfg.bits - lvl)) << lvl) + rng.choice([-1, 0, 1])
        elif c < 0.85:
            v = rng.randint(max(lo, -20), min(hi, 20))
        else:
            v = rng.randint(lo, hi)
        return min(hi, max(lo, v))
    if cfg.kind == "float":
        c = rng.random()
        if near and c < 0.3:
            b = rng.choice(near)
            if b != b or abs(b) == float("inf"):
                return b
            v = math.nextafter(b, rng.choice([math.inf, -math.inf])) if c < 0.2 else b + rng.choice([1.0, -1.0, 0.5])
            if not cfg.signed:
                v = abs(v) if v != 0 else 0.0
            return v
        v = rng.choice([0.0, -0.0, 1.0, -1.0, DENORM, -DENORM, 2 * DENORM, 2.2250738585072014e-308, -2.2250738585072014e-308,
                        FMAX, -FMAX, float("inf"), float("-inf"), 0.5, -0.5, 1e-310, -1e-310, 1e300, -1e300,
                        rng.uniform(-10, 10), float(rng.randint(-3, 3)), rng.uniform(-1e-5, 1e-5), 2.0 ** rng.randint(-1074, 1023),
                        -(2.0 ** rng.randint(-1074, 1023))])
        if not cfg.signed:
            v = abs(v)
            if v == 0:
                v = 0.0
        return v
    if cfg.kind == "decimal":
        lo, hi = cfg.int_bounds()
        c = rng.random()
        if near and c < 0.3:
            n = int(rng.choice(near).scaleb(cfg.dc)) + rng.choice([-1, 1, 10 ** cfg.dc, -(10 ** cfg.dc)])
        elif c < 0.5:
            n = rng.choice([lo, hi, lo + 1, hi - 1])
        elif c < 0.8:
            n = rng.randint(max(lo, -2 * 10 ** cfg.dc), min(hi, 2 * 10 ** cfg.dc))   # |v| < 2: leading zeros after the point
        else:
            n = rng.randint(lo, hi)
        n = min(hi, max(lo, n))
        return Decimal(n).scaleb(-cfg.dc)
    # datetime
    c = rng.random()
    if near and c < 0.35:
        try:
            return rng.choice(near) + datetime.timedelta(microseconds=rng.choice([1, -1, 1000000, -1000000, 86400 * 10 ** 6, 999999]))
        except OverflowError:
            return rng.choice(near)
    if c < 0.5:
        return rng.choice([DT_MIN, DT_MAX, DT_MIN + datetime.timedelta(microseconds=1), DT_MAX - datetime.timedelta(microseconds=1),
                           datetime.datetime(1970, 1, 1), datetime.datetime(1, 1, 1, 0, 0, 1), datetime.datetime(9999, 12, 31)])
    base = datetime.datetime(rng.choice([1, 2, 1582, 1900, 1970, 2000, 2024, 9998, 9999]), rng.randint(1, 12), rng.randint(1, 28))
    return base + datetime.timedelta(seconds=rng.randrange(86400), microseconds=rng.choice([0, 1, 999999, rng.randrange(10 ** 6)]))


def veq(a, b):
    return a == b


def ood_values(cfg, rng):
    """Values outside the field's domain (by magnitude / type), with a label."""
    if cfg.kind in ("int", "decimal"):
        lo, hi = cfg.int_bounds()
        if cfg.kind == "decimal":
            sc = lambda n: Decimal(n).scaleb(-cfg.dc)  # noqa
            return [("min-1", sc(lo - 1)), ("max+1", sc(hi + 1)), ("max*2", sc(hi * 2 + 7)), ("-huge", sc(-(1 << 70))),
                    ("junk-text", "1.2.3"), ("junk-text", "abc")]
        out = [("min-1", lo - 1), ("max+1", hi + 1), ("max+domain", hi + (1 << cfg.bits)), ("min-domain", lo - (1 << cfg.bits)),
               ("2^70", 1 << 70), ("-2^70", -(1 << 70)), ("inf", float("inf")), ("nan", float("nan"))]
        if not cfg.signed:
            out.append(("-1", -1))
        out += [("junk-text", "12a"), ("junk-text", "abc")]
        return out
    if cfg.kind == "float":
        out = [("junk-text", "1.5x")]
        if not cfg.signed:
            out += [("-1.0", -1.0), ("-denormal", -DENORM), ("-inf", float("-inf"))]
        return out
    # datetime: impossible calendar fields in the documented YYYYMMDDhhmmss text form, and non-dates
    return [("month-13", u"20101301"), ("feb-30", u"20100230"), ("hour-25", u"2010010125"), ("minute-60", u"201001012360"),
            ("year-0", u"00000101"), ("junk-text", u"abcd"), ("not-a-date", 12.5)]


# ----------------------------------------------------------------------
# (B) sampled cases through a real index
# ----------------------------------------------------------------------

def inside(v, st, en, sx, ex):
    if st is not None and (v < st or (sx and v == st)):
        return False
    if en is not None and (v > en or (ex and v == en)):
        return False
    return True


def _tk(v):
    """Total-order key in which -0.0 sorts just below 0.0 (the other accepted placement of the two zeros)."""
    if isinstance(v, float) and v == 0:
        return (0.0, 0 if math.copysign(1.0, v) < 0 else 1)
    return (v, 1)


def expected_sets(docs, st, en, sx, ex):
    """docs: list of tuples of values (a document matches when one of its values is inside).
    -> (must, may): ids that have to match / may match. They differ only for zero-valued floats against a
    zero bound, where both 'the zeros are equal' and '-0.0 < 0.0' are accepted."""
    py = set(i for i, vs in enumerate(docs) if any(inside(v, st, en, sx, ex) for v in vs))
    if not any(isinstance(b, float) and b == 0 for b in (st, en)):
        return py, py
    kst = None if st is None else _tk(st)
    ken = None if en is None else _tk(en)
    tot = set(i for i, vs in enumerate(docs) if any(inside(_tk(v), kst, ken, sx, ex) for v in vs))
    return py & tot, py | tot


def bclass(cfg, b, vals):
    if b is None:
        return "none"
    if cfg.kind in ("int",):
        lo, hi = cfg.int_bounds()
        if b == lo:
            return "min"
        if b == hi:
            return "max"
    if cfg.kind == "datetime" and b in (DT_MIN, DT_MAX):
        return "min" if b == DT_MIN else "max"
    return "val" if b in vals else "gap"


US = datetime.timedelta(microseconds=1)
DT_SPAN_US = (DT_MAX - DT_MIN) // US


def uniform_values(cfg, rng, n):
    """Uniformly random members of the domain (for the codec checks only; never indexed)."""
    out = []
    while len(out) < n:
        if cfg.kind == "float":
            v = struct.unpack(">d", struct.pack(">Q", rng.getrandbits(64)))[0]
            if v != v:
                continue
            if not cfg.signed:
                v = abs(v) if v != 0 else 0.0
        elif cfg.kind == "int":
            lo, hi = cfg.int_bounds()
            v = rng.randint(lo, hi)
        elif cfg.kind == "decimal":
            lo, hi = cfg.int_bounds()
            v = Decimal(rng.randint(lo, hi)).scaleb(-cfg.dc)
        else:
            v = DT_MIN + datetime.timedelta(microseconds=rng.randrange(DT_SPAN_US + 1))
        out.append(v)
    return out


def model_sortable(cfg, v):
    """The position of v in its domain. For the integer-backed kinds the order-preserving bijection of
    [min, max] onto [0, 2^bits) is unique (v - min), so this is independent of the code under test."""
    if cfg.kind == "int":
        return v - cfg.int_bounds()[0]
    if cfg.kind == "decimal":
        return int(v.scaleb(cfg.dc)) - cfg.int_bounds()[0]
    if cfg.kind == "datetime":
        return (v - DT_MIN) // US + (1 << 63)
    raise ValueError(cfg.kind)


def codec_checks(ctx, cfg, field, cvals, w, rng):
    from whoosh.util.numeric import to_sortable, from_sortable
    try:
        enc = [field.to_bytes(v) for v in cvals]
    except Exception as e:  # noqa
        ctx.fail("codec", "to_bytes(%s):exc:%s" % (_ck(cfg), type(e).__name__), w, repr(e))
        return False
    fbits = 64 if cfg.kind in ("float", "datetime") else cfg.bits
    for v, b in zip(cvals, enc):
        ctx.count("codec.values")
        try:
            back = field.from_bytes(b)
        except Exception as e:  # noqa
            ctx.fail("codec", "from_bytes(%s):exc:%s" % (_ck(cfg), type(e).__name__), dict(w, value=v), repr(e))
            return False
        if not (back == v) or type(back) is not type(v):
            ctx.fail("codec", "from_bytes(to_bytes(x))!=x(%s)" % _ck(cfg), dict(w, value=v), "got %r" % (back,))
            return False
    for i in range(len(cvals)):
        j = rng.randrange(len(cvals))
        a, b = cvals[i], cvals[j]
        if a == b:
            if enc[i] != enc[j] and not (cfg.kind == "float" and a == 0):
                ctx.fail("codec", "order(%s):equal-values-different-bytes" % _ck(cfg), dict(w, a=a, b=b))
                return False
        elif (a < b) != (enc[i] < enc[j]):
            ctx.fail("codec", "order(%s):bytes-order!=value-order" % _ck(cfg), dict(w, a=a, b=b), "%r vs %r" % (enc[i], enc[j]))
            return False
        # every lower-precision level is weakly monotone
        if cfg.step:
            sh = rng.randrange(0, fbits, cfg.step)
            ea, eb = field.to_bytes(a, sh), field.to_bytes(b, sh)
            if ea[0] != sh or eb[0] != sh or (a < b and ea[1:] > eb[1:]) or (a > b and ea[1:] < eb[1:]):
                ctx.fail("codec", "order(%s):shifted-level-not-monotone" % _ck(cfg), dict(w, a=a, b=b, shift=sh))
                return False
    if cfg.kind in ("int", "float"):
        nt = int if cfg.kind == "int" else float
        for v in cvals:
            s = to_sortable(nt, cfg.bits, cfg.signed, v)
            if not (0 <= s < (1 << cfg.bits)):
                ctx.fail("codec", "to_sortable(%s):outside-unsigned-range" % _ck(cfg), dict(w, value=v), "sortable %r" % s)
                return False
            back = from_sortable(nt, cfg.bits, cfg.signed, s)
            if back != v:
                ctx.fail("codec", "from_sortable(to_sortable(x))!=x(%s)" % _ck(cfg), dict(w, value=v), "got %r" % (back,))
                return False
    if cfg.kind == "int":
        lo, hi = cfg.int_bounds()
        if (field.min_value, field.max_value) != (lo, hi):
            ctx.fail("codec", "min_max(%s)" % _ck(cfg), dict(w, min=field.min_value, max=field.max_value))
            return False
    if cfg.kind == "datetime":
        from whoosh.util.times import datetime_to_long, long_to_datetime
        for v in cvals:
            n = datetime_to_long(v)
            if n != (v - DT_MIN) // US or long_to_datetime(n) != v:
                ctx.fail("codec", "datetime_to_long/long_to_datetime", dict(w, value=v), "long %r" % n)
                return False
    return True


def pure_range_checks(ctx, cfg, cands, rng, w, n=10):
    """tiered_ranges as a pure function on the wide domains: the buckets must tile exactly the interval."""
    from whoosh.util.numeric import tiered_ranges, to_sortable
    from whoosh.util.times import datetime_to_long
    nt = float if cfg.kind == "float" else int
    bits = 64 if cfg.kind in ("float", "datetime") else cfg.bits
    top = (1 << bits) - 1

    def num(v):
        if cfg.kind == "decimal":
            return int(v.scaleb(cfg.dc))
        if cfg.kind == "datetime":
            return (v - DT_MIN) // US
        return v

    def pos(v):
        if cfg.kind == "float":
            return to_sortable(float, 64, cfg.signed, v)   # monotone + injective: checked by codec_checks
        return model_sortable(cfg, v)
    for _ in range(n):
        a, b = rng.choice(cands), rng.choice(cands)
        if a > b:
            a, b = b, a
        if cfg.kind == "float" and (a == 0 or b == 0):
            continue   # which of the two zeros a bound denotes is not judged
        stt = None if rng.random() < 0.15 else a
        en = None if rng.random() < 0.15 else b
        sx, ex = rng.random() < 0.4, rng.random() < 0.4
        lo = 0 if stt is None else pos(stt) + (1 if sx else 0)
        hi = top if en is None else pos(en) - (1 if ex else 0)
        if cfg.kind == "float" and not cfg.signed and en is None:
            hi = top   # nothing is indexed above 2^63 - 1; covering it is harmless and expected
        pw = dict(w, fn="tiered_ranges", start=stt, end=en, startexcl=sx, endexcl=ex)
        ctx.count("tiered.sampled")
        try:
            rs = list(tiered_ranges(nt, bits, cfg.signed, None if stt is None else num(stt), None if en is None else num(en),
                                    cfg.step, sx, ex))
        except Exception as e:  # noqa
            ctx.fail("tiered_ranges", "sampled(%s,step=%d):exc:%s%s" % (_ck(cfg), cfg.step, type(e).__name__, _edge(cfg, stt, en, sx, ex)), pw, repr(e))
            return False
        pw["buckets"] = rs[:40]
        if not _check_buckets(ctx, "tiered_ranges", "sampled(%s,step=%d)" % (_ck(cfg), cfg.step), pw, rs, bits, cfg.step, lo, hi):
            return False
    return True


def _wsite(e):
    from vf.core import whoosh_site
    site, harness = whoosh_site(e)
    if harness:
        raise e
    return site


def qtext(cfg, v):
    """Query-language text of a value, or None when it has no plain spelling."""
    if cfg.kind == "int":
        return str(v)
    if cfg.kind == "decimal":
        t = str(v)
        return t if "E" not in t else None
    if cfg.kind == "float":
        t = repr(v)
        return t if ("e" not in t and "inf" not in t and "nan" not in t) else None
    return None


def sampled_case(ctx, rng, idx):
    from whoosh import fields, query
    from whoosh.filedb.filestore import RamStorage
    from whoosh.qparser import QueryParser
    from whoosh.qparser.common import QueryParserError
    from whoosh.query import QueryError
    cfg = pick_cfg(rng)
    tag = cfg.tag()
    w = {"field": tag, "sortable": cfg.sortable}
    try:
        field = cfg.make()
    except Exception as e:  # noqa
        ctx.fail("field", "ctor(%s%s):exc:%s" % (cfg.kind, "" if cfg.signed else ",unsigned", type(e).__name__), w, repr(e))
        return ("ctor-failed", cfg.kind, cfg.signed), False, w
    ctx.count("cfg.%s" % cfg.kind)
    vals = []
    for _ in range(rng.randint(1, 30)):
        vals.append(gen_value(cfg, rng, vals if vals else None))
    # documents: mostly one value each; in "multi" cases some documents carry 2-3 values
    multi = rng.random() < 0.2
    docs, k = [], 0
    while k < len(vals):
        take = rng.choice([1, 1, 2, 3]) if multi else 1
        docs.append(tuple(vals[k:k + take]))
        k += take
    multi = any(len(d) > 1 for d in docs)
    w["docs"] = [d[0] if len(d) == 1 else list(d) for d in docs]
    if multi:
        ctx.count("cfg.multivalued")

    # ---- 1. codec: bijection + order on the sampled values and on uniformly random members of the domain
    if not codec_checks(ctx, cfg, field, vals + uniform_values(cfg, rng, 12), w, rng):
        return ("codec-failed", cfg.key()), False, w
    # ---- 1b. range decomposition as a pure function on this (wide) domain
    if cfg.step and not pure_range_checks(ctx, cfg, vals + [gen_value(cfg, rng, vals) for _ in range(4)], rng, w):
        return ("tiered-failed", cfg.key()), False, w

    # ---- 2. a real index
    schema = fields.Schema(id=fields.STORED, n=field)
    st = RamStorage()
    ix = st.create_index(schema)
    nseg = 1 if len(docs) < 2 or rng.random() < 0.7 else 2
    cut = len(docs) if nseg == 1 else rng.randrange(1, len(docs))
    try:
        wr = ix.writer()
        for i, d in enumerate(docs):
            if i == cut:
                wr.commit()
                wr = ix.writer()
            wr.add_document(id=i, n=d[0] if len(d) == 1 else list(d))
        wr.commit(merge=False)
    except Exception as e:  # noqa
        ctx.fail("index", "add_document(%s):exc:%s@%s" % (_ck(cfg), type(e).__name__, _wsite(e)), w, repr(e))
        return ("index-failed", cfg.key()), False, w
    w["segments"] = nseg
    if len(docs) % 2 == 1:
        # re-opened as a search process would: the field type (bit width, signedness, shift step, decimal places) now
        # comes from the pickled schema in the TOC
        ok, ix = ctx.guard("index", dict(w, step="storage.open_index()"), st.open_index)
        if not ok:
            return ("index-failed", cfg.key()), False, w
        schema = ix.schema
        w["schema"] = "unpickled from the TOC"
        ctx.count("idx.reopened_schema")
    nontrivial_any = False
    shapes = []
    all_ids = list(range(len(docs)))
    mv = ",multivalued" if multi else ""
    with ix.searcher() as s:
        ids = {dn: s.stored_fields(dn)["id"] for dn in s.reader().all_doc_ids()}
        if sorted(ids.values()) != all_ids:
            ctx.fail("index", "documents-lost(%s)" % _ck(cfg), w, "ids %r" % sorted(ids.values()))
            return ("index-failed", cfg.key()), False, w
        Range = query.DateRange if cfg.kind == "datetime" else query.NumericRange
        qp = QueryParser("n", schema)
        for qi in range(24):
            cand = list(vals) + [gen_value(cfg, rng, vals) for _ in range(3)]
            a, b = rng.choice(cand), rng.choice(cand)
            if a > b:
                a, b = b, a
            if rng.random() < 0.15:
                b = a
            stt = None if rng.random() < 0.2 else a
            en = None if rng.random() < 0.2 else b
            sx, ex = rng.random() < 0.4, rng.random() < 0.4
            must, may = expected_sets(docs, stt, en, sx, ex)
            exp = sorted(must)
            qw = dict(w, start=stt, end=en, startexcl=sx, endexcl=ex, expected_ids=exp)
            if may != must:
                qw["optional_ids(+-0.0)"] = sorted(may - must)
                ctx.count("range.zero_sign_relaxed")
            path = rng.choice(["search", "docs", "parser"])
            if path == "parser":
                ta = "" if stt is None else qtext(cfg, stt)
                tb = "" if en is None else qtext(cfg, en)
                if ta is None or tb is None or (stt is None and en is None):
                    path = "search"
                else:
                    # documented spellings: [a TO b], {a TO b}, [a TO], [TO b] (no blank next to a bracket)
                    qw["query_string"] = "n:%s%sTO%s%s" % ("{" if sx else "[", ta + " " if ta else "", " " + tb if tb else "", "}" if ex else "]")
            mech = "%s(%s%s)" % (Range.__name__ if path != "parser" else "parsed-range", _ck(cfg), mv)
            ctx.count("range.searched")
            ctx.count("range.path.%s" % path)
            try:
                if path == "parser":
                    q = qp.parse(qw["query_string"])
                    if not isinstance(q, query.NumericRange):
                        ctx.fail("range", "%s:not-parsed-to-a-range" % mech, qw, "parsed to %r" % (q,))
                        break
                else:
                    q = Range("n", stt, en, sx, ex)
                if path == "docs":
                    got = sorted(ids[dn] for dn in q.docs(s))
                else:
                    got = sorted(h["id"] for h in s.search(q, limit=None))
            except Exception as e:  # noqa
                ctx.fail("range", "%s:exc:%s@%s%s" % (mech, type(e).__name__, _wsite(e), _edge(cfg, stt, en, sx, ex)), qw, repr(e))
                break
            nt = 0 < len(exp) < len(docs)
            if nt:
                ctx.count("range.nontrivial")
                nontrivial_any = True
            shapes.append((sx, ex, bclass(cfg, stt, vals), bclass(cfg, en, vals), min(len(exp), 3), nt))
            if not (must <= set(got) <= may) or len(set(got)) != len(got):
                how = "too-many" if set(got) - may else "too-few"
                ctx.fail("range", "%s:%s%s" % (mech, how, _edge(cfg, stt, en, sx, ex)), dict(qw, got_ids=got),
                         "documents matched wrongly: extra %r missing %r" % ([w["docs"][i] for i in sorted(set(got) - may)][:5],
                                                                             [w["docs"][i] for i in sorted(must - set(got))][:5]))
                break

        # ---- 2b. point queries
        for v in rng.sample(vals, min(3, len(vals))) + [gen_value(cfg, rng, vals)]:
            ctx.count("point.searched")
            must = set(i for i, d in enumerate(docs) if any(x == v and _tk(x) == _tk(v) for x in d))
            may = set(i for i, d in enumerate(docs) if any(x == v for x in d))
            pw = dict(w, term_value=v, expected_ids=sorted(must))
            try:
                got = set(h["id"] for h in s.search(query.Term("n", v), limit=None))
            except Exception as e:  # noqa
                ctx.fail("range", "Term(%s):exc:%s@%s" % (_ck(cfg), type(e).__name__, _wsite(e)), pw, repr(e))
                break
            if not (must <= got <= may):
                ctx.fail("range", "Term(%s%s):%s" % (_ck(cfg), mv, "too-many" if got - may else "too-few"), dict(pw, got_ids=sorted(got)))
                break

        # ---- 2c. point queries through the query language
        for v in rng.sample(vals, min(2, len(vals))):
            t = qtext(cfg, v)
            if t is None or (cfg.kind == "float" and v == 0):
                continue
            ctx.count("point.parsed")
            must = set(i for i, d in enumerate(docs) if any(x == v for x in d))
            pw = dict(w, query_string="n:" + t, expected_ids=sorted(must))
            try:
                got = set(h["id"] for h in s.search(qp.parse("n:" + t), limit=None))
            except Exception as e:  # noqa
                ctx.fail("range", "parsed-term(%s):exc:%s@%s" % (_ck(cfg), type(e).__name__, _wsite(e)), pw, repr(e))
                break
            if got != must:
                ctx.fail("range", "parsed-term(%s%s):%s" % (_ck(cfg), mv, "too-many" if got - must else "too-few"), dict(pw, got_ids=sorted(got)))
                break

        # ---- 3. sort order (single-valued documents only)
        for reverse in (False, True):
            if multi:
                break
            ctx.count("sort.checked")
            try:
                order = [h["id"] for h in s.search(query.Every(), limit=None, sortedby="n", reverse=reverse)]
            except Exception as e:  # noqa
                ctx.fail("sort", "sortedby(%s,sortable=%s):exc:%s@%s" % (_ck(cfg), cfg.sortable, type(e).__name__, _wsite(e)), w, repr(e))
                break
            if sorted(order) != all_ids:
                ctx.fail("sort", "sortedby(%s,sortable=%s):not-a-permutation" % (_ck(cfg), cfg.sortable), dict(w, order=order))
                break
            seq = [vals[i] for i in order]
            okay = all((x >= y) if reverse else (x <= y) for x, y in zip(seq, seq[1:]))
            if not okay:
                ctx.fail("sort", "sortedby(%s,sortable=%s,reverse=%s):order!=value-order" % (_ck(cfg), cfg.sortable, reverse),
                         dict(w, order=order), "values in result order %r" % seq[:12])
                break

        # ---- 4b. out-of-domain at query time
        for label, bad in ood_values(cfg, rng):
            if bad != bad or cfg.kind == "datetime":
                continue   # (a DATETIME bound that is not a datetime has no agreed reading; index time only)
            ctx.count("ood.query")
            for side in ("start", "end"):
                stt, en = (bad, None) if side == "start" else (None, bad)
                junk = isinstance(bad, str)
                exp = None if junk else sorted(expected_sets(docs, stt, en, False, False)[0])
                qw = dict(w, start=stt, end=en, expected_ids=exp)
                via = rng.choice(["object", "parser"]) if (junk or (cfg.kind != "float" and isinstance(bad, (int, Decimal)))) else "object"
                try:
                    if via == "parser":
                        qs = "n:[%s TO]" % bad if side == "start" else "n:[TO %s]" % bad
                        qw["query_string"] = qs
                        q = qp.parse(qs)
                        if q == query.NullQuery or isinstance(q, query.qcore._NullQuery):
                            ctx.count("ood.query.rejected")
                            ctx.count("ood.query.rejected.parser-null")
                            continue
                    else:
                        q = query.NumericRange("n", stt, en)
                    got = sorted(h["id"] for h in s.search(q, limit=None))
                except (ValueError, OverflowError, QueryParserError, QueryError):
                    ctx.count("ood.query.rejected")
                    continue
                except Exception as e:  # noqa
                    ctx.fail("domain", "query-bound(%s,%s,%s):exc:%s@%s" % (_ck(cfg), label, via, type(e).__name__, _wsite(e)), qw, repr(e))
                    continue
                if got != exp:
                    ctx.fail("domain", "query-bound(%s,%s,%s):accepted-and-wrapped" % (_ck(cfg), label, via), dict(qw, got_ids=got))
                else:
                    ctx.count("ood.query.exact")

    # ---- 4a. out-of-domain at indexing time
    for label, bad in ood_values(cfg, rng):
        ctx.count("ood.index")
        bw = dict(w, bad_value=bad, label=label)
        try:
            b = field.to_bytes(bad)
            ctx.fail("domain", "to_bytes(%s,%s):accepted" % (_ck(cfg), label), bw, "bytes %r decode to %r" % (b, field.from_bytes(b)))
        except Exception:  # noqa - any rejection is a rejection
            pass
        try:
            if field.is_valid(bad):
                ctx.fail("domain", "is_valid(%s,%s):true" % (_ck(cfg), label), bw)
        except Exception as e:  # noqa - raising is also a rejection (DATETIME.is_valid raises TimeError for impossible dates)
            _wsite(e)
            ctx.count("ood.is_valid.raised")
        wr = ix.writer()
        try:
            wr.add_document(id=1000, n=bad)
            accepted = True
        except Exception:  # noqa
            accepted = False
        if accepted:
            wr.commit()
            ctx.fail("domain", "add_document(%s,%s):accepted" % (_ck(cfg), label), bw)
            break
        wr.cancel()
    with ix.searcher() as s:
        if s.doc_count_all() != len(docs):
            ctx.fail("domain", "rejected-value-left-a-document(%s)" % _ck(cfg), w)
    return ("sampled", cfg.key(), nseg, multi, tuple(sorted(set(shapes)))), nontrivial_any, w


def big_case(ctx, rng, idx):
    """One segment beyond 4096 documents (or 2100-2900 + a second one), every document one value drawn uniformly from the
    domain, optional deletions; ranges that select a handful of documents far apart (the expanded term list is consumed
    through the buffered union matchers, whose 2048-document parts the sparse matches straddle)."""
    from whoosh import fields, query
    from whoosh.filedb.filestore import RamStorage
    cfg = pick_cfg(rng)
    if cfg.kind == "int" and cfg.bits == 8:
        cfg.bits = 16
    w = {"field": cfg.tag(), "sortable": cfg.sortable, "big": True}
    field = cfg.make()
    two = rng.random() < 0.35
    n1 = rng.randint(2100, 2900) if two else rng.randint(4120, 4950)
    n2 = rng.randint(50, 2300) if two else 0
    vals = uniform_values(cfg, rng, n1 + n2 - 40) + [gen_value(cfg, rng) for _ in range(40)]
    vals = [0.5 if (isinstance(v, float) and math.isinf(v)) else v for v in vals]
    rng.shuffle(vals)
    schema = fields.Schema(id=fields.STORED, n=field)
    ix = RamStorage().create_index(schema)
    wr = ix.writer()
    for i, v in enumerate(vals):
        if i == n1:
            wr.commit(merge=False)
            wr = ix.writer()
        wr.add_document(id=i, n=v)
    wr.commit(merge=False)
    deleted = set()
    if rng.random() < 0.4:
        wr = ix.writer()
        for dn in rng.sample(range(len(vals)), rng.choice([3, 40, 400])):
            wr.delete_document(dn)   # documents were added in id order with merge=False: docnum == id
            deleted.add(dn)
        wr.commit(merge=False)
    w.update(segments=[n1, n2] if two else [n1], deleted=len(deleted))
    docs = [(v,) for v in vals]
    order = sorted(set(vals), key=_tk)
    Range = query.DateRange if cfg.kind == "datetime" else query.NumericRange
    nontrivial = False
    with ix.searcher() as s:
        ids = {dn: s.stored_fields(dn)["id"] for dn in s.reader().all_doc_ids()}
        if set(ids.values()) != set(range(len(vals))) - deleted:
            ctx.fail("index", "big:documents-lost(%s)" % _ck(cfg), w, "live ids differ")
            return ("big-index-failed", cfg.key()), False, w
        for qi in range(10):
            i = rng.randrange(len(order))
            j = min(len(order) - 1, i + rng.choice([0, 1, 2, 3, 5, 8, 13, 60, 700]))
            stt, en = order[i], order[j]
            if rng.random() < 0.1:
                stt = None
                en = order[min(j, rng.choice([0, 2, 9]))]
            elif rng.random() < 0.1:
                en = None
                stt = order[max(i, len(order) - rng.choice([1, 3, 10]))]
            sx, ex = rng.random() < 0.3, rng.random() < 0.3
            must, may = expected_sets(docs, stt, en, sx, ex)
            must, may = must - deleted, may - deleted
            qw = dict(w, start=stt, end=en, startexcl=sx, endexcl=ex, expected_ids=sorted(must)[:40], expected_count=len(must))
            path = rng.choice(["search", "docs", "docs", "limit", "unscored"])
            mech = "big:%s(%s)" % (Range.__name__, _ck(cfg))
            ctx.count("range.big_searched")
            try:
                q = Range("n", stt, en, sx, ex)
                if path == "docs":
                    got = sorted(ids[dn] for dn in q.docs(s))
                elif path == "limit":
                    r = s.search(q, limit=3)
                    got = sorted(ids[dn] for dn in r.docs())
                    if len(r) != len(got):
                        ctx.fail("range", mech + ":len(results)", dict(qw, path=path), "len=%d docs()=%d" % (len(r), len(got)))
                        break
                elif path == "unscored":
                    got = sorted(h["id"] for h in s.search(q, limit=None, scored=False))
                else:
                    got = sorted(h["id"] for h in s.search(q, limit=None))
            except Exception as e:  # noqa
                ctx.fail("range", "%s:exc:%s@%s" % (mech, type(e).__name__, _wsite(e)), dict(qw, path=path), repr(e))
                break
            if 0 < len(must) < len(vals) - len(deleted):
                nontrivial = True
                ctx.count("range.big_nontrivial")
                if len(must) <= 12 and (max(must) - min(must)) > 2048:
                    ctx.count("range.big_sparse_across_parts")
            if not (must <= set(got) <= may) or len(set(got)) != len(got):
                how = "too-many" if set(got) - may else "too-few"
                ctx.fail("range", "%s:%s" % (mech, how), dict(qw, path=path, got_ids=got[:60]),
                         "extra %r missing %r" % (sorted(set(got) - may)[:8], sorted(must - set(got))[:8]))
                break
    ix.close()
    return ("big", cfg.kind, cfg.signed, bool(cfg.step), two, bool(deleted)), nontrivial, w



def _ck(cfg):
    """Config key for mechanism names: kind+bits+sign, no random data."""
    if cfg.kind == "int":
        return "int%d%s" % (cfg.bits, "s" if cfg.signed else "u")
    if cfg.kind == "float":
        return "float%s" % ("s" if cfg.signed else "u")
    if cfg.kind == "decimal":
        return "decimal%d%s" % (cfg.bits, "s" if cfg.signed else "u")
    return "datetime"


def _edge(cfg, stt, en, sx, ex):
    """Stable qualifier: does an exclusive bound sit on the domain extreme?"""
    lo = hi = None
    if cfg.kind in ("int", "decimal"):
        lo, hi = cfg.int_bounds()
        if cfg.kind == "decimal":
            lo, hi = Decimal(lo).scaleb(-cfg.dc), Decimal(hi).scaleb(-cfg.dc)
    elif cfg.kind == "datetime":
        lo, hi = DT_MIN, DT_MAX
    elif cfg.kind == "float":
        lo, hi = (float("-inf") if cfg.signed else 0.0), float("inf")
    tags = []
    if sx and stt is not None and stt == hi:
        tags.append("startexcl@max")
    if ex and en is not None and en == lo:
        tags.append("endexcl@min")
    return ":" + "+".join(tags) if tags else ""


# ----------------------------------------------------------------------
# thorough: exhaustive searched 8-bit
# ----------------------------------------------------------------------

def exhaustive_searched(ctx):
    from whoosh import fields, query
    from whoosh.filedb.filestore import RamStorage
    sh, n = ctx.shard, ctx.nshards
    for signed in (True, False):
        dom = list(range(-128, 128)) if signed else list(range(256))
        for step in (1, 4, 0):
            field = fields.NUMERIC(int, 8, signed=signed, shift_step=step)
            ix = RamStorage().create_index(fields.Schema(id=fields.STORED, n=field))
            wr = ix.writer()
            for i, v in enumerate(dom):
                wr.add_document(id=i, n=v)
            wr.commit()
            key = "int8%s,step=%d" % ("s" if signed else "u", step)
            # all four exclusivity pairs on the deepest tiering (step 1); closed bounds on step 4 and on the untiered field
            # (the flags only shift the bounds by one, which the pure enumeration (3) covers for every step)
            flagset = (False, True) if step == 1 else (False,)
            with ix.searcher() as s:
                ids = {dn: s.stored_fields(dn)["id"] for dn in s.reader().all_doc_ids()}
                bad = False
                starts = [None] + dom
                pos = {v: i for i, v in enumerate(dom)}
                for si, start in enumerate(starts):
                    if si % n != sh:
                        continue
                    if ctx.expired():
                        # wall-clock cap: stop counting, the exact floor on exhaustive.searched turns the run inconclusive
                        ctx.truncated = True
                        ctx.note("time cap reached inside the exhaustive searched enumeration (%s) in shard %d" % (key, sh))
                        return
                    ends = [None] + ([v for v in dom if v >= start] if start is not None else dom)
                    for end in ends:
                        for sx in flagset:
                            for ex in flagset:
                                ctx.count("exhaustive.searched")
                                if bad:
                                    continue
                                lo = 0 if start is None else pos[start] + (1 if sx else 0)
                                hi = 255 if end is None else pos[end] - (1 if ex else 0)
                                exp = list(range(lo, hi + 1))
                                w = {"field": key, "start": start, "end": end, "startexcl": sx, "endexcl": ex}
                                try:
                                    got = sorted(ids[dn] for dn in query.NumericRange("n", start, end, sx, ex).docs(s))
                                except Exception as e:  # noqa
                                    from vf.core import whoosh_site
                                    site, harness = whoosh_site(e)
                                    if harness:
                                        raise
                                    ctx.fail("range", "exhaustive(%s):exc:%s@%s" % (key, type(e).__name__, site), w, repr(e))
                                    bad = True
                                    continue
                                if got != exp:
                                    ctx.fail("range", "exhaustive(%s):%s" % (key, "too-many" if set(got) - set(exp) else "too-few"),
                                             dict(w, got_count=len(got), expected_count=len(exp)))
                                    bad = True
    ctx.case(("exhaustive-searched", sh), True)


def run(ctx):
    # failures of the exhaustive parts carry idx -1 (pure) / -2 (searched); --replay re-runs that part
    if ctx.replay_idx is None or ctx.replay_idx == -1:
        ctx.cur_idx = -1
        exhaustive_pure(ctx)
    if ctx.replay_idx is None or ctx.replay_idx >= 0:
        for idx in ctx.cases(quick=150, thorough=250):
            rng = ctx.rng(idx)
            ctx.reseed_global(idx)
            if idx % 25 == 7:
                ctx.count("cfg.big_cases")
                shape, nontrivial, w = big_case(ctx, rng, idx)
                ctx.case(shape, nontrivial, sample=None)
                continue
            shape, nontrivial, w = sampled_case(ctx, rng, idx)
            ctx.case(shape, nontrivial, sample=w if idx % 23 == 0 else None)
    if (ctx.replay_idx is None and not ctx.quick) or ctx.replay_idx == -2:
        ctx.cur_idx = -2
        exhaustive_searched(ctx)
