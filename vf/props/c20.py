"""C20 - on-disk tables, number codecs and doc-id sets implement their abstract types.

Monitor shape: reference-model (Python set / dict / sorted() / bytes) driven with the
same operation sequence as the real object; every observable is compared.
"""
import collections
import os
import shutil
import tempfile

LEVEL = "exploration"
RULE = ("cases are seeded operation programs: (a) id-set programs = constructor + 6..14 random ops "
        "(add/discard/update/intersection_update/difference_update/invert_update/copy/binary ops/reads) on "
        "BitSet/SortedIntSet/OnDiskBitSet/ReverseIdSet/MultiIdSet vs a Python set; (b) hash-file, ordered-hash, "
        "number-encoding, varint, GrowableArray, external-sort and compound-file round trips vs dict/sorted()/bytes. "
        "A case is non-trivial when the structure is non-empty; distinct = distinct (kind, class/config, opcode "
        "sequence or size signature).")
ASSUMPTIONS = [
    "first()/last() of an empty id set may return None or raise (statement does not say)",
    "offset arrays of type 'q' (file offsets > 2^31) are not reached by writing 2 GB files; GrowableArray retyping itself is exercised with large numbers",
    "RoaringIdSet and the Fixed/Simple16/GInts NumberEncoding classes are not used by any index format in this tree (dead code) and are not part of the verdict",
]
SHARDS = {"quick": 4, "thorough": 16}
BUDGET_S = {"quick": 60, "thorough": 420}
FLOORS = {"idset.programs": 50, "hash.cases": 10, "ordered.cases": 10, "extsort.cases": 10,
          "compound.cases": 5, "enc.cases": 20}


def rb(rng, n):
    return bytes(rng.randrange(256) for _ in range(n))


# ----------------------------------------------------------------------
# id sets
# ----------------------------------------------------------------------

def nfail(ctx):
    return sum(v for k, v in ctx.counters.items() if k.startswith("fail:"))


def _reads(ctx, name, obj, model, rng, span, w):
    """Compare every read API of a DocIdSet with the model set."""
    def chk(what, fn, expect, allow_exc_if_empty=False):
        ctx.count("idset.reads")
        try:
            got = fn()
        except Exception as e:  # noqa
            if allow_exc_if_empty and not model:
                return
            ctx.fail("idset.read", "%s.%s:exc:%s" % (name, what, type(e).__name__), w, repr(e))
            return
        if got != expect:
            ctx.fail("idset.read", "%s.%s" % (name, what), w, "got %r expected %r" % (got, expect))
    sm = sorted(model)
    chk("iter", lambda: list(obj), sm)
    chk("len", lambda: len(obj), len(sm))
    chk("bool", lambda: bool(obj), bool(sm))
    for x in (rng.randrange(0, span + 3), rng.randrange(0, span + 3)):
        chk("contains", lambda: x in obj, x in model)
        chk("before", lambda: obj.before(x), max([i for i in sm if i < x], default=None))
        chk("after", lambda: obj.after(x), min([i for i in sm if i > x], default=None))
    chk("first", lambda: obj.first(), sm[0] if sm else None, True)
    chk("last", lambda: obj.last(), sm[-1] if sm else None, True)


def idset_program(ctx, rng):
    from whoosh.idsets import BitSet, SortedIntSet
    cls = rng.choice([BitSet, SortedIntSet])
    span = rng.choice([0, 1, 7, 8, 9, 15, 16, 17, 40, 64, 65, 200])
    src = sorted(set(rng.randrange(0, span + 1) for _ in range(rng.randint(0, 10))))
    ctor = rng.choice(["list", "list", "size", "empty"]) if cls is BitSet else rng.choice(["list", "list", "empty"])
    prog = []
    w = {"class": cls.__name__, "ctor": ctor, "source": src, "span": span, "program": prog}
    try:
        if ctor == "list":
            obj = cls(src)
        elif ctor == "size":
            obj = cls(src, size=span + 1)
        else:
            obj = cls()
            src = []
            w["source"] = src
    except Exception as e:  # noqa
        ctx.fail("idset.ctor", "%s(%s):exc:%s" % (cls.__name__, "empty-list" if not src else ctor, type(e).__name__), w, repr(e))
        return ("idset", cls.__name__, ctor, "ctor-failed"), False, w
    model = set(src)
    name = cls.__name__
    ops = []
    nf0 = nfail(ctx)
    for _ in range(rng.randint(6, 14)):
        op = rng.choice(["add", "discard", "update", "intersection_update", "difference_update",
                         "invert_update", "copy", "union", "intersection", "difference", "isdisjoint",
                         "eq", "reads", "clear" if rng.random() < 0.2 else "add", "remove_present"])
        x = rng.randrange(0, span + 20)
        other = sorted(set(rng.randrange(0, span + 20) for _ in range(rng.randint(0, 8))))
        okind = rng.choice(["set", "BitSet", "SortedIntSet", "list"])
        ops.append(op)
        step = {"op": op, "x": x, "other": other, "okind": okind}
        prog.append(step)

        def mk_other():
            if okind == "set":
                return set(other)
            if okind == "list":
                return list(other)
            if okind == "BitSet":
                return BitSet(other) if other else BitSet()
            return SortedIntSet(other)
        try:
            if op == "add":
                obj.add(x)
                model.add(x)
            elif op == "discard":
                obj.discard(x)
                model.discard(x)
            elif op == "remove_present":
                if model:
                    y = rng.choice(sorted(model))
                    step["x"] = y
                    obj.discard(y)
                    model.discard(y)
            elif op == "clear":
                if hasattr(obj, "clear"):
                    obj.clear()
                    model.clear()
            elif op == "update":
                obj.update(mk_other())
                model.update(other)
            elif op == "intersection_update":
                obj.intersection_update(mk_other())
                model.intersection_update(other)
            elif op == "difference_update":
                obj.difference_update(mk_other())
                model.difference_update(other)
            elif op == "invert_update":
                size = (max(model) + 1 if model else 0) + rng.randint(0, 12)
                step["size"] = size
                obj.invert_update(size)
                model = set(range(size)) - model
            elif op == "copy":
                c = obj.copy()
                c.add(span + 33)
                if (span + 33) in obj and (span + 33) not in model:
                    ctx.fail("idset.copy", "%s.copy-not-independent" % name, w)
                obj = obj.copy()
            elif op in ("union", "intersection", "difference"):
                got = sorted(getattr(obj, op)(mk_other()))
                exp = sorted(getattr(model, op)(set(other)))
                if got != exp:
                    ctx.fail("idset.binop", "%s.%s(%s)" % (name, op, okind), w, "got %r expected %r" % (got, exp))
                if sorted(obj) != sorted(model):
                    ctx.fail("idset.binop", "%s.%s(%s)-mutated-self" % (name, op, okind), w)
            elif op == "isdisjoint":
                got = obj.isdisjoint(mk_other())
                if got != model.isdisjoint(other):
                    ctx.fail("idset.binop", "%s.isdisjoint(%s)" % (name, okind), w, "got %r" % got)
            elif op == "eq":
                same = cls(sorted(model)) if model else cls()
                if not (obj == same):
                    ctx.fail("idset.binop", "%s.__eq__" % name, w, "not equal to a fresh set with the same members")
            elif op == "reads":
                _reads(ctx, name, obj, model, rng, span, w)
        except Exception as e:  # noqa
            mech = "%s.%s" % (name, op)
            if op in ("update", "intersection_update", "difference_update"):
                mech += "(%s%s)" % (okind, "" if other else "-empty")
            ctx.fail("idset.op", "%s:exc:%s" % (mech, type(e).__name__), w, repr(e))
            return ("idset", name, ctor, tuple(ops)), bool(model), w
        # stop at the first disagreement: later differences would be cascades
        if nfail(ctx) != nf0:
            return ("idset", name, ctor, tuple(ops)), bool(model), w
        try:
            now = list(obj)
        except Exception as e:  # noqa
            ctx.fail("idset.op", "%s.%s:iter-after:exc:%s" % (name, op, type(e).__name__), w, repr(e))
            return ("idset", name, ctor, tuple(ops)), bool(model), w
        if now != sorted(model):
            mech = "%s.%s" % (name, op)
            if op in ("update", "intersection_update", "difference_update"):
                mech += "(%s)" % okind
            ctx.fail("idset.op", mech + ":wrong-members", w, "members %r expected %r" % (now, sorted(model)))
            return ("idset", name, ctor, tuple(ops)), bool(model), w
    _reads(ctx, name, obj, model, rng, span, w)
    # derived views
    if cls is BitSet:
        from whoosh.filedb.filestore import RamStorage
        from whoosh.idsets import OnDiskBitSet
        st = RamStorage()
        f = st.create_file("b")
        pre = rng.choice([0, 3])
        f.write(b"\x00" * pre)
        n = obj.to_disk(f)
        f.close()
        od = OnDiskBitSet(st.open_file("b"), pre, n)
        _reads(ctx, "OnDiskBitSet", od, model, rng, span, w)
        ctx.count("idset.ondisk")
    from whoosh.idsets import ReverseIdSet
    lim = (max(model) + 1 if model else 0) + rng.randint(0, 5)
    rv = ReverseIdSet(obj, lim)
    rm = set(range(lim)) - model
    w2 = dict(w, reverse_limit=lim)
    srm = sorted(rm)

    def chk(what, fn, expect, empty_ok=False):
        ctx.count("idset.reads")
        try:
            got = fn()
        except Exception as e:  # noqa
            if empty_ok and not rm:
                return
            ctx.fail("idset.read", "ReverseIdSet.%s:exc:%s" % (what, type(e).__name__), w2, repr(e))
            return
        if got != expect:
            ctx.fail("idset.read", "ReverseIdSet.%s" % what, w2, "got %r expected %r" % (got, expect))
    chk("iter", lambda: list(rv), srm)
    chk("len", lambda: len(rv), len(srm))
    x = rng.randrange(0, lim + 1)
    if x < lim:
        chk("contains", lambda: x in rv, x in rm)
    chk("first", lambda: rv.first(), srm[0] if srm else None, True)
    chk("last", lambda: rv.last(), srm[-1] if srm else None, True)
    ctx.count("idset.reverse")
    return ("idset", name, ctor, tuple(ops)), bool(model), w


def multi_case(ctx, rng):
    from whoosh.idsets import MultiIdSet, SortedIntSet, BitSet
    parts, offs, base, mm, sig = [], [], 0, set(), []
    for _ in range(rng.randint(1, 4)):
        n = rng.randint(1, 12)
        ids = sorted(set(rng.randrange(n) for _ in range(rng.randint(0, 5))))
        cls = rng.choice([SortedIntSet, BitSet])
        parts.append(cls(ids) if ids else cls())
        offs.append(base)
        mm |= set(i + base for i in ids)
        sig.append((cls.__name__, n, len(ids)))
        base += n
    w = {"class": "MultiIdSet", "offsets": offs, "members": sorted(mm)}
    try:
        ms = MultiIdSet(parts, offs)
        got = list(ms)
        if got != sorted(mm):
            ctx.fail("idset.read", "MultiIdSet.iter", w, "got %r" % got)
        for x in range(base):
            if (x in ms) != (x in mm):
                ctx.fail("idset.read", "MultiIdSet.contains", dict(w, x=x), "x in set -> %r" % (x in ms))
                break
        if len(ms) != len(mm):
            ctx.fail("idset.read", "MultiIdSet.len", w, "got %r" % len(ms))
    except Exception as e:  # noqa
        ctx.fail("idset.read", "MultiIdSet:exc:%s" % type(e).__name__, w, repr(e))
    ctx.count("idset.multi")
    return ("multi", tuple(sig)), bool(mm), w


# ----------------------------------------------------------------------
# tables
# ----------------------------------------------------------------------

def hash_case(ctx, rng):
    from whoosh.filedb.filestore import RamStorage
    from whoosh.filedb.filetables import HashWriter, HashReader
    st = RamStorage()
    ht = rng.choice([0, 1, 2])
    n = rng.choice([0, 1, 2, 5, 50, 300, 1200])
    style = rng.choice(["random", "prefix", "dups", "tiny"])
    items = []
    for i in range(n):
        if style == "random":
            k = rb(rng, rng.choice([0, 1, 2, 3, 8, 40]))
        elif style == "prefix":
            k = b"key" + rb(rng, rng.choice([0, 1, 2]))
        elif style == "dups":
            k = rb(rng, 1)[:1] if rng.random() < 0.5 else b"d"
        else:
            k = bytes([rng.randrange(4)])
        items.append((k, rb(rng, rng.choice([0, 1, 5, 300]))))
    w = {"kind": "hash", "hashtype": ht, "n": n, "style": style, "first_keys": [k for k, _ in items[:6]]}
    ctx.count("hash.cases")

    def body():
        f = st.create_file("h")
        pre = rng.choice([0, 0, 7])
        f.write(b"x" * pre)
        hw = HashWriter(f, hashtype=ht)
        for k, v in items:
            hw.add(k, v)
        hw.close()
        f = st.open_file("h")
        hr = HashReader(f, st.file_length("h") - pre, startoffset=pre) if pre else HashReader(f, st.file_length("h"))
        model = collections.OrderedDict()
        for k, v in items:
            model.setdefault(k, []).append(v)
        probe = list(model)[:40] + [rb(rng, rng.choice([0, 1, 2, 9])) for _ in range(10)]
        for k in probe:
            got = list(hr.all(k))
            if got != model.get(k, []):
                ctx.fail("hash", "all(ht=%d)" % ht, dict(w, key=k), "got %d values expected %d" % (len(got), len(model.get(k, []))))
            if (k in hr) != (k in model):
                ctx.fail("hash", "contains(ht=%d)" % ht, dict(w, key=k))
            if k in model:
                if hr[k] != model[k][0]:
                    ctx.fail("hash", "getitem(ht=%d)" % ht, dict(w, key=k))
                if hr.get(k, b"?") != model[k][0]:
                    ctx.fail("hash", "get(ht=%d)" % ht, dict(w, key=k))
            else:
                if hr.get(k, b"?") != b"?":
                    ctx.fail("hash", "get-absent(ht=%d)" % ht, dict(w, key=k))
                try:
                    hr[k]
                    ctx.fail("hash", "getitem-absent-no-KeyError(ht=%d)" % ht, dict(w, key=k))
                except KeyError:
                    pass
            ctx.count("hash.lookups")
        if list(hr.items()) != items:
            ctx.fail("hash", "items(ht=%d)" % ht, w)
        if list(hr.keys()) != [k for k, _ in items]:
            ctx.fail("hash", "keys(ht=%d)" % ht, w)
        if list(hr.values()) != [v for _, v in items]:
            ctx.fail("hash", "values(ht=%d)" % ht, w)
        hr.close()
    ctx.guard("hash", w, body)
    return ("hash", ht, n, style), n > 0, w


def ordered_case(ctx, rng):
    from whoosh.filedb.filestore import RamStorage
    from whoosh.filedb.filetables import OrderedHashWriter, OrderedHashReader
    st = RamStorage()
    nk = rng.choice([0, 1, 2, 5, 60, 400, 1500])
    klen = rng.choice([(0, 1, 2, 3), (1, 2), (2, 3, 4)])
    keys = sorted(set(rb(rng, rng.choice(klen)) for _ in range(nk)))
    vsize = rng.choice([3, 10, 90, 700])  # 700 * 100+ keys pushes offsets past 2^16 (H -> i retyping)
    w = {"kind": "ordered", "nkeys": len(keys), "vsize": vsize, "first_keys": keys[:5]}
    ctx.count("ordered.cases")
    info = {}

    def body():
        f = st.create_file("o")
        ow = OrderedHashWriter(f)
        vals = {}
        for k in keys:
            v = rb(rng, rng.choice([0, 3, vsize]))
            vals[k] = v
            ow.add(k, v)
        ow.close()
        orr = OrderedHashReader(st.open_file("o"), st.file_length("o"))
        info["indextype"] = orr.extras.get("indextype")
        ctx.count("ordered.indextype.%s" % info["indextype"])
        if list(orr.keys()) != keys:
            ctx.fail("ordered", "keys", w)
        if list(orr.items()) != [(k, vals[k]) for k in keys]:
            ctx.fail("ordered", "items", w)
        for _ in range(25):
            p = rb(rng, rng.choice([0, 1, 2, 3, 4]))
            if keys and rng.random() < 0.3:
                p = rng.choice(keys)
            expk = min([k for k in keys if k >= p], default=None)
            got = orr.closest_key(p)
            if got != expk:
                ctx.fail("ordered", "closest_key(%s)" % info["indextype"], dict(w, probe=p), "got %r expected %r" % (got, expk))
            if list(orr.keys_from(p)) != [k for k in keys if k >= p]:
                ctx.fail("ordered", "keys_from(%s)" % info["indextype"], dict(w, probe=p))
            if list(orr.items_from(p)) != [(k, vals[k]) for k in keys if k >= p]:
                ctx.fail("ordered", "items_from", dict(w, probe=p))
            ctx.count("ordered.probes")
        for k in keys[:30] + keys[-5:]:
            if orr[k] != vals[k]:
                ctx.fail("ordered", "getitem", dict(w, key=k))
        try:
            ow2 = OrderedHashWriter(st.create_file("o2"))
            ow2.add(b"b", b"1")
            ow2.add(b"a", b"2")
            ctx.fail("ordered", "out-of-order-key-accepted", w)
        except ValueError:
            pass
        orr.close()
    ctx.guard("ordered", w, body)
    return ("ordered", len(keys), vsize, info.get("indextype")), bool(keys), w


def enc_case(ctx, rng):
    from whoosh.filedb.filestore import RamStorage
    from whoosh.util import numlists, varints
    from whoosh.util.numlists import GrowableArray
    st = RamStorage()
    kind = rng.choice(["Varints", "ByteEncoding", "UShortEncoding", "UIntEncoding", "varint", "growable", "delta", "structfile"])
    ctx.count("enc.cases")
    w = {"kind": "enc", "what": kind}
    shape = [kind]

    def body():
        if kind in ("Varints", "ByteEncoding", "UShortEncoding", "UIntEncoding"):
            enc = getattr(numlists, kind)()
            mx = enc.maxint or 2 ** 40
            nums = [rng.choice([0, 1, 127, 128, 255, 256, 65535, 65536, 2 ** 24 - 1, 2 ** 24, 2 ** 32 - 1, mx, rng.randrange(mx + 1)])
                    for _ in range(rng.randint(0, 40))]
            nums = [n for n in nums if n <= mx]
            w["nums"] = nums[:8]
            shape.append(len(nums))
            f = st.create_file("n")
            enc.write_nums(f, nums)
            f.close()
            got = list(enc.read_nums(st.open_file("n"), len(nums)))
            if got != nums:
                ctx.fail("enc", "%s.read_nums" % kind, w, "got %r" % got[:8])
            srt = sorted(nums)
            if kind == "Varints" or (srt and max([b - a for a, b in zip([0] + srt, srt)]) <= mx):
                f = st.create_file("d")
                enc.write_deltas(f, srt)
                f.close()
                got = list(enc.read_deltas(st.open_file("d"), len(srt)))
                if got != srt:
                    ctx.fail("enc", "%s.read_deltas" % kind, w, "got %r" % got[:8])
            if nums and hasattr(enc, "get"):
                i = rng.randrange(len(nums))
                try:
                    g = enc.get(st.open_file("n"), 0, i)
                except NotImplementedError:
                    g = nums[i]
                if g != nums[i]:
                    ctx.fail("enc", "%s.get" % kind, dict(w, i=i), "got %r" % g)
        elif kind == "varint":
            ns = [rng.choice([0, 1, 127, 128, 16383, 16384, 2 ** 31, 2 ** 63, rng.randrange(2 ** 70)]) for _ in range(20)]
            w["nums"] = ns[:6]
            shape.append(tuple(n.bit_length() // 7 for n in ns[:6]))
            f = st.create_file("v")
            for n in ns:
                f.write_varint(n)
            f.close()
            f = st.open_file("v")
            got = [f.read_varint() for _ in ns]
            if got != ns:
                ctx.fail("enc", "structfile.varint", w, "got %r" % got[:6])
            for n in ns:
                b = varints.varint(n)
                if varints.decode_varint(b)[0] != n if hasattr(varints, "decode_varint") else False:
                    ctx.fail("enc", "varints.varint", dict(w, n=n))
                s = n if rng.random() < 0.5 else -n
                if abs(s) < 2 ** 62:
                    if varints.decode_signed_varint(varints.signed_varint(s)) != s:
                        ctx.fail("enc", "varints.signed_varint", dict(w, n=s))
        elif kind == "growable":
            ns = [rng.choice([0, 1, 65535, 65536, 2 ** 31 - 1, 2 ** 31, 2 ** 32 - 1, 2 ** 32, 2 ** 40, rng.randrange(2 ** 17)])
                  for _ in range(rng.randint(0, 12))]
            w["nums"] = ns
            ga = GrowableArray("H")
            for n in ns:
                ga.append(n)
            shape.append(ga.typecode)
            ctx.count("enc.growable.%s" % ga.typecode)
            if list(ga) != ns or len(ga) != len(ns):
                ctx.fail("enc", "GrowableArray.iter(%s)" % ga.typecode, w, "got %r" % list(ga))
            f = st.create_file("g")
            ga.to_file(f)
            f.close()
            tc = ga.typecode
            if ns and tc != "q":
                got = list(st.open_file("g").read_array(tc, len(ns)))
                if got != ns:
                    ctx.fail("enc", "GrowableArray.to_file(%s)" % tc, w, "got %r" % got)
        elif kind == "delta":
            from whoosh.util.numlists import delta_encode, delta_decode
            ns = sorted(rng.randrange(2 ** rng.choice([4, 16, 40])) for _ in range(rng.randint(0, 30)))
            w["nums"] = ns[:8]
            shape.append(len(ns))
            if list(delta_decode(delta_encode(ns))) != ns:
                ctx.fail("enc", "delta_encode/decode", w)
        else:
            # StructFile typed round trips
            f = st.create_file("s")
            vals = []
            for _ in range(rng.randint(1, 30)):
                t = rng.choice(["byte", "sbyte", "ushort", "short", "uint", "int", "long", "ulong", "float", "double", "string", "varint", "svarint"])
                rngs = {"byte": (0, 255), "sbyte": (-128, 127), "ushort": (0, 65535), "short": (-2 ** 15, 2 ** 15 - 1),
                        "uint": (0, 2 ** 32 - 1), "int": (-2 ** 31, 2 ** 31 - 1), "long": (-2 ** 63, 2 ** 63 - 1),
                        "ulong": (0, 2 ** 64 - 1)}
                if t in rngs:
                    lo, hi = rngs[t]
                    v = rng.choice([lo, hi, 0, rng.randint(lo, hi)])
                elif t == "float":
                    import struct
                    v = struct.unpack("!f", struct.pack("!f", rng.uniform(-1e6, 1e6)))[0]
                elif t == "double":
                    v = rng.uniform(-1e300, 1e300)
                elif t == "string":
                    v = rb(rng, rng.choice([0, 1, 127, 128, 300]))
                elif t == "varint":
                    v = rng.randrange(2 ** rng.choice([3, 14, 35, 64]))
                else:
                    v = rng.randrange(2 ** rng.choice([3, 14, 35])) * rng.choice([1, -1])
                if not hasattr(f, "write_" + t):
                    continue
                getattr(f, "write_" + t)(v)
                vals.append((t, v))
            f.close()
            f = st.open_file("s")
            shape.append(tuple(t for t, _ in vals[:8]))
            w["values"] = vals[:8]
            for t, v in vals:
                got = getattr(f, "read_" + t)()
                if got != v:
                    ctx.fail("enc", "structfile.%s" % t, dict(w, value=v), "got %r" % (got,))
                    break
    ctx.guard("enc", w, body)
    return ("enc", tuple(shape)), True, w


def extsort_case(ctx, rng):
    from whoosh import externalsort
    n = rng.choice([0, 1, 2, 10, 200, 1000])
    items = [(rng.randrange(20), rb(rng, 2)) for _ in range(n)]
    maxsize = rng.choice([1, 2, 7, 50, 1000, 100000])
    maxfiles = rng.choice([2, 3, 10, 128])
    mode = rng.choice(["sort", "merger"])
    w = {"kind": "extsort", "n": n, "maxsize": maxsize, "maxfiles": maxfiles, "mode": mode}
    ctx.count("extsort.cases")
    d = tempfile.mkdtemp(prefix="vf-c20-")

    def body():
        if mode == "sort":
            got = list(externalsort.sort(items, maxsize=maxsize, tempdir=d, maxfiles=maxfiles))
        else:
            sp = externalsort.SortingPool(maxsize=maxsize, tempdir=d)
            for it in items:
                sp.add(it)
            got = list(sp.items(maxfiles=maxfiles))
            ctx.count("extsort.runs", len(getattr(sp, "runs", [])))
        if got != sorted(items):
            ctx.fail("extsort", "sorted-output", w, "len got %d expected %d" % (len(got), len(items)))
        left = os.listdir(d)
        if left:
            ctx.fail("extsort", "temp-files-left-behind", w, repr(left[:3]))
    try:
        ctx.guard("extsort", w, body)
    finally:
        shutil.rmtree(d, ignore_errors=True)
    return ("extsort", n, maxsize, maxfiles, mode), n > 1, w


def compound_case(ctx, rng):
    from whoosh.filedb.filestore import FileStorage
    from whoosh.filedb.compound import CompoundStorage, CompoundWriter
    names = ["f%d.x" % i for i in range(rng.randint(1, 5))]
    mmap = rng.random() < 0.5
    sizes = [rng.choice([0, 1, 100, 4095, 4096, 40000]) for _ in names]
    bufsize = rng.choice([16, 1024, 32 * 1024])
    w = {"kind": "compound", "mmap": mmap, "sizes": sizes, "buffersize": bufsize}
    ctx.count("compound.cases")
    d = tempfile.mkdtemp(prefix="vf-c20-")

    def body():
        fs = FileStorage(d, supports_mmap=mmap)
        content = {}
        for n, sz in zip(names, sizes):
            content[n] = rb(rng, sz)
            f = fs.create_file(n)
            f.write(content[n])
            f.close()
        cf = fs.create_file("c.seg")
        CompoundStorage.assemble(cf, fs, names)
        cs = CompoundStorage(fs.open_file("c.seg"), use_mmap=mmap)
        for n in names:
            f = cs.open_file(n)
            got = bytes(f.read())
            if got != content[n]:
                ctx.fail("compound", "assemble.read(mmap=%s)" % mmap, dict(w, name=n), "len got %d expected %d" % (len(got), len(content[n])))
            if content[n]:
                a = rng.randrange(len(content[n]))
                b = rng.randrange(a, len(content[n]) + 1)
                f = cs.open_file(n)
                f.seek(a)
                got = bytes(f.read(b - a))
                if got != content[n][a:b]:
                    ctx.fail("compound", "assemble.seek-read(mmap=%s)" % mmap, dict(w, name=n, a=a, b=b))
            if cs.file_length(n) != len(content[n]):
                ctx.fail("compound", "file_length", dict(w, name=n))
            if not cs.file_exists(n):
                ctx.fail("compound", "file_exists", dict(w, name=n))
        if sorted(cs.list()) != sorted(names):
            ctx.fail("compound", "list", w, repr(cs.list()))
        if cs.file_exists("nope"):
            ctx.fail("compound", "file_exists-absent", w)
        cs.close()
        cw = CompoundWriter(fs, buffersize=bufsize)
        c2 = {}
        fls = {n: cw.create_file(n) for n in names}
        for _ in range(20):
            n = rng.choice(names)
            chunk = rb(rng, rng.choice([0, 1, 10, 2000]))
            fls[n].write(chunk)
            c2[n] = c2.get(n, b"") + chunk
        out = fs.create_file("d.seg")
        cw.save_as_compound(out)
        cs = CompoundStorage(fs.open_file("d.seg"), use_mmap=mmap)
        for n in names:
            if n in c2 or cs.file_exists(n):
                got = bytes(cs.open_file(n).read())
                if got != c2.get(n, b""):
                    ctx.fail("compound", "writer.read(buf=%d)" % bufsize, dict(w, name=n), "len got %d expected %d" % (len(got), len(c2.get(n, b""))))
        cs.close()
    try:
        ctx.guard("compound", w, body)
    finally:
        shutil.rmtree(d, ignore_errors=True)
    return ("compound", mmap, tuple(sizes), bufsize), any(sizes), w


KINDS = [(idset_program, 10, "idset.programs"), (multi_case, 2, None), (hash_case, 2, None), (ordered_case, 2, None),
         (enc_case, 3, None), (extsort_case, 1, None), (compound_case, 1, None)]


def run(ctx):
    bag = []
    for fn, wt, _ in KINDS:
        bag += [fn] * wt
    for idx in ctx.cases(quick=1500, thorough=12000):
        rng = ctx.rng(idx)
        fn = rng.choice(bag)
        if fn is idset_program:
            ctx.count("idset.programs")
        shape, nontrivial, w = fn(ctx, rng)
        ctx.case(shape, nontrivial, sample=w if idx % 97 == 0 else None)
