"""C20 - on-disk tables, number codecs and doc-id sets implement their abstract types.

Monitor shape: reference-model (Python set / dict / sorted() / bytes) driven with the
same operation sequence as the real object; every observable is compared.

Hash files are additionally written with sets of distinct keys whose FULL 32-bit hash values are equal (found by a
birthday search inside the check, per hash function), because a table slot stores the hash value and random keys
never meet on 32 bits: see equalhash_case.
"""
import collections
import hashlib
import io
import os
import random
import shutil
import tempfile
import zlib

LEVEL = "exploration"
RULE = ("cases are seeded operation programs: (a) id-set programs = constructor + 6..14 random ops "
        "(add/discard/update/intersection_update/difference_update/invert_update/copy/binary ops/==/reads) on "
        "BitSet/SortedIntSet/ReverseIdSet vs a Python set, with OnDiskBitSet/from_bytes/from_disk/ReverseIdSet views of the "
        "final state, and MultiIdSet over 1..4 serial sub-sets; (b) hash-file (3 hash types, duplicate keys, forced "
        "bucket collisions, logical file offsets shifted past 2^16/2^31/2^32), ordered-hash, number-encoding, varint, "
        "GrowableArray, StructFile, external-sort and compound-file round trips vs dict/sorted()/bytes; "
        "(c) one case in 19 (idx % 19 == 7, own stream) is an equal-hash table: HashWriter (hash types 0/1/2) or "
        "OrderedHashWriter files holding 1..3 sets of distinct keys with the SAME full 32-bit hash value (different and "
        "equal key lengths, every insertion order, optionally one member left out = an absent key whose hash value is "
        "stored, or one member stored twice) among 0/2/20/150 random ordinary keys or up to 16 keys of the members' bucket, read "
        "back through the same map oracle with every member looked up (ordered files: also closest_key/keys_from); "
        "the sets come from a per-process birthday search over 200k..800k random keys of 2..13 bytes per (seed, hash "
        "type), a pure function of the seed. "
        "A case is non-trivial when the structure is non-empty; distinct = distinct (kind, class/config, opcode "
        "sequence or size signature).")
ASSUMPTIONS = [
    "first()/last() of an empty id set may return None or raise (statement does not say)",
    "an operation a DocIdSet class does not offer (NotImplementedError from the abstract base: before/after/copy of "
    "ReverseIdSet, before/after/first/last of MultiIdSet) is skipped and counted under idset.not_implemented",
    "invert_update(size) is only called with size > every member (the docstring defines the result on [0,size) only); "
    "ReverseIdSet is only used with ids below its limit ('the highest possible ID plus one')",
    "== between two DocIdSets is taken to be extensional set equality (the classes define __eq__ by element "
    "comparison and the shipped tests use it that way)",
    "HashReader.all(key) is compared as a multiset and reader[key] / get(key) must be one of the values stored under the "
    "key (the order among duplicate keys is not promised)",
    "equal-hash key sets are found, and the hash.equalhash.* / hash.bucket_wraps reach counters are computed, with an "
    "independent restatement of the three documented hash functions (md5 low 32 bits, crc32, cdb); if whoosh's functions "
    "differed from the documentation the files would simply not contain equal-hash keys (the oracle never uses it); "
    "a seed typically offers only 3..11 different-length and 1..3 equal-length sets per hash type for md5/crc32 (hundreds of "
    "equal-length ones for cdb), varied by seed, insertion order, neighbours and file offset",
    "file offsets beyond 2^16 / 2^31 / 2^32 are reached through a file object that adds a base to tell()/seek() "
    "(no multi-gigabyte file is written); GrowableArray retyping itself is also exercised directly with large numbers",
    "RoaringIdSet (never instantiated by whoosh, iteration/insert broken by construction) and FieldedOrderedHashWriter/"
    "Reader (never imported anywhere) are dead code and not part of the verdict",
    "SubFile is observed through CompoundStorage.open_file (read/seek/tell), not through its unreachable subset()",
    "documented preconditions are respected, not probed: OrderedHashWriter keys strictly increase, numbers stay within each "
    "encoding's maxint, SortedIntSet members fit its typecode, marshal-able/picklable sort items",
    "external sort: 'no run file left behind after the sorted output was consumed' is checked in addition to the order "
    "(DESIGN section 3 C20); other temp-file hygiene (CompoundWriter .ctmp) is not judged",
]
SHARDS = {"quick": 4, "thorough": 16}
BUDGET_S = {"quick": 60, "thorough": 420}
FLOORS = {"idset.programs": 900, "idset.reads": 50000, "idset.ondisk": 300, "idset.reverse": 700, "idset.multi": 190,
          "idset.frombytes": 300, "idset.eq.unequal": 500,
          "hash.cases": 200, "hash.lookups": 6000, "hash.shifted": 100, "hash.bucket_wraps": 3000, "hash.crowded_bucket_cases": 80,
          "hash.equalhash.cases": 110, "hash.equalhash.ordered": 30, "hash.equalhash.lookup_after_other_length": 95,
          "hash.equalhash.lookup_after_other_length.ht0": 20, "hash.equalhash.lookup_after_other_length.ht1": 20,
          "hash.equalhash.lookup_after_other_length.ht2": 18, "hash.equalhash.lookup_after_other_length.ordered": 24,
          "hash.equalhash.lookup_after_same_length": 55, "hash.equalhash.absent_with_stored_hash": 33,
          "ordered.cases": 180, "ordered.probes": 4500,
          "ordered.indextype.H": 80, "ordered.indextype.i": 30, "ordered.indextype.I": 20, "ordered.indextype.q": 30,
          "enc.cases": 280, "enc.growable.q": 3, "enc.growable.I": 8, "enc.growable.i": 10,
          "extsort.cases": 90, "extsort.runs": 4000, "extsort.reduced": 15,
          "compound.cases": 90, "compound.members": 500}


def rb(rng, n):
    return bytes(rng.randrange(256) for _ in range(n))


def nfail(ctx):
    return sum(v for k, v in ctx.counters.items() if k.startswith("fail:"))


# ----------------------------------------------------------------------
# id sets
# ----------------------------------------------------------------------

def _reads(ctx, name, obj, model, rng, span, w, limit=None):
    """Compare every read API of a DocIdSet with the model set."""
    def chk(what, fn, expect, allow_exc_if_empty=False):
        ctx.count("idset.reads")
        try:
            got = fn()
        except NotImplementedError:
            ctx.count("idset.not_implemented")
            return
        except Exception as e:  # noqa
            if allow_exc_if_empty and not model:
                return
            ctx.fail("idset.read", "%s.%s:exc:%s" % (name, what, type(e).__name__), w, repr(e))
            return
        if got != expect:
            ctx.fail("idset.read", "%s.%s" % (name, what), w, "got %r expected %r" % (got, expect))
    sm = sorted(model)
    top = (span + 3) if limit is None else limit
    chk("iter", lambda: list(obj), sm)
    chk("len", lambda: len(obj), len(sm))
    chk("bool", lambda: bool(obj), bool(sm))
    probes = [rng.randrange(0, max(1, top)), rng.randrange(0, max(1, top))]
    if sm:
        probes.append(rng.choice(sm))
        probes.append(sm[-1] + 1 if limit is None else sm[-1])
    for x in probes:
        if limit is not None and x >= limit:
            continue
        chk("contains", lambda: x in obj, x in model)
        chk("before", lambda: obj.before(x), max([i for i in sm if i < x], default=None))
        chk("after", lambda: obj.after(x), min([i for i in sm if i > x], default=None))
    chk("first", lambda: obj.first(), sm[0] if sm else None, True)
    chk("last", lambda: obj.last(), sm[-1] if sm else None, True)


def idset_program(ctx, rng):
    from whoosh.idsets import BitSet, SortedIntSet, ReverseIdSet, OnDiskBitSet
    from whoosh.filedb.filestore import RamStorage
    kind = rng.choice(["BitSet", "BitSet", "SortedIntSet", "SortedIntSet", "ReverseIdSet"])
    spans = [0, 1, 7, 8, 9, 15, 16, 17, 40, 64, 65, 200]
    if not ctx.quick:
        spans += [255, 256, 1000, 5000]
    span = rng.choice(spans)
    src = sorted(set(rng.randrange(0, span + 1) for _ in range(rng.randint(0, 10))))
    prog = []
    limit = None
    if kind == "BitSet":
        ctor = rng.choice(["list", "list", "tuple", "set", "gen", "size", "size0", "empty"])
    elif kind == "SortedIntSet":
        ctor = rng.choice(["list", "list", "set", "gen", "empty", "typecode"])
    else:
        ctor = rng.choice(["BitSet", "SortedIntSet"])
        limit = span + 1 + rng.randint(0, 5)
    w = {"class": kind, "ctor": ctor, "source": src, "span": span, "program": prog}
    if limit is not None:
        w["limit"] = limit
    typecode = "I"

    def make(cls_kind, members):
        """A fresh set of the program's class holding `members` (for == and as `other`)."""
        if cls_kind == "BitSet":
            return BitSet(sorted(members)) if members else BitSet()
        if cls_kind == "SortedIntSet":
            return SortedIntSet(sorted(members))
        inner = set(range(limit)) - set(members)
        return ReverseIdSet(SortedIntSet(sorted(inner)), limit)

    try:
        if kind == "ReverseIdSet":
            inner = BitSet(src) if (ctor == "BitSet" and src) else (BitSet() if ctor == "BitSet" else SortedIntSet(src))
            obj = ReverseIdSet(inner, limit)
            model = set(range(limit)) - set(src)
        else:
            cls = BitSet if kind == "BitSet" else SortedIntSet
            if ctor == "list":
                obj = cls(list(src))
            elif ctor == "tuple":
                obj = cls(tuple(src))
            elif ctor == "set":
                obj = cls(set(src))
            elif ctor == "gen":
                obj = cls(i for i in src)
            elif ctor == "size":
                obj = cls(src, size=span + 1)
            elif ctor == "size0":
                obj = cls(size=span + 1)
                src = []
            elif ctor == "typecode":
                typecode = rng.choice(["H", "I", "L", "Q"])
                obj = cls(src, typecode=typecode)
                w["typecode"] = typecode
            else:
                obj = cls()
                src = []
            w["source"] = src
            model = set(src)
    except Exception as e:  # noqa
        ctx.fail("idset.ctor", "%s(%s):exc:%s" % (kind, "empty-" + ctor if not src else ctor, type(e).__name__), w, repr(e))
        return ("idset", kind, ctor, "ctor-failed"), False, w
    name = kind
    ops = []
    nf0 = nfail(ctx)
    top = (span + 20) if limit is None else limit
    if kind == "ReverseIdSet":
        menu = ["add", "discard", "update", "intersection_update", "difference_update", "invert_update",
                "isdisjoint", "eq", "reads", "remove_present", "add", "discard"]
    else:
        menu = ["add", "discard", "update", "intersection_update", "difference_update",
                "invert_update", "copy", "union", "intersection", "difference", "isdisjoint",
                "eq", "reads", "clear", "add", "remove_present", "operators", "invert"]
    for _ in range(rng.randint(6, 14)):
        op = rng.choice(menu)
        if op == "clear" and rng.random() < 0.7:
            op = "add"
        x = rng.randrange(0, max(1, top))
        other = sorted(set(rng.randrange(0, max(1, top)) for _ in range(rng.randint(0, 8))))
        okind = rng.choice(["set", "BitSet", "SortedIntSet", "list", "frozenset", "tuple"])
        ops.append(op)
        step = {"op": op, "x": x, "other": other, "okind": okind}
        prog.append(step)

        def mk_other():
            if okind == "set":
                return set(other)
            if okind == "frozenset":
                return frozenset(other)
            if okind == "list":
                return list(other)
            if okind == "tuple":
                return tuple(other)
            if okind == "BitSet":
                return BitSet(other) if other else BitSet()
            return SortedIntSet(other)
        try:
            if op == "add":
                obj.add(x)
                model.add(x)
            elif op == "discard":
                obj.discard(x)
                model.discard(x)
            elif op == "remove_present":
                if model:
                    y = rng.choice(sorted(model))
                    step["x"] = y
                    obj.discard(y)
                    model.discard(y)
            elif op == "clear":
                obj.clear()
                model.clear()
            elif op == "update":
                obj.update(mk_other())
                model.update(other)
            elif op == "intersection_update":
                obj.intersection_update(mk_other())
                model.intersection_update(other)
            elif op == "difference_update":
                obj.difference_update(mk_other())
                model.difference_update(other)
            elif op in ("invert_update", "invert"):
                if limit is not None:
                    size = limit
                else:
                    size = (max(model) + 1 if model else 0) + rng.choice([0, 0, 1, 2, 7, 8, 9, 12])
                step["size"] = size
                if op == "invert":
                    got = sorted(obj.invert(size))
                    exp = sorted(set(range(size)) - model)
                    if got != exp:
                        ctx.fail("idset.binop", "%s.invert" % name, w, "got %r expected %r" % (got, exp))
                else:
                    obj.invert_update(size)
                    model = set(range(size)) - model
            elif op == "copy":
                c = obj.copy()
                fresh = (max(model) if model else 0) + 33
                c.add(fresh)
                if fresh in obj:
                    ctx.fail("idset.copy", "%s.copy-not-independent" % name, w)
                c.discard(fresh)
                if model:
                    y = min(model)
                    c.discard(y)
                    if y not in obj:
                        ctx.fail("idset.copy", "%s.copy-not-independent" % name, w)
                obj = obj.copy()
            elif op in ("union", "intersection", "difference"):
                got = sorted(getattr(obj, op)(mk_other()))
                exp = sorted(getattr(model, op)(set(other)))
                if got != exp:
                    ctx.fail("idset.binop", "%s.%s(%s)" % (name, op, okind), w, "got %r expected %r" % (got, exp))
                if sorted(obj) != sorted(model):
                    ctx.fail("idset.binop", "%s.%s(%s)-mutated-self" % (name, op, okind), w)
            elif op == "operators":
                o2 = make(kind, other)
                sym = rng.choice(["|", "&", "-"])
                step["sym"] = sym
                if sym == "|":
                    got, exp = sorted(obj | o2), sorted(model | set(other))
                elif sym == "&":
                    got, exp = sorted(obj & o2), sorted(model & set(other))
                else:
                    got, exp = sorted(obj - o2), sorted(model - set(other))
                if got != exp:
                    ctx.fail("idset.binop", "%s.operator%s" % (name, sym), w, "got %r expected %r" % (got, exp))
                if sorted(obj) != sorted(model):
                    ctx.fail("idset.binop", "%s.operator%s-mutated-self" % (name, sym), w)
            elif op == "isdisjoint":
                got = obj.isdisjoint(mk_other())
                if got != model.isdisjoint(other):
                    ctx.fail("idset.binop", "%s.isdisjoint(%s)" % (name, okind), w, "got %r" % got)
            elif op == "eq":
                same = make(kind, model)
                if not (obj == same) or (obj != same):
                    ctx.fail("idset.binop", "%s.__eq__:equal-sets-unequal" % name, w,
                             "not equal to a fresh set with the same members")
                ctx.count("idset.eq.equal")
                # a different set: drop the largest member / add a larger one / arbitrary other
                how = rng.choice(["drop-last", "append", "other"])
                if how == "drop-last" and model:
                    m2 = set(sorted(model)[:-1])
                elif how == "append" and (limit is None or (limit - 1) not in model):
                    m2 = set(model) | {(max(model) + 1 if model else 0) if limit is None else limit - 1}
                else:
                    m2 = set(other)
                step["eq_other"] = sorted(m2)
                if m2 != model:
                    diff = make(kind, m2)
                    ctx.count("idset.eq.unequal")
                    if (obj == diff) or not (obj != diff):
                        ctx.fail("idset.binop", "%s.__eq__:different-sets-equal" % name, w,
                                 "members %r compare equal to %r" % (sorted(model), sorted(m2)))
            elif op == "reads":
                _reads(ctx, name, obj, model, rng, span, w, limit)
        except Exception as e:  # noqa
            mech = "%s.%s" % (name, op)
            if op in ("update", "intersection_update", "difference_update", "union", "intersection", "difference"):
                mech += "(%s%s)" % (okind, "" if other else "-empty")
            ctx.fail("idset.op", "%s:exc:%s" % (mech, type(e).__name__), w, repr(e))
            return ("idset", name, ctor, tuple(ops)), bool(model), w
        # stop at the first disagreement: later differences would be cascades
        if nfail(ctx) != nf0:
            return ("idset", name, ctor, tuple(ops)), bool(model), w
        try:
            now = list(obj)
        except Exception as e:  # noqa
            ctx.fail("idset.op", "%s.%s:iter-after:exc:%s" % (name, op, type(e).__name__), w, repr(e))
            return ("idset", name, ctor, tuple(ops)), bool(model), w
        if now != sorted(model):
            mech = "%s.%s" % (name, op)
            if op in ("update", "intersection_update", "difference_update"):
                mech += "(%s)" % okind
            ctx.fail("idset.op", mech + ":wrong-members", w, "members %r expected %r" % (now, sorted(model)))
            return ("idset", name, ctor, tuple(ops)), bool(model), w
    _reads(ctx, name, obj, model, rng, span, w, limit)
    if nfail(ctx) != nf0:
        return ("idset", name, ctor, tuple(ops)), bool(model), w
    # derived views of the final state
    if kind == "BitSet":
        st = RamStorage()
        f = st.create_file("b")
        pre = rng.choice([0, 3])
        f.write(b"\x00" * pre)
        n = obj.to_disk(f)
        f.close()
        od = OnDiskBitSet(st.open_file("b"), pre, n)
        _reads(ctx, "OnDiskBitSet", od, model, rng, span, w)
        ctx.count("idset.ondisk")
        f = st.open_file("b")
        f.seek(pre)
        ok, fd = ctx.guard("idset.read", w, BitSet.from_disk, f, n)
        if ok:
            _reads(ctx, "BitSet.from_disk", fd, model, rng, span, w)
            fresh = (max(model) if model else 0) + 50
            fd.add(fresh)
            if fresh in obj:
                ctx.fail("idset.copy", "BitSet.from_disk-shares-state", w)
        ok, fb = ctx.guard("idset.read", w, BitSet.from_bytes, bytes(bytearray(obj.bits)))
        if ok:
            _reads(ctx, "BitSet.from_bytes", fb, model, rng, span, w)
        ctx.count("idset.frombytes")
    if kind != "ReverseIdSet":
        lim = (max(model) + 1 if model else 0) + rng.randint(0, 5)
        rv = ReverseIdSet(obj, lim)
        rm = set(range(lim)) - model
        w2 = dict(w, reverse_limit=lim)
        _reads(ctx, "ReverseIdSet", rv, rm, rng, span, w2, lim)
        ctx.count("idset.reverse")
    return ("idset", name, ctor, tuple(ops)), bool(model), w


def multi_case(ctx, rng):
    from whoosh.idsets import MultiIdSet, SortedIntSet, BitSet
    parts, offs, base, mm, sig = [], [], 0, set(), []
    for _ in range(rng.randint(1, 4)):
        n = rng.randint(1, 12)
        ids = sorted(set(rng.randrange(n) for _ in range(rng.randint(0, 5))))
        cls = rng.choice([SortedIntSet, BitSet])
        parts.append(cls(ids) if ids else cls())
        offs.append(base)
        mm |= set(i + base for i in ids)
        sig.append((cls.__name__, n, len(ids)))
        base += n
    w = {"class": "MultiIdSet", "offsets": offs, "total": base, "members": sorted(mm)}
    try:
        ms = MultiIdSet(parts, offs)
        got = list(ms)
        if got != sorted(mm):
            ctx.fail("idset.read", "MultiIdSet.iter", w, "got %r" % got)
        for x in range(base):
            if (x in ms) != (x in mm):
                ctx.fail("idset.read", "MultiIdSet.contains", dict(w, x=x), "x in set -> %r" % (x in ms))
                break
        if len(ms) != len(mm):
            ctx.fail("idset.read", "MultiIdSet.len", w, "got %r" % len(ms))
        _reads(ctx, "MultiIdSet", ms, mm, rng, base, w, base)
    except Exception as e:  # noqa
        ctx.fail("idset.read", "MultiIdSet:exc:%s" % type(e).__name__, w, repr(e))
    ctx.count("idset.multi")
    return ("multi", tuple(sig)), bool(mm), w


# ----------------------------------------------------------------------
# tables
# ----------------------------------------------------------------------

class ShiftedIO(object):
    """File-like object whose logical offsets are physical offsets + base: lets the table
    code see file positions beyond 2^16 / 2^31 / 2^32 without writing gigabytes."""

    def __init__(self, base):
        self.b = io.BytesIO()
        self.base = base

    def tell(self):
        return self.b.tell() + self.base

    def seek(self, pos, whence=0):
        if whence == 0:
            self.b.seek(pos - self.base)
        else:
            self.b.seek(pos, whence)
        return self.tell()

    def read(self, *a):
        return self.b.read(*a)

    def readline(self, *a):
        return self.b.readline(*a)

    def write(self, d):
        return self.b.write(d)

    def flush(self):
        pass

    def close(self):
        pass

    def size(self):
        return len(self.b.getvalue())


def _model_hash(ht, key):
    """Independent re-statement of the three documented hash functions; used ONLY to choose keys that
    collide in one of the 256 buckets and to count probe wrap-arounds (reach counters), never as an oracle."""
    if ht == 0:
        return int(hashlib.md5(key).hexdigest(), 16) & 0xffffffff
    if ht == 1:
        return zlib.crc32(key) & 0xffffffff
    h = 5381
    for c in key:
        h = ((h + (h << 5)) & 0xffffffff) ^ c
    return h


def _count_wraps(ht, keys):
    buckets = collections.defaultdict(list)
    for k in keys:
        h = _model_hash(ht, k)
        buckets[h & 255].append(h)
    wraps = 0
    biggest = 0
    for hs in buckets.values():
        n = 2 * len(hs)
        biggest = max(biggest, len(hs))
        taken = [False] * n
        for h in hs:
            s = (h >> 8) % n
            while taken[s]:
                s += 1
                if s == n:
                    s = 0
                    wraps += 1
            taken[s] = True
    return wraps, biggest


BASES = [0, 0, 0, 2 ** 16 - 40, 2 ** 31 - 300, 2 ** 32 - 300, 2 ** 40]


def _open_table(rng, st, name):
    """-> (structfile for writing, reopen() -> (structfile, length, startoffset), label)"""
    from whoosh.filedb.structfile import StructFile
    base = rng.choice(BASES)
    if base:
        raw = ShiftedIO(base)
        return StructFile(raw), (lambda: (StructFile(raw), raw.size(), base)), base
    pre = rng.choice([0, 0, 7])
    f = st.create_file(name)
    f.write(b"x" * pre)
    return f, (lambda: (st.open_file(name), st.file_length(name) - pre, pre)), pre


def _compare_map(ctx, hr, ht, items, model, probe, w, tag=""):
    """The map oracle: the reader `hr` of a hash file written from `items` (in that order) against
    model = {key: [values in insertion order]}; keyed access is probed with every key of `probe`."""
    for k in probe:
        got = list(hr.all(k))
        if sorted(got) != sorted(model.get(k, [])):
            ctx.fail("hash", "all(ht=%d)%s" % (ht, tag), dict(w, key=k), "got %d values expected %d" % (len(got), len(model.get(k, []))))
        if (k in hr) != (k in model):
            ctx.fail("hash", "contains(ht=%d)%s" % (ht, tag), dict(w, key=k))
        if k in model:
            if hr[k] not in model[k]:
                ctx.fail("hash", "getitem(ht=%d)%s" % (ht, tag), dict(w, key=k))
            if hr.get(k, b"?") not in model[k]:
                ctx.fail("hash", "get(ht=%d)%s" % (ht, tag), dict(w, key=k))
        else:
            if hr.get(k, b"?") != b"?":
                ctx.fail("hash", "get-absent(ht=%d)%s" % (ht, tag), dict(w, key=k))
            try:
                hr[k]
                ctx.fail("hash", "getitem-absent-no-KeyError(ht=%d)%s" % (ht, tag), dict(w, key=k))
            except KeyError:
                pass
        ctx.count("hash.lookups")
    if list(hr.items()) != items:
        ctx.fail("hash", "items(ht=%d)%s" % (ht, tag), w)
    if list(hr) != items:
        ctx.fail("hash", "iter(ht=%d)%s" % (ht, tag), w)
    if list(hr.keys()) != [k for k, _ in items]:
        ctx.fail("hash", "keys(ht=%d)%s" % (ht, tag), w)
    if list(hr.values()) != [v for _, v in items]:
        ctx.fail("hash", "values(ht=%d)%s" % (ht, tag), w)


def hash_case(ctx, rng):
    from whoosh.filedb.filestore import RamStorage
    from whoosh.filedb.filetables import HashWriter, HashReader
    st = RamStorage()
    ht = rng.choice([0, 1, 2])
    n = rng.choice([0, 1, 2, 5, 50, 300, 1200])
    style = rng.choice(["random", "prefix", "dups", "tiny", "bucket", "bucket"])
    items = []
    if style == "bucket":
        n = min(n, 300)
        target = rng.randrange(256)
        tries = 0
        while len(items) < n and tries < 200000:
            tries += 1
            k = rb(rng, rng.choice([1, 2, 3, 8]))
            if _model_hash(ht, k) & 255 == target:
                items.append((k, rb(rng, rng.choice([0, 1, 5]))))
    else:
        for i in range(n):
            if style == "random":
                k = rb(rng, rng.choice([0, 1, 2, 3, 8, 40]))
            elif style == "prefix":
                k = b"key" + rb(rng, rng.choice([0, 1, 2]))
            elif style == "dups":
                k = rb(rng, 1)[:1] if rng.random() < 0.5 else b"d"
            else:
                k = bytes([rng.randrange(4)])
            items.append((k, rb(rng, rng.choice([0, 1, 5, 300]))))
    w = {"kind": "hash", "hashtype": ht, "n": n, "style": style, "first_keys": [k for k, _ in items[:6]]}
    ctx.count("hash.cases")
    wraps, biggest = _count_wraps(ht, [k for k, _ in items])
    ctx.count("hash.bucket_wraps", wraps)
    if biggest >= 8:
        ctx.count("hash.crowded_bucket_cases")
    info = {}

    def body():
        f, reopen, off = _open_table(rng, st, "h")
        info["off"] = off
        w["offset"] = off
        if off > 7:
            ctx.count("hash.shifted")
        hw = HashWriter(f, hashtype=ht)
        if rng.random() < 0.5:
            for k, v in items:
                hw.add(k, v)
        else:
            hw.add_all(items)
        hw.close()
        f, length, start = reopen()
        if start == 0 and rng.random() < 0.5:
            hr = HashReader(f, length)
        else:
            hr = HashReader(f, length, startoffset=start)
        model = collections.OrderedDict()
        for k, v in items:
            model.setdefault(k, []).append(v)
        probe = list(model)[:40] + list(model)[-10:] + [rb(rng, rng.choice([0, 1, 2, 9])) for _ in range(10)]
        _compare_map(ctx, hr, ht, items, model, probe, w)
        hr.close()
    ctx.guard("hash", w, body)
    return ("hash", ht, n, style, info.get("off")), n > 0, w


# ---- keys whose FULL 32-bit hash values are equal (a table slot stores the hash value: the reader must tell such
# keys apart by length and bytes, and must go on probing past a slot whose hash matches but whose key does not)

_POOLS = {}
_POOL_LENS = (2, 3, 4, 5, 6, 6, 6, 6, 7, 8, 9, 13)   # half the keys share one length => same-length collisions too


def _collision_pool(seed, ht):
    """Birthday search (cached per process; a pure function of (seed, hashtype), so a replayed case sees the same
    pool) over random byte keys of varied length for sets of distinct keys with one 32-bit value of hash function
    `ht`. -> {"diff": [[keys of >= 2 different lengths]...], "same": [[keys of one length]...],
              "mates": {bucket: [ordinary keys of that bucket]}, "tried": n}"""
    pool = _POOLS.get((seed, ht))
    if pool is not None:
        return pool
    r = random.Random("C20:equal-hash-pool:%d:%d" % (seed, ht))
    seen, groups, n = {}, {}, 0
    nl = len(_POOL_LENS)
    while True:
        for i in range(100000):
            ln = _POOL_LENS[i % nl]
            k = r.getrandbits(8 * ln).to_bytes(ln, "big")
            h = _model_hash(ht, k)
            o = seen.setdefault(h, k)
            if o is not k and o != k:
                g = groups.setdefault(h, [o])
                if k not in g:
                    g.append(k)
        n += 100000
        diff = [g for g in groups.values() if len(set(len(k) for k in g)) > 1]
        same = [g for g in groups.values() if len(set(len(k) for k in g)) == 1]
        if (n >= 200000 and len(diff) >= 3 and same) or n >= 800000:
            break
    mates = collections.defaultdict(list)
    need = 256
    for h, k in seen.items():
        m = mates[h & 255]
        if len(m) < 16 and h not in groups:
            m.append(k)
            if len(m) == 16:
                need -= 1
                if not need:
                    break
    pool = {"diff": diff[:200], "same": same[:200], "mates": mates, "tried": n}
    _POOLS[(seed, ht)] = pool
    return pool


def equalhash_case(ctx, rng):
    """Hash files (HashWriter with each hash type, OrderedHashWriter) holding 1..3 sets of keys with EQUAL full 32-bit
    hash values - different or equal lengths, every insertion order, one member left out (an absent key whose hash
    value is in the table) or stored twice - among 0..150 ordinary keys (random, or of the same bucket), against the
    same map oracle as hash_case (plus closest_key/keys_from on the ordered variant)."""
    from whoosh.filedb.filestore import RamStorage
    from whoosh.filedb.filetables import HashWriter, HashReader, OrderedHashWriter, OrderedHashReader
    st = RamStorage()
    ordered = rng.random() < 0.3
    ht = 0 if ordered else rng.choice([0, 1, 2])   # OrderedHashWriter always uses hash type 0
    pool = _collision_pool(ctx.seed, ht)
    coll, left_out, sig, used = [], [], [], set()
    for _ in range(rng.choice([1, 1, 2, 3])):
        src = pool["diff"] if (rng.random() < 0.7 or not pool["same"]) else pool["same"]
        if not src:
            continue
        g = list(rng.choice(src))
        if g[0] in used:
            continue
        used.add(g[0])
        rng.shuffle(g)
        mode = rng.choice(["all", "all", "all", "leave-one-out", "twice"])
        if mode == "leave-one-out":
            left_out.append(g.pop(rng.randrange(len(g))))
        elif mode == "twice" and not ordered:
            g.insert(rng.randrange(len(g) + 1), rng.choice(g))
        coll.append(g)
        sig.append((tuple(len(k) for k in g), mode))
    nf = rng.choice([0, 2, 20, 150])
    fstyle = rng.choice(["random", "bucket"])
    if fstyle == "bucket" and coll:
        fill = list(pool["mates"].get(_model_hash(ht, coll[0][0]) & 255, []))[:nf]
    else:
        fill = [rb(rng, rng.choice([0, 1, 2, 3, 8])) for _ in range(nf)]
    flat = [k for g in coll for k in g]
    at = sorted(rng.randrange(len(fill) + 1) for _ in flat)
    keys = list(fill)
    for pos, k in reversed(list(zip(at, flat))):
        keys.insert(pos, k)
    if ordered:
        keys = sorted(set(keys))
    items = [(k, b"%d|" % i + rb(rng, rng.choice([0, 1, 5, 300]))) for i, k in enumerate(keys)]
    model = collections.OrderedDict()
    for k, v in items:
        model.setdefault(k, []).append(v)
    probe = []
    for k in flat + left_out + fill[:15] + fill[-5:] + [rb(rng, rng.choice([0, 1, 2, 9])) for _ in range(5)]:
        if k not in probe:
            probe.append(k)
    w = {"kind": "equal-hash", "hashtype": ht, "writer": "OrderedHashWriter" if ordered else "HashWriter",
         "equal_hash_keys_in_insertion_order": [[k for k in model if k in g] for g in coll] if ordered else coll,
         "left_out": left_out, "n_other_keys": len(fill), "other_keys": fstyle}
    # reach counters (by the independent restatement of the hash functions)
    ctx.count("hash.equalhash.cases")
    ctx.count("hash.equalhash.ht%d" % ht)
    if ordered:
        ctx.count("hash.equalhash.ordered")
    first_of = {}
    for k in model:
        first_of.setdefault(_model_hash(ht, k), []).append(k)
    later = 0
    for ks in first_of.values():
        for i, k in enumerate(ks[1:], 1):
            if k in probe:
                later += 1
                if any(len(p) != len(k) for p in ks[:i]):
                    ctx.count("hash.equalhash.lookup_after_other_length")
                    ctx.count("hash.equalhash.lookup_after_other_length.%s" % ("ordered" if ordered else "ht%d" % ht))
                if any(len(p) == len(k) for p in ks[:i]):
                    ctx.count("hash.equalhash.lookup_after_same_length")
    for k in probe:
        if k not in model and _model_hash(ht, k) in first_of:
            ctx.count("hash.equalhash.absent_with_stored_hash")
    info = {}

    def body():
        f, reopen, off = _open_table(rng, st, "e")
        info["off"] = off
        w["offset"] = off
        hw = OrderedHashWriter(f) if ordered else HashWriter(f, hashtype=ht)
        if rng.random() < 0.5:
            for k, v in items:
                hw.add(k, v)
        else:
            hw.add_all(items)
        hw.close()
        f, length, start = reopen()
        hr = (OrderedHashReader if ordered else HashReader)(f, length, startoffset=start)
        _compare_map(ctx, hr, ht, items, model, probe, w, tag=":equal-hash" + (":ordered" if ordered else ""))
        if ordered:
            for p in probe:
                exp = [k for k in keys if k >= p]
                got = hr.closest_key(p)
                if got != (exp[0] if exp else None):
                    ctx.fail("ordered", "closest_key:equal-hash", dict(w, probe=p), "got %r expected %r" % (got, exp[:1]))
                if list(hr.keys_from(p)) != exp:
                    ctx.fail("ordered", "keys_from:equal-hash", dict(w, probe=p))
        hr.close()
    ctx.guard("hash", w, body)
    return ("equal-hash", ht, ordered, tuple(sig), nf, fstyle, info.get("off")), later > 0, w


def ordered_case(ctx, rng):
    from whoosh.filedb.filestore import RamStorage
    from whoosh.filedb.filetables import OrderedHashWriter, OrderedHashReader
    st = RamStorage()
    nk = rng.choice([0, 1, 2, 5, 60, 400, 1500])
    klen = rng.choice([(0, 1, 2, 3), (1, 2), (2, 3, 4)])
    keys = sorted(set(rb(rng, rng.choice(klen)) for _ in range(nk)))
    vsize = rng.choice([3, 10, 90, 700])  # 700 * 100+ keys pushes offsets past 2^16 (H -> i retyping)
    w = {"kind": "ordered", "nkeys": len(keys), "vsize": vsize, "first_keys": keys[:5]}
    ctx.count("ordered.cases")
    info = {}

    def body():
        f, reopen, off = _open_table(rng, st, "o")
        w["offset"] = off
        info["off"] = off
        ow = OrderedHashWriter(f)
        vals = {}
        for k in keys:
            v = rb(rng, rng.choice([0, 3, vsize]))
            vals[k] = v
            ow.add(k, v)
        ow.close()
        f, length, start = reopen()
        orr = OrderedHashReader(f, length, startoffset=start)
        info["indextype"] = orr.extras.get("indextype")
        ctx.count("ordered.indextype.%s" % info["indextype"])
        it = info["indextype"]
        if list(orr.keys()) != keys:
            ctx.fail("ordered", "keys(%s)" % it, w)
        if list(orr.items()) != [(k, vals[k]) for k in keys]:
            ctx.fail("ordered", "items(%s)" % it, w)
        for _ in range(25):
            p = rb(rng, rng.choice([0, 1, 2, 3, 4]))
            r = rng.random()
            if keys and r < 0.3:
                p = rng.choice(keys)
            elif keys and r < 0.4:
                p = keys[-1] + b"\x00"
            elif keys and r < 0.5:
                p = rng.choice(keys)[:-1]
            expk = min([k for k in keys if k >= p], default=None)
            got = orr.closest_key(p)
            if got != expk:
                ctx.fail("ordered", "closest_key(%s)" % it, dict(w, probe=p), "got %r expected %r" % (got, expk))
            if list(orr.keys_from(p)) != [k for k in keys if k >= p]:
                ctx.fail("ordered", "keys_from(%s)" % it, dict(w, probe=p))
            if list(orr.items_from(p)) != [(k, vals[k]) for k in keys if k >= p]:
                ctx.fail("ordered", "items_from(%s)" % it, dict(w, probe=p))
            if (p in orr) != (p in vals):
                ctx.fail("ordered", "contains(%s)" % it, dict(w, probe=p))
            ctx.count("ordered.probes")
        for k in keys[:30] + keys[-5:]:
            if orr[k] != vals[k]:
                ctx.fail("ordered", "getitem(%s)" % it, dict(w, key=k))
        orr.close()
    ctx.guard("ordered", w, body)
    return ("ordered", len(keys), vsize, info.get("indextype"), info.get("off")), bool(keys), w


def enc_case(ctx, rng):
    from whoosh.filedb.filestore import RamStorage
    from whoosh.util import numlists, varints
    from whoosh.util.numlists import GrowableArray
    # the structured-file layer reads differently from a real OS file (array.fromfile, no buffer) than from a RAM / mapped
    # buffer: both are exercised
    stkind = random.Random("c20-enc-storage:%r" % rng.random()).choice(["ram", "ram", "file", "file-nommap"])
    tmpd = None
    if stkind == "ram":
        st = RamStorage()
    else:
        from whoosh.filedb.filestore import FileStorage
        tmpd = tempfile.mkdtemp(prefix="vf-c20-enc-")
        st = FileStorage(tmpd, supports_mmap=(stkind == "file"))
    ctx.count("enc.storage.%s" % stkind)
    kind = rng.choice(["Varints", "ByteEncoding", "UShortEncoding", "UIntEncoding", "Simple16", "GInts",
                       "varint", "growable", "growable", "delta", "structfile", "structfile", "base85"])
    ctx.count("enc.cases")
    ctx.count("enc.kind.%s" % kind)
    w = {"kind": "enc", "what": kind}
    shape = [kind]

    def body():
        if kind in ("Varints", "ByteEncoding", "UShortEncoding", "UIntEncoding", "Simple16", "GInts"):
            enc = getattr(numlists, kind)()
            mx = enc.maxint or 2 ** 40
            small = rng.random() < 0.4  # small numbers exercise the packed layouts of Simple16/GInts
            nums = [rng.choice([0, 1, 2, 3, 15, 127, 128, 255, 256, 65535, 65536, 2 ** 24 - 1, 2 ** 24, 2 ** 28 - 1,
                                2 ** 32 - 1, mx, rng.randrange(mx + 1)]) if not small else rng.randrange(rng.choice([2, 4, 16, 300]))
                    for _ in range(rng.randint(0, 60))]
            nums = [n for n in nums if n <= mx]
            w["nums"] = nums[:8]
            shape.append((len(nums), small))
            f = st.create_file("n")
            pre = rng.choice([0, 5])
            f.write(b"\x00" * pre)
            enc.write_nums(f, nums)
            f.close()
            f = st.open_file("n")
            f.seek(pre)
            got = list(enc.read_nums(f, len(nums)))
            if got != nums:
                ctx.fail("enc", "%s.read_nums" % kind, w, "got %r" % got[:8])
            srt = sorted(nums)
            if kind == "Varints" or (srt and max([b - a for a, b in zip([0] + srt, srt)]) <= mx):
                f = st.create_file("d")
                enc.write_deltas(f, srt)
                f.close()
                got = list(enc.read_deltas(st.open_file("d"), len(srt)))
                if got != srt:
                    ctx.fail("enc", "%s.read_deltas" % kind, w, "got %r" % got[:8])
            if nums:
                i = rng.randrange(len(nums))
                try:
                    g = enc.get(st.open_file("n"), pre, i)
                except NotImplementedError:
                    g = nums[i]
                if g != nums[i]:
                    ctx.fail("enc", "%s.get" % kind, dict(w, i=i), "got %r" % (g,))
        elif kind == "varint":
            ns = [rng.choice([0, 1, 127, 128, 511, 512, 16383, 16384, 2 ** 31, 2 ** 63, rng.randrange(2 ** 70)]) for _ in range(20)]
            w["nums"] = ns[:6]
            shape.append(tuple(n.bit_length() // 7 for n in ns[:6]))
            f = st.create_file("v")
            for n in ns:
                f.write_varint(n)
            f.close()
            f = st.open_file("v")
            got = [f.read_varint() for _ in ns]
            if got != ns:
                ctx.fail("enc", "structfile.varint", w, "got %r" % got[:6])
            for n in ns:
                b = varints.varint(n)
                if varints.read_varint(io.BytesIO(b + b"\xff").read) != n:
                    ctx.fail("enc", "varints.read_varint(varint)", dict(w, n=n))
                if varints.varint_to_int(b) != n:
                    ctx.fail("enc", "varints.varint_to_int(varint)", dict(w, n=n))
                s = n if rng.random() < 0.5 else -n
                zz = varints.read_varint(io.BytesIO(varints.signed_varint(s)).read)
                if varints.decode_signed_varint(zz) != s:
                    ctx.fail("enc", "varints.signed_varint", dict(w, n=s))
        elif kind == "growable":
            ns = [rng.choice([0, 1, 255, 256, 65535, 65536, 2 ** 31 - 1, 2 ** 31, 2 ** 32 - 1, 2 ** 32, 2 ** 40, rng.randrange(2 ** 17)])
                  for _ in range(rng.randint(0, 12))]
            cap = rng.choice([2 ** 8, 2 ** 16, 2 ** 31, 2 ** 32, 2 ** 62])
            ns = [n for n in ns if n < cap]
            if rng.random() < 0.5:
                ns.sort()   # offsets grow monotonically in the real use
            init = rng.choice(["B", "H", "H"])
            w["nums"] = ns
            w["inittype"] = init
            ga = GrowableArray(init)
            if rng.random() < 0.5:
                for n in ns:
                    ga.append(n)
            else:
                ga.extend(ns)
            shape.append((init, ga.typecode, len(ns)))
            ctx.count("enc.growable.%s" % ga.typecode)
            if list(ga) != ns or len(ga) != len(ns):
                ctx.fail("enc", "GrowableArray.iter(%s)" % ga.typecode, w, "got %r" % list(ga))
            f = st.create_file("g")
            ga.to_file(f)
            f.close()
            tc = ga.typecode
            if ns:
                got = list(st.open_file("g").read_array(tc, len(ns)))
                if got != ns:
                    ctx.fail("enc", "GrowableArray.to_file(%s)" % tc, w, "got %r" % got)
        elif kind == "delta":
            from whoosh.util.numlists import delta_encode, delta_decode
            ns = sorted(rng.randrange(2 ** rng.choice([4, 16, 40])) for _ in range(rng.randint(0, 30)))
            w["nums"] = ns[:8]
            shape.append(len(ns))
            enc = list(delta_encode(ns))
            if list(delta_decode(enc)) != ns:
                ctx.fail("enc", "delta_encode/decode", w)
            if any(d < 0 for d in enc):
                ctx.fail("enc", "delta_encode-negative-gap", w)
        elif kind == "base85":
            from whoosh.support import base85
            shape.append("ints")
            prev = None
            xs = sorted(rng.choice([0, 1, 84, 85, 85 ** 5 - 1, rng.randrange(85 ** 5)]) for _ in range(12))
            w["nums"] = xs[:6]
            for islong in (False, True):
                top = 85 ** 10 if islong else 85 ** 5
                ys = xs + ([top - 1, rng.randrange(top)] if islong else [])
                encs = []
                for x in sorted(ys):
                    t = base85.to_base85(x, islong)
                    encs.append(t)
                    if base85.from_base85(t) != x:
                        ctx.fail("enc", "base85.int-roundtrip", dict(w, x=x))
                if encs != sorted(encs):
                    ctx.fail("enc", "base85.int-order", w)
        else:
            # StructFile typed round trips (sequential reads and positional get_*)
            import struct
            f = st.create_file("s")
            vals = []
            rngs = {"byte": (0, 255), "sbyte": (-128, 127), "ushort": (0, 65535), "short": (-2 ** 15, 2 ** 15 - 1),
                    "uint": (0, 2 ** 32 - 1), "int": (-2 ** 31, 2 ** 31 - 1), "long": (-2 ** 63, 2 ** 63 - 1),
                    "ulong": (0, 2 ** 64 - 1), "ushort_le": (0, 65535), "uint_le": (0, 2 ** 32 - 1),
                    "tagint": (0, 2 ** 32 - 1)}
            for _ in range(rng.randint(1, 30)):
                t = rng.choice(["byte", "sbyte", "ushort", "short", "uint", "int", "long", "ulong", "float", "double",
                                "string", "string2", "string4", "varint", "svarint", "ushort_le", "uint_le", "tagint",
                                "pickle", "array"])
                if t in rngs:
                    lo, hi = rngs[t]
                    v = rng.choice([lo, hi, 0, rng.randint(lo, hi), rng.randint(lo, min(hi, 300)), 253, 254, 255])
                    if not lo <= v <= hi:
                        v = lo
                elif t == "float":
                    v = struct.unpack("!f", struct.pack("!f", rng.uniform(-1e6, 1e6)))[0]
                elif t == "double":
                    v = rng.uniform(-1e300, 1e300)
                elif t in ("string", "string2", "string4"):
                    v = rb(rng, rng.choice([0, 1, 127, 128, 300]))
                elif t == "varint":
                    v = rng.randrange(2 ** rng.choice([3, 14, 35, 64]))
                elif t == "svarint":
                    v = rng.randrange(2 ** rng.choice([3, 14, 35, 62])) * rng.choice([1, -1])
                elif t == "pickle":
                    v = {"k": rng.randrange(1000), "l": [rb(rng, 3), None, 1.5]}
                else:
                    import array as _array
                    tc = rng.choice(["B", "H", "i", "I", "q"])
                    hi = {"B": 255, "H": 65535, "i": 2 ** 31 - 1, "I": 2 ** 32 - 1, "q": 2 ** 63 - 1}[tc]
                    v = _array.array(tc, [rng.choice([0, hi, rng.randint(0, hi)]) for _ in range(rng.randint(0, 6))])
                if not hasattr(f, "write_" + t):
                    continue
                pos = f.tell()
                getattr(f, "write_" + t)(v)
                vals.append((t, v, pos))
            f.close()
            f = st.open_file("s")
            shape.append(tuple(t for t, _, _ in vals[:8]))
            w["values"] = [(t, v) for t, v, _ in vals[:8]]
            for t, v, pos in vals:
                if f.tell() != pos:
                    ctx.fail("enc", "structfile.%s:position-before" % t, dict(w, value=v), "tell %r expected %r" % (f.tell(), pos))
                    break
                if t == "array":
                    got = f.read_array(v.typecode, len(v))
                else:
                    got = getattr(f, "read_" + t)()
                if got != v:
                    ctx.fail("enc", "structfile.%s" % t, dict(w, value=v), "got %r" % (got,))
                    break
            g = st.open_file("s")
            for t, v, pos in vals:
                if t == "array":
                    got = g.get_array(pos, v.typecode, len(v))
                elif hasattr(g, "get_" + t) and t not in ("string2", "string4"):
                    got = getattr(g, "get_" + t)(pos)
                elif t in ("string2", "string4"):
                    got = getattr(g, "get_" + t)(pos)[0]
                else:
                    continue
                if got != v:
                    ctx.fail("enc", "structfile.get_%s" % t, dict(w, value=v, pos=pos), "got %r" % (got,))
                    break
    w["storage"] = stkind
    try:
        ctx.guard("enc", w, body)
    finally:
        if tmpd:
            shutil.rmtree(tmpd, ignore_errors=True)
    return ("enc", tuple(shape) + (stkind,)), True, w


def extsort_case(ctx, rng):
    from whoosh import externalsort
    n = rng.choice([0, 1, 2, 10, 200, 1000])
    dom = rng.choice([3, 20, 10 ** 6])
    items = [(rng.randrange(dom), rb(rng, 2)) for _ in range(n)]
    maxsize = rng.choice([1, 2, 7, 50, 1000, 100000])
    maxfiles = rng.choice([2, 3, 10, 128])
    mode = rng.choice(["sort", "pool"])
    w = {"kind": "extsort", "n": n, "maxsize": maxsize, "maxfiles": maxfiles, "mode": mode, "key_domain": dom}
    ctx.count("extsort.cases")
    d = tempfile.mkdtemp(prefix="vf-c20-")

    def body():
        if mode == "sort":
            got = list(externalsort.sort(items, maxsize=maxsize, tempdir=d, maxfiles=maxfiles))
            nruns = (n - 1) // maxsize + 1 if n > maxsize else 0
        else:
            sp = externalsort.SortingPool(maxsize=maxsize, tempdir=d, prefix=rng.choice(["", "p"]))
            for it in items:
                sp.add(it)
            nruns = len(sp.runs) + (1 if sp.runs and sp.current else 0)
            if sp.runs and len(os.listdir(d)) != len(sp.runs):
                ctx.fail("extsort", "run-files-vs-run-list", w, "%d files, %d runs" % (len(os.listdir(d)), len(sp.runs)))
            got = list(sp.items(maxfiles=maxfiles))
        ctx.count("extsort.runs", nruns)
        if nruns > maxfiles:
            ctx.count("extsort.reduced")
        if got != sorted(items):
            ctx.fail("extsort", "sorted-output(%s)" % mode, w, "len got %d expected %d" % (len(got), len(items)))
        left = os.listdir(d)
        if left:
            ctx.fail("extsort", "temp-files-left-behind", w, repr(left[:3]))
    try:
        ctx.guard("extsort", w, body)
    finally:
        shutil.rmtree(d, ignore_errors=True)
    return ("extsort", n, maxsize, maxfiles, mode), n > 1, w


def compound_case(ctx, rng):
    from whoosh.filedb.filestore import FileStorage
    from whoosh.filedb.compound import CompoundStorage, CompoundWriter
    names = ["f%d.x" % i for i in range(rng.randint(1, 5))]
    mmap = rng.random() < 0.5
    sizes = [rng.choice([0, 1, 100, 4095, 4096, 40000]) for _ in names]
    bufsize = rng.choice([1, 16, 1024, 32 * 1024])
    w = {"kind": "compound", "mmap": mmap, "sizes": sizes, "buffersize": bufsize}
    ctx.count("compound.cases")
    d = tempfile.mkdtemp(prefix="vf-c20-")

    def verify(cs, content, label):
        for n in sorted(content):
            ctx.count("compound.members")
            f = cs.open_file(n)
            got = bytes(f.read())
            if got != content[n]:
                ctx.fail("compound", "%s.read(mmap=%s)" % (label, mmap), dict(w, name=n), "len got %d expected %d" % (len(got), len(content[n])))
            if content[n]:
                a = rng.randrange(len(content[n]))
                b = rng.randrange(a, len(content[n]) + 1)
                f = cs.open_file(n)
                f.seek(a)
                got = bytes(f.read(b - a))
                if got != content[n][a:b]:
                    ctx.fail("compound", "%s.seek-read(mmap=%s)" % (label, mmap), dict(w, name=n, a=a, b=b))
                if f.tell() != b:
                    ctx.fail("compound", "%s.tell(mmap=%s)" % (label, mmap), dict(w, name=n, a=a, b=b), "tell %r" % f.tell())
                if bytes(f.get(a, b - a)) != content[n][a:b]:
                    ctx.fail("compound", "%s.get(mmap=%s)" % (label, mmap), dict(w, name=n, a=a, b=b))
                # reading past the end of a member must not leak the next member's bytes
                f.seek(max(0, len(content[n]) - 3))
                tail = bytes(f.read(50))
                if tail != content[n][max(0, len(content[n]) - 3):]:
                    ctx.fail("compound", "%s.read-past-end(mmap=%s)" % (label, mmap), dict(w, name=n), "got %d bytes" % len(tail))
            if cs.file_length(n) != len(content[n]):
                ctx.fail("compound", "%s.file_length" % label, dict(w, name=n))
            if not cs.file_exists(n):
                ctx.fail("compound", "%s.file_exists" % label, dict(w, name=n))
        # two members open at once, read in interleaved chunks
        ns = sorted(content)
        if len(ns) >= 2:
            n1, n2 = rng.sample(ns, 2)
            f1, f2 = cs.open_file(n1), cs.open_file(n2)
            g1 = g2 = b""
            for _ in range(6):
                g1 += bytes(f1.read(rng.choice([1, 7, 1000])))
                g2 += bytes(f2.read(rng.choice([1, 7, 1000])))
            g1 += bytes(f1.read())
            g2 += bytes(f2.read())
            if g1 != content[n1] or g2 != content[n2]:
                ctx.fail("compound", "%s.interleaved-read(mmap=%s)" % (label, mmap), dict(w, names=[n1, n2]))
        if sorted(cs.list()) != sorted(content):
            ctx.fail("compound", "%s.list" % label, w, repr(cs.list()))
        if cs.file_exists("nope"):
            ctx.fail("compound", "%s.file_exists-absent" % label, w)

    def body():
        fs = FileStorage(d, supports_mmap=mmap)
        content = {}
        for n, sz in zip(names, sizes):
            content[n] = rb(rng, sz) if sz < 5000 else rb(rng, 100) * (sz // 100)
            f = fs.create_file(n)
            f.write(content[n])
            f.close()
        cf = fs.create_file("c.seg")
        CompoundStorage.assemble(cf, fs, names)
        cs = CompoundStorage(fs.open_file("c.seg"), use_mmap=mmap)
        verify(cs, content, "assemble")
        cs.close()
        cw = CompoundWriter(fs, buffersize=bufsize)
        c2 = {}
        fls = {n: cw.create_file(n) for n in names}
        for _ in range(20):
            n = rng.choice(names)
            chunk = rb(rng, rng.choice([0, 1, 10, 2000]))
            fls[n].write(chunk)
            c2[n] = c2.get(n, b"") + chunk
            if fls[n].tell() != len(c2[n]):
                ctx.fail("compound", "writer.tell(buf=%d)" % bufsize, dict(w, name=n), "tell %r expected %r" % (fls[n].tell(), len(c2[n])))
        for n in names:
            c2.setdefault(n, b"")
        if rng.random() < 0.7:
            out = fs.create_file("d.seg")
            cw.save_as_compound(out)
            cs = CompoundStorage(fs.open_file("d.seg"), use_mmap=mmap)
            verify(cs, c2, "writer(buf=%d)" % bufsize)
            cs.close()
        else:
            cw.save_as_files(fs, lambda nm: "out-" + nm)
            for n in names:
                ctx.count("compound.members")
                f = fs.open_file("out-" + n)
                got = bytes(f.read())
                f.close()
                if got != c2[n]:
                    ctx.fail("compound", "writer.save_as_files(buf=%d)" % bufsize, dict(w, name=n), "len got %d expected %d" % (len(got), len(c2[n])))
    try:
        ctx.guard("compound", w, body)
    finally:
        shutil.rmtree(d, ignore_errors=True)
    return ("compound", mmap, tuple(sizes), bufsize), any(sizes), w


KINDS = [(idset_program, 10), (multi_case, 2), (hash_case, 2), (ordered_case, 2),
         (enc_case, 3), (extsort_case, 1), (compound_case, 1)]


def run(ctx):
    bag = []
    for fn, wt in KINDS:
        bag += [fn] * wt
    # one case in 19 (by index alone, so that the draws of all the other cases are what they were) is an
    # equal-hash table case drawn from its own labelled stream
    for idx in ctx.cases(quick=1580, thorough=12640):
        if idx % 19 == 7:
            shape, nontrivial, w = equalhash_case(ctx, ctx.rng(idx, "equal-hash"))
            ctx.case(shape, nontrivial, sample=w if idx % 97 == 0 else None)
            continue
        rng = ctx.rng(idx)
        fn = rng.choice(bag)
        if fn is idset_program:
            ctx.count("idset.programs")
        shape, nontrivial, w = fn(ctx, rng)
        ctx.case(shape, nontrivial, sample=w if idx % 97 == 0 else None)
