"""C15 - query rewriting never changes what a query means.

Differential + reference-model monitor.  Query trees come from two sources: (1) a generator over all public
query types (Term, And, Or, Not, AndNot, AndMaybe, Require, Otherwise, DisjunctionMax, Phrase, Prefix, Wildcard
incl. [] classes, Regex, TermRange (overlapping, duplicate, reversed, degenerate), NumericRange, DateRange,
FuzzyTerm, Variations, Every, NullQuery, ConstantScoreQuery, empty compounds, nested same-type compounds with
boosts, duplicate and near-duplicate clauses, Sequence/Ordered and the span queries, NestedParent/NestedChildren
over a grouped corpus) and (2) what QueryParser.parse(text, normalize=False) builds for generated query strings
(incl. stop words), i.e. the trees the parser hands to normalize().  Indexes are built by vf.model from generated
histories (1..4 segments, deletions, multi-token fields).  Every rewrite the statement names is applied and the
rewritten query is run on the real engine:

    normalize, normalize(normalize), & | - , with_boost, replace(absent), accept/apply(identity),
    copy.copy / copy.deepcopy / Query.copy / pickle, simplify(reader), estimate_size(reader)

Oracle (two sides, both must agree): keys(docs_for_query(rewrite(q))) == keys(docs_for_query(q)) on the
real engine (matcher-level defects cancel) and == the independent evaluator (vf.model.matches + the
set-level extension below) applied to the ORIGINAL tree (a rewrite cannot hide behind a matcher defect).
Every single normalize() step (one node whose children are already normalised) is additionally compared
locally under the evaluator, which is what lets a disagreement be attributed to one mechanism; simplify() is
decomposed into the expansion of its leaves (each judged strictly) followed by normalize() steps.

Populations (DESIGN 1.4): a tree is in population B when it contains a construct that can trigger a listed
finding (syntactic, conservative predicate `triggers`), else in population A.  In A every disagreement is a
violation (and reaching a listed mechanism is a harness error).  In B a disagreement is first judged strictly;
otherwise each deviating local normalize step must be *exactly* a listed mechanism (second oracle: the
semantics of the step's input transformed by the listed mechanism equals the semantics of the step's output),
the rewritten query must be the composition of those steps, and the engine result of the rewritten query must
equal the model semantics of that normal form; only then it is reported as `known:<id>`.
"""
import copy
import datetime
import itertools
import pickle
import random

LEVEL = "exploration"
RULE = ("case = (history -> index with 1..4 segments, deletions, multi-token fields, or a grouped parent/child corpus; query tree of "
        "depth <= 4 over all public query types incl. Every, NullQuery, empty compounds, duplicate/overlapping/reversed ranges, nested "
        "same-type compounds with boosts, near-duplicate clauses, binary operators, Sequence/Ordered, span and Nested* queries, or the "
        "un-normalised tree the query parser builds for a generated string) x rewrites {normalize, normalize^2, &, |, - (one of the three "
        "per tree in the quick tier), with_boost, replace(absent), accept(id), apply(id), copy, deepcopy, Query.copy, pickle(2), "
        "pickle(HIGHEST), simplify, estimate_size, eq/hash of copies, no-mutation, per-node normalize steps}; non-trivial when the "
        "expected set of the original is neither empty nor all live documents; distinct = (query type tree, population).")
ASSUMPTIONS = [
    "documented meaning of the original = vf.model.matches (set algebra over live documents; AndMaybe = first operand; DisjunctionMax = Or; "
    "Every(f) = documents with a term in f; Wildcard = fnmatch incl. [] classes; TermRange over term text order on every token of a "
    "multi-token field); Variations(f, w) = documents having a token in whoosh.lang.morph_en.variations(w); an empty And/Or matches nothing",
    "Otherwise, Sequence, Ordered and span queries have no independent model here: for trees containing them only the engine-vs-engine "
    "side of the oracle is evaluated (counted under c15.model.undecided)",
    "population A avoids, by a syntactic over-approximation, every construct that can reach a listed mechanism: null-ish leaves "
    "(NullQuery, empty compound, empty Phrase, degenerate exclusive TermRange) anywhere; an And (or the & / - operators) together "
    "with a fielded match-all leaf (Every(f), Wildcard(f,'*'), open TermRange) or with two TermRanges on one field",
    "idempotence is judged with the library's own == on the two normal forms plus equality of the documents matched",
    "estimate_size must be >= the model's match count of the original on the same reader (deleted documents may be over-counted); "
    "estimate_min_size is observed and counted only (the statement does not mention it)",
    "equal-implies-equal-hash is demanded only for a query and its own copies (copy/deepcopy/pickle), where equality is certain",
    "with_boost uses strictly positive boosts; Or.minmatch/scale are left at their defaults",
    "a rewritten query that is attribute-for-attribute identical to the original (plain recursive __dict__ comparison, not the "
    "library's ==) is not run again: it cannot behave differently (counted under c15.rw.structurally_identical)",
    "FuzzyTerm texts/distances are restricted to those where plain and transposition-aware edit distance agree on the whole "
    "vocabulary (FuzzyTerm.simplify() expands over the whole reader, the matcher per segment: that difference is C19's listed subject)",
    "NestedParent/NestedChildren are generated only at the root or directly under a root Or/Not, over groups with at least one child and "
    "without deletions, and are not combined with & / -: their matchers do not implement skip_to() faithfully (matcher-level subject, "
    "outside this property); their model is 'parent of every matching document' / 'all children of the wanted parents'",
    "parser-built trees: parse errors and QueryError for phrases on fields without positions are the parser property's subject (C16) and skipped",
    "ColumnQuery, WeightingQuery and the internal Or variants (DefaultOr, SplitOr, PreloadedOr) are not generated",
]
SHARDS = {"quick": 4, "thorough": 16}
BUDGET_S = {"quick": 70, "thorough": 600}
FLOORS = {"c15.dedup_sweep.trees": 250, "c15.popA.trees": 400, "c15.popB.trees": 100, "c15.popA.checks": 5000, "c15.popB.checks": 1300, "c15.engine.runs": 4000,
          "c15.model.decided": 350, "c15.nontrivial": 200, "c15.rw.normalize": 500, "c15.rw.simplify": 500, "c15.rw.with_boost": 500,
          "c15.rw.replace_absent": 500, "c15.rw.accept_id": 500, "c15.rw.apply_id": 500, "c15.rw.copy": 500, "c15.rw.deepcopy": 500,
          "c15.rw.qcopy": 500, "c15.rw.pickle2": 500, "c15.rw.pickleH": 500, "c15.rw.and_op": 120, "c15.rw.or_op": 200, "c15.rw.sub_op": 120,
          "c15.idempotent.evals": 500, "c15.estimate.evals": 500, "c15.steps": 18000, "c15.steps.listed": 60,
          "c15.popB.explained_by_listed": 25, "c15.simplify.leaf_checks": 3500, "c15.eqhash.evals": 2500, "c15.parser.trees": 80,
          "c15.nested.cases": 5, "c15.with_boost.value_checks": 350,
          "c15.qclass.And": 200, "c15.qclass.Or": 250, "c15.qclass.Not": 100, "c15.qclass.AndNot": 70, "c15.qclass.AndMaybe": 70,
          "c15.qclass.Require": 100, "c15.qclass.DisjunctionMax": 70, "c15.qclass.Every": 100, "c15.qclass.NullQuery": 12,
          "c15.qclass.TermRange": 200, "c15.qclass.NumericRange": 80, "c15.qclass.DateRange": 40, "c15.qclass.Phrase": 120,
          "c15.qclass.Prefix": 80, "c15.qclass.Wildcard": 100, "c15.qclass.Regex": 40, "c15.qclass.FuzzyTerm": 50,
          "c15.qclass.Variations": 40, "c15.qclass.ConstantScoreQuery": 40, "c15.qclass.Sequence": 25, "c15.qclass.SpanNear": 25,
          "c15.qclass.NestedParent": 30, "c15.qclass.NestedChildren": 30}

EXTRA_WORDS = ["alfas", "echoed", "echoes", "golfing", "golfs"]
BOOSTS = [0.5, 2.0, 3.0]


# ----------------------------------------------------------------------
# reference semantics (set level; leaves and the boolean core delegate to vf.model.matches)
# ----------------------------------------------------------------------

def _cls(mod, name):
    import importlib
    return getattr(importlib.import_module("whoosh.query." + mod), name)


def is_null(q):
    from whoosh.query import qcore
    return isinstance(q, qcore._NullQuery)


def sem(q, live):
    """Set of keys of the live documents satisfying q (independent of whoosh's matching / rewriting code)."""
    from whoosh import query
    from vf import model
    if is_null(q):
        return set()
    if isinstance(q, (query.Term, query.TermRange, query.terms.MultiTerm)) and not isinstance(q, query.NumericRange):
        # byte-level terms (what NumericRange compiles / simplifies to) and terms of the numeric fields are outside the model
        vals = [getattr(q, a, None) for a in ("text", "start", "end")]
        if q.fieldname not in ("t", "u", "k", "id", "kind") or any(v is not None and not isinstance(v, str) for v in vals):
            raise model.Undecided("byte-level term")
    if isinstance(q, query.Phrase) and not q.words:
        return set()      # a phrase without words matches nothing (Phrase.normalize() -> NullQuery)
    if isinstance(q, query.Variations):
        from whoosh.lang.morph_en import variations
        forms = set(variations(q.text))
        return set(k for k, d in live.items() if forms & set(model.toks(d, q.fieldname)))
    if isinstance(q, (query.Sequence, query.Ordered, query.Otherwise)):
        raise model.Undecided(type(q).__name__)
    if isinstance(q, query.And):
        if not q.subqueries:
            return set()
        res = None
        for s in q.subqueries:
            r = sem(s, live)
            res = r if res is None else (res & r)
        return res
    if isinstance(q, (query.Or, query.DisjunctionMax)):
        res = set()
        for s in q.subqueries:
            res |= sem(s, live)
        return res
    if isinstance(q, query.Not):
        return set(live) - sem(q.query, live)
    if isinstance(q, query.AndNot):
        return sem(q.a, live) - sem(q.b, live)
    if isinstance(q, query.AndMaybe):
        sem(q.b, live)  # an undecidable operand makes the whole tree undecidable
        return sem(q.a, live)
    if isinstance(q, query.Require):
        return sem(q.a, live) & sem(q.b, live)
    if isinstance(q, query.ConstantScoreQuery):
        return sem(q.child, live)
    if isinstance(q, (query.NestedParent, query.NestedChildren)):
        if not live or "_parent" not in next(iter(live.values())) or not is_parent_query(q.parents):
            raise model.Undecided("nested query outside the grouped corpus")
        inner = sem(q.child, live)
        if isinstance(q, query.NestedParent):
            # the parent of every matching document (a matching parent stands for itself)
            return set(live[k]["_parent"] for k in inner)
        # all children of the wanted parents
        return set(k for k, d in live.items() if d["kind"] == "c" and d["_parent"] in inner)
    if isinstance(q, (_cls("compound","CompoundQuery"), _cls("spans","SpanQuery"), _cls("wrappers","WrappingQuery"))):
        raise model.Undecided(type(q).__name__)
    return set(k for k, d in live.items() if model.matches(q, d))


def is_parent_query(p):
    from whoosh import query
    return type(p) is query.Term and p.fieldname == "kind" and p.text == "p" and p.boost == 1.0


def try_sem(q, live):
    from vf import model
    try:
        return sem(q, live)
    except model.Undecided:
        return None


# ----------------------------------------------------------------------
# generators
# ----------------------------------------------------------------------

RANGE_POOL = {
    "t": ["al", "alfa", "bravo", "charlie", "delta", "echo", "hotel", "india", "kilo", "m"],
    "u": ["alfa", "bravo", "charlie", "delta", "echo", "golf"],
    "k": ["blue", "cyan", "green", "re", "red"],
}


class Gen(object):
    """Query generator with a population mode.
    mode 'A1': no null-ish leaf, no fielded match-all leaf, at most one TermRange per field (And allowed)
    mode 'A2': no null-ish leaf, no And node (fielded Every, many ranges allowed)
    mode 'B' : everything"""

    def __init__(self, rng, mode, spans=True, nested=False):
        self.rng = rng
        self.mode = mode
        self.spans = spans
        self.nested = nested
        self.range_fields = set()

    # -- leaves
    def term(self, field=None):
        from whoosh import query
        from vf import model
        rng = self.rng
        f = field or rng.choice(["t", "t", "t", "u", "k"])
        if f == "t":
            w = model.zipf_choice(rng, model.VOCAB)
        elif f == "u":
            w = rng.choice(model.VOCAB[:8])
        else:
            w = rng.choice(model.KVOCAB)
        return query.Term(f, w)

    def termrange(self):
        from whoosh import query
        rng = self.rng
        fields = ["t", "t", "t", "u", "k"]
        if self.mode == "A1":
            fields = [f for f in ("t", "u", "k") if f not in self.range_fields]
            if not fields:
                return self.term()
        f = rng.choice(fields)
        self.range_fields.add(f)
        pool = RANGE_POOL[f]
        a, b = sorted([rng.choice(pool), rng.choice(pool)])
        if rng.random() < 0.08:
            a, b = b, a       # reversed bounds: matches nothing, must stay so through merging
        r = rng.random()
        if r < 0.2:
            a = None
        elif r < 0.4:
            b = None
        elif r < 0.45 and self.mode != "A1":
            a = b = None
        elif r < 0.5 and self.mode != "A1":
            a, b = "", u"\uffff"
        sx, ex = rng.random() < 0.3, rng.random() < 0.3
        if a is not None and a == b and (sx or ex) and self.mode != "B":
            sx = ex = False   # degenerate exclusive range normalises to NullQuery: population B only
        if a is None and b is None and self.mode == "A1":
            b = rng.choice(pool)
        return query.TermRange(f, a, b, sx, ex, constantscore=rng.random() < 0.8)

    def range_family(self):
        """2-3 ranges on ONE field that touch / overlap at a pivot value which is itself a term of the vocabulary,
        with every combination of inclusive / exclusive bounds at the pivot (merging decisions hinge on exactly
        that point). Not for mode A1 (one range per field there)."""
        from whoosh import query
        rng = self.rng
        f = rng.choice(["t", "t", "u", "k"])
        self.range_fields.add(f)
        pool = RANGE_POOL[f]
        i = rng.randrange(len(pool))
        p = pool[i]
        lo = rng.choice(pool[:i] + [None]) if i else None
        hi = rng.choice(pool[i + 1:] + [None]) if i + 1 < len(pool) else None
        shapes = [lambda: query.TermRange(f, lo, p, rng.random() < 0.3, rng.random() < 0.6),
                  lambda: query.TermRange(f, p, hi, rng.random() < 0.6, rng.random() < 0.3),
                  lambda: query.TermRange(f, p, p, False, False),
                  lambda: query.TermRange(f, lo, hi, rng.random() < 0.3, rng.random() < 0.3)]
        out = [shapes[0](), shapes[1]()]
        if rng.random() < 0.4:
            out.append(rng.choice(shapes)())
        rng.shuffle(out)
        return out

    def leaf(self):
        from whoosh import query
        from vf import model
        rng = self.rng
        mode = self.mode
        r = rng.random()
        if r < 0.30:
            q = self.term()
        elif r < 0.36:
            q = query.Prefix("t", rng.choice(["a", "al", "b", "brav", "", "z", "alfa", "e"]))
        elif r < 0.44:
            pats = ["a*", "*a", "?l*", "b?avo", "al?a", "*o*", "alfa", "a[lb]*", "al[f]a", "[a-c]*", "alf[ab]", "brav[!x]", "ech*", "e*o*"]
            if mode != "A1":
                pats += ["*", "*"]
            q = query.Wildcard(rng.choice(["t", "t", "t", "u"]), rng.choice(pats))
        elif r < 0.47:
            q = query.Regex("t", rng.choice(["a.*", ".*o", "b(ra)+v.*", "alf?", "[a-c].*", "x", ".*", "alfa", "al|br.*", "alfx{0,2}a",
                                             "brx{0}avo", "ec{0,1}ho", "delt{0,}a"]))
        elif r < 0.52:
            a, b = sorted([rng.randint(-6, 6), rng.randint(-6, 6)])
            q = query.NumericRange("n", rng.choice([a, None]), rng.choice([b, None]), rng.random() < .3, rng.random() < .3,
                                   constantscore=rng.random() < 0.7)
        elif r < 0.55:
            a, b = sorted([rng.randint(0, 9), rng.randint(0, 9)])
            q = query.DateRange("d", rng.choice([model.EPOCH + datetime.timedelta(days=a), None]),
                                rng.choice([model.EPOCH + datetime.timedelta(days=b), None]), rng.random() < .3, rng.random() < .3)
        elif r < 0.62:
            n = rng.choice([1, 2, 2, 2, 3]) if mode != "B" else rng.choice([0, 1, 2, 2, 3])
            ws = [rng.choice(model.VOCAB[:6]) for _ in range(n)]
            q = query.Phrase(rng.choice(["t", "t", "u"]), ws, slop=rng.randint(1, 3))
        elif r < 0.67:
            q = query.Every()
        elif r < 0.71:
            q = query.Every(rng.choice(["k", "t", "u", "n"])) if mode != "A1" else self.term()
        elif r < 0.83:
            q = self.termrange()
        elif r < 0.87:
            # texts / distances on which plain and transposition-aware edit distance agree for the whole vocabulary
            # (the disagreement between the two term expansion paths is C19's listed subject, not a rewrite)
            while True:
                text, md = rng.choice(model.VOCAB + ["alfo", "brvo", "ecoh", "golfz"]), rng.randint(1, 2)
                if all((model.lev(w, text, False) <= md) == (model.lev(w, text, True) <= md) for w in model.VOCAB + EXTRA_WORDS):
                    break
            q = query.FuzzyTerm("t", text, maxdist=md, prefixlength=rng.randint(0, 2))
        elif r < 0.90:
            q = query.Variations("t", rng.choice(["alfa", "echo", "golf", "echoes", "golfing", "bravo"]))
        elif r < 0.96:
            if mode == "B":
                q = rng.choice([query.NullQuery, query.NullQuery, query.NullQuery, query.And([]), query.Or([]), query.DisjunctionMax([])])
            else:
                q = self.term()
        else:
            q = query.Term("t", "zzzabsent")
        if not is_null(q) and rng.random() < 0.2:
            q = q.with_boost(rng.choice(BOOSTS))
        return q

    def span_leafish(self):
        """Positional / span queries over plain terms of the positional field t (engine-vs-engine only)."""
        from whoosh import query
        from vf import model
        rng = self.rng

        def t():
            return query.Term("t", model.zipf_choice(rng, model.VOCAB[:8]))
        r = rng.random()
        if r < 0.2:
            return query.Sequence([t() for _ in range(rng.randint(2, 3))], slop=rng.randint(1, 3), ordered=rng.random() < 0.7)
        if r < 0.3:
            return query.Ordered([t() for _ in range(rng.randint(2, 3))])
        if r < 0.45:
            return query.SpanNear(t(), t(), slop=rng.randint(1, 3), ordered=rng.random() < 0.7, mindist=1)
        if r < 0.55:
            return query.SpanNear2([t() for _ in range(rng.randint(2, 3))], slop=rng.randint(1, 3), ordered=rng.random() < 0.7)
        if r < 0.65:
            return query.SpanOr([t() for _ in range(rng.randint(1, 3))])
        if r < 0.75:
            return query.SpanFirst(t(), limit=rng.randint(0, 2))
        if r < 0.82:
            return query.SpanNot(query.SpanNear(t(), t(), slop=3), t())
        if r < 0.88:
            return query.SpanContains(query.SpanNear(t(), t(), slop=3), t())
        if r < 0.94:
            return query.SpanBefore(t(), t())
        return query.SpanCondition(t(), t())

    # -- trees
    def tree(self, depth):
        from whoosh import query
        rng = self.rng
        if self.nested:
            # Nested* only at the root or directly under a root Or / Not: their matchers do not implement skip_to()
            # faithfully (matcher-level subject), and a union / inversion in boolean mode only steps them with next()
            self.nested = False
            inner = self.tree(max(0, depth - 1))
            if rng.random() < 0.5:
                nq = query.NestedParent(query.Term("kind", "p"), inner, per_parent_limit=rng.choice([None, None, 1, 2]))
            else:
                # the wanted-parents query must only match parents
                nq = query.NestedChildren(query.Term("kind", "p"), query.Require(inner, query.Term("kind", "p")))
            r = rng.random()
            if r < 0.5:
                return nq
            if r < 0.8:
                sib = [self.tree(max(0, depth - 1)) for _ in range(rng.randint(1, 2))]
                if rng.random() < 0.5:
                    # a same-field match-all sibling must not absorb the nested query (it matches OTHER documents than its sub-query)
                    sib.append(query.Every(inner.field() or "t"))
                    rng.shuffle(sib)
                return (query.Or if rng.random() < 0.8 else query.DisjunctionMax)([nq] + sib)
            return query.Not(nq)
        if depth == 0 or rng.random() < 0.25:
            if self.spans and rng.random() < 0.10:
                return self.span_leafish()
            return self.leaf()
        r = rng.random()

        def sub():
            return self.tree(depth - 1)

        def subs(lo, hi):
            n = rng.randint(lo, hi)
            out = [sub() for _ in range(n)]
            if out and rng.random() < 0.25:      # duplicate clause (de-duplication)
                out.insert(rng.randrange(len(out) + 1), copy.deepcopy(rng.choice(out)))
            if out and rng.random() < 0.3:       # near-duplicate: same clause but for one attribute (must survive de-duplication)
                pos = [c for c in out if isinstance(c, (query.Sequence, query.Phrase, _cls("spans", "SpanQuery")))]
                out.insert(rng.randrange(len(out) + 1), near_duplicate(rng, rng.choice(pos or out), self.mode))
            if out and rng.random() < 0.15:      # same clause with another boost
                c = rng.choice(out)
                if not is_null(c):
                    out.append(c.with_boost(rng.choice(BOOSTS)))
            return out
        lo = 0 if self.mode == "B" else 1
        if self.mode != "A1" and rng.random() < 0.07:
            # absorption probe: a fielded match-all (Every(f), or a range / wildcard that normalises to it) next to a clause
            # that reports field f but can match documents WITHOUT a term in f (binary operators across fields - Otherwise
            # falls back to its second operand -, negations, mixed-field compounds). Only a disjunction may absorb, and only
            # clauses that cannot match outside f.
            f = rng.choice(["t", "u", "k"])
            g = rng.choice([x for x in ("t", "u", "k") if x != f])
            ev = rng.choice([query.Every(f), query.Every(f), query.TermRange(f, None, None), query.Wildcard(f, "*")])
            inf = rng.choice([self.term(f), query.Term(f, "zzzabsent"), query.Term(f, "zzzabsent"), query.Prefix(f, "zzz")])
            other = self.term(g)
            B = rng.choice([query.Otherwise, query.Otherwise, query.AndMaybe, query.AndNot, query.Require])
            x = rng.choice([lambda: B(inf, other), lambda: B(other, inf), lambda: query.Not(inf),
                            lambda: query.Or([inf, other]), lambda: query.And([inf, other]) if self.mode == "B" else query.Or([other, inf]),
                            lambda: query.DisjunctionMax([inf, other]), lambda: query.AndNot(other, inf)])()
            ch = [ev, x] + ([sub()] if rng.random() < 0.3 else [])
            rng.shuffle(ch)
            return (query.Or if rng.random() < 0.7 else query.DisjunctionMax)(ch)
        if rng.random() < 0.06:
            # binary operator over two same-class compounds that share a clause: the operands must stay two operands
            # (no merging / de-duplication across them)
            K = rng.choice([query.Or, query.Or, query.DisjunctionMax] if self.mode == "A2" else [query.And, query.And, query.Or, query.DisjunctionMax])
            shared = self.leaf()
            a = K([shared, self.leaf()] + ([sub()] if rng.random() < 0.3 else []))
            b = K([self.leaf(), copy.deepcopy(shared)])
            B = rng.choice([query.AndMaybe, query.AndMaybe, query.AndNot, query.Require, query.Otherwise])
            return B(a, b) if rng.random() < 0.7 else B(b, a)
        if self.spans and rng.random() < 0.11:
            # de-duplication probe: clauses that differ in one attribute only must both survive normalize()
            x = self.span_leafish() if rng.random() < 0.7 else query.Phrase("t", [rng.choice(["alfa", "bravo", "al"]) for _ in range(2)], slop=1)
            ch = [x, near_duplicate(rng, x, self.mode)] + ([sub()] if rng.random() < 0.3 else [])
            rng.shuffle(ch)
            if self.mode == "A2" or rng.random() < 0.6:
                return query.Or(ch)
            return query.And(ch)
        if r < 0.24:
            if self.mode == "A2":
                q = query.Require(sub(), sub())
            else:
                ch = subs(lo, 3)
                if rng.random() < 0.3:           # nested same-type compound with boosts
                    ch.append(query.And(subs(1, 2), boost=rng.choice([1.0, 2.0, 0.5])))
                if rng.random() < 0.25:          # overlapping / duplicate ranges inside And
                    ch += [self.termrange() for _ in range(rng.randint(1, 2))]
                    rng.shuffle(ch)
                if self.mode == "B" and rng.random() < 0.15:
                    ch += self.range_family()
                    rng.shuffle(ch)
                q = query.And(ch, boost=rng.choice([1.0, 1.0, 2.0]))
        elif r < 0.48:
            ch = subs(lo, 4)
            if rng.random() < 0.3:
                ch.append(query.Or(subs(1, 2), boost=rng.choice([1.0, 2.0, 0.5])))
            if rng.random() < 0.3:
                ch += [self.termrange() for _ in range(rng.randint(1, 3))]
                rng.shuffle(ch)
            if self.mode != "A1" and rng.random() < 0.2:
                ch += self.range_family()
                rng.shuffle(ch)
            q = query.Or(ch, boost=rng.choice([1.0, 1.0, 2.0]))
        elif r < 0.56:
            q = query.Not(sub())
        elif r < 0.64:
            q = query.AndNot(sub(), sub())
        elif r < 0.71:
            q = query.AndMaybe(sub(), sub())
        elif r < 0.78:
            q = query.Require(sub(), sub())
        elif r < 0.87:
            ch = subs(lo, 3)
            if rng.random() < 0.3:
                ch += [self.termrange() for _ in range(rng.randint(1, 2))]
            if self.mode != "A1" and rng.random() < 0.15:
                ch += self.range_family()
            if rng.random() < 0.2:
                ch.append(query.DisjunctionMax(subs(1, 2), boost=2.0, tiebreak=0.3))
            q = query.DisjunctionMax(ch, boost=rng.choice([1.0, 1.0, 2.0]), tiebreak=rng.choice([0.0, 0.0, 0.3]))
        elif r < 0.92:
            q = query.ConstantScoreQuery(sub(), score=rng.choice([0.5, 1.0, 4.0]))
        elif r < 0.94:
            q = query.Otherwise(sub(), sub())
        else:
            q = query.Or([self.leaf() for _ in range(rng.randint(8, 10))])
        return q


def class_sibling(rng, q, mode="B"):
    """A query of ANOTHER class carrying exactly q's attributes (same sub-queries / text / slop / boost): equality, hashing
    and de-duplication must tell the two apart (Sequence vs Ordered, And vs Or, AndNot vs AndMaybe, Term vs Prefix...).
    Returns None when q's class has no such sibling."""
    from whoosh import query
    from whoosh.query import spans
    c = copy.deepcopy(q)
    t = type(c)
    if t in (query.Sequence, query.Ordered):
        other = query.Ordered if t is query.Sequence else query.Sequence
        return other(list(c.subqueries), slop=c.slop, ordered=c.ordered, boost=c.boost)
    if t in (query.And, query.Or, query.DisjunctionMax, spans.SpanOr):
        opts = [k for k in (query.And, query.Or, query.DisjunctionMax) if k is not t and not (k is query.And and mode != "B")]
        kids = list(getattr(c, "subqueries", None) or getattr(c, "subqs", None) or [])
        if not kids:
            return None
        k = rng.choice(opts)
        return k(kids, boost=getattr(c, "boost", 1.0))
    if t in (query.AndNot, query.AndMaybe, query.Require, query.Otherwise):
        k = rng.choice([k for k in (query.AndNot, query.AndMaybe, query.Require, query.Otherwise) if k is not t])
        return k(c.a, c.b)
    if t in (spans.SpanBefore, spans.SpanCondition, spans.SpanContains, spans.SpanNot):
        k = rng.choice([k for k in (spans.SpanBefore, spans.SpanCondition, spans.SpanContains, spans.SpanNot) if k is not t])
        return k(c.a, c.b)
    if t in (query.Term, query.Prefix, query.Wildcard, query.Variations) and isinstance(c.text, str):
        opts = [k for k in (query.Term, query.Prefix, query.Wildcard, query.Variations) if k is not t]
        if c.text.isalnum():
            opts.append(query.Regex)
        k = rng.choice(opts)
        out = k(c.fieldname, c.text)
        if c.boost != 1.0:
            out = out.with_boost(c.boost)
        return out
    return None


def near_duplicate(rng, q, mode="B"):
    """A copy of q that differs in exactly one attribute that changes (or may change) what it matches - or, one time in
    three, a class sibling (see above)."""
    from whoosh import query
    if rng.random() < 0.34:
        sib = class_sibling(rng, q, mode)
        if sib is not None:
            return sib
    c = copy.deepcopy(q)
    if isinstance(c, (query.Phrase, query.Sequence, query.SpanNear, query.SpanNear2)):
        if rng.random() < 0.6 or not hasattr(c, "ordered"):
            c.slop = 1 if c.slop > 1 else 3
        else:
            c.ordered = not c.ordered
    elif isinstance(c, query.FuzzyTerm):
        if rng.random() < 0.5:
            c.prefixlength = 0 if c.prefixlength else 2
        else:
            c.text = "alfo" if c.text != "alfo" else "brvo"
    elif isinstance(c, (query.TermRange, query.NumericRange)):
        if rng.random() < 0.5:
            c.startexcl = not c.startexcl
        else:
            c.endexcl = not c.endexcl
    elif isinstance(c, query.SpanFirst):
        c.limit = 0 if c.limit else 2
    elif isinstance(c, (query.Prefix, query.Wildcard, query.Regex)):
        c.constantscore = not c.constantscore
    elif isinstance(c, query.ConstantScoreQuery):
        c.score = c.score + 1.0
    elif isinstance(c, query.Term):
        c.fieldname = "u" if c.fieldname == "t" else "t"
    return c


def gen_query_string(rng, depth=2):
    """A query string in the default parser language over the model vocabulary (incl. stop words, which the analyzer
    removes: the parser then produces NullQuery clauses and relies on normalize() to drop them)."""
    from vf import model

    def word():
        r = rng.random()
        if r < 0.12:
            return rng.choice(["the", "and", "of", "a"])
        if r < 0.2:
            return rng.choice(["al*", "b?avo", "*a", "brav*", "a[lb]*"])
        return model.zipf_choice(rng, model.VOCAB)

    def atom():
        r = rng.random()
        f = rng.choice(["", "", "", "t:", "u:", "k:"])
        if r < 0.55:
            a = f + (rng.choice(model.KVOCAB) if f == "k:" else word())
        elif r < 0.7:
            a = (f if f != "k:" else "u:") + '"%s"' % " ".join(word() for _ in range(rng.randint(1, 3))) + rng.choice(["", "", "~2"])
        elif r < 0.85:
            lo, hi = sorted([rng.choice(RANGE_POOL["t"]), rng.choice(RANGE_POOL["t"])])
            a = "%s%s%s TO %s%s" % (f if f != "k:" else "t:", rng.choice("[{"), rng.choice([lo, ""]), rng.choice([hi, ""]), rng.choice("]}"))
        elif r < 0.92:
            a = "n:%s%d TO %d%s" % (rng.choice("[{"), rng.randint(-6, 0), rng.randint(0, 6), rng.choice("]}"))
        else:
            a = rng.choice(["*", "t:*", "u:*", "*:*"])
        if rng.random() < 0.12:
            a += "^%s" % rng.choice(["2", "0.5"])
        return a

    def expr(d):
        if d == 0 or rng.random() < 0.3:
            return atom()
        r = rng.random()
        if r < 0.12:
            return "NOT " + expr(d - 1)
        if r < 0.3:
            return "(" + expr(d - 1) + ")"
        op = rng.choice([" ", " ", " AND ", " AND ", " OR ", " OR ", " ANDNOT ", " ANDMAYBE ", " REQUIRE ", " AND NOT "])
        return op.join(expr(d - 1) for _ in range(rng.randint(2, 3)))
    return expr(depth)


def walk(q):
    yield q
    if is_null(q):
        return
    for c in q.children():
        for x in walk(c):
            yield x


def triggers(q):
    """Syntactic over-approximation of 'a listed normalize mechanism can be reached from this tree'."""
    from whoosh import query
    has_and = False
    every_like = False
    ranges = {}
    for n in walk(q):
        if is_null(n):
            return "null"
        if isinstance(n, _cls("compound","CompoundQuery")) and not isinstance(n, _cls("compound","BinaryQuery")) and not n.subqueries:
            return "null"
        if isinstance(n, query.Phrase) and not n.words:
            return "null"
        if isinstance(n, query.TermRange):
            if n.start is not None and n.start == n.end and (n.startexcl or n.endexcl):
                return "null"
            ranges[n.fieldname] = ranges.get(n.fieldname, 0) + 1
            if n.start in ("", None) and n.end in (u"\uffff", None):
                every_like = True
        if isinstance(n, query.And):
            has_and = True
        if isinstance(n, query.Every) and n.fieldname is not None:
            every_like = True
        if isinstance(n, query.Wildcard) and n.text == "*":
            every_like = True
    if has_and and every_like:
        return "and+every(f)"
    if has_and and any(v > 1 for v in ranges.values()):
        return "and+ranges"
    return None


# ----------------------------------------------------------------------
# local analysis of normalize(): one step = one node over already normalised children
# ----------------------------------------------------------------------

def rebuild(q, kids):
    """A node like q over other children, through plain attribute copying (no whoosh rewriting code)."""
    from whoosh import query
    n = copy.copy(q)
    if isinstance(q, _cls("compound","BinaryQuery")):
        n.a, n.b = kids
        n.subqueries = (kids[0], kids[1])
    elif isinstance(q, _cls("compound","CompoundQuery")):
        n.subqueries = list(kids)
    elif isinstance(q, query.Not):
        n.query = kids[0]
    elif isinstance(q, query.NestedParent):
        n.child = kids[0]
    else:
        raise TypeError(type(q))
    return n


def node_kids(q):
    from whoosh import query
    if is_null(q):
        return None
    if isinstance(q, _cls("compound","BinaryQuery")):
        return [q.a, q.b]
    if isinstance(q, _cls("compound","CompoundQuery")):
        return list(q.subqueries)
    if isinstance(q, query.Not):
        return [q.query]
    if isinstance(q, query.NestedParent):
        return [q.child]   # NestedParent.normalize() normalises its sub-query (NestedChildren has no normalize of its own)
    return None    # leaves and every class without a normalize() of its own (wrappers, spans): one opaque step


def _cmp_start(r):
    return (0, "", 0) if r.start is None else (1, r.start, 1 if r.startexcl else 0)


def _cmp_end(r):
    return (2, "", 0) if r.end is None else (1, r.end, -1 if r.endexcl else 0)


def _mk_range(like, start, end):
    from whoosh import query
    return query.TermRange(like.fieldname, None if start[0] == 0 else start[1], None if end[0] == 2 else end[1],
                           start[2] == 1, end[2] == -1)


def _overlap(a, b):
    s1, e1, s2, e2 = _cmp_start(a), _cmp_end(a), _cmp_start(b), _cmp_end(b)
    return (s2 <= s1 <= e2) or (s2 <= e1 <= e2) or (s1 <= s2 <= e1) or (s1 <= e2 <= e1)


def _listed_merge(a, b):
    """The listed And range merge: the containing range when one contains the other, else the intersection."""
    s1, e1, s2, e2 = _cmp_start(a), _cmp_end(a), _cmp_start(b), _cmp_end(b)
    if s1 >= s2 and e1 <= e2:
        return _mk_range(a, s2, e2)
    if s2 >= s1 and e2 <= e1:
        return _mk_range(a, s1, e1)
    return _mk_range(a, max(s1, s2), min(e1, e2))


def listed_and_variants(node):
    """For an And whose children are normalised: the trees the listed mechanisms would turn it into.
    Yields (mechanism ids, tree)."""
    from whoosh import query
    flat = []
    for c in node.subqueries:
        if isinstance(c, query.And):
            flat.extend(c.subqueries)
        else:
            flat.append(c)
    mechs = ["null-in-and", "every-field-in-and", "range-merge-in-and"]
    for k in range(1, 4):
        for subset in itertools.combinations(mechs, k):
            kids = list(flat)
            if "range-merge-in-and" in subset:
                i = 0
                while i < len(kids):
                    if type(kids[i]) is query.TermRange:
                        j = i + 1
                        while j < len(kids):
                            if type(kids[j]) is query.TermRange and kids[j].fieldname == kids[i].fieldname and _overlap(kids[i], kids[j]):
                                kids[i] = _listed_merge(kids[i], kids.pop(j))
                                j = i + 1      # as the library: the merged range is compared with the skipped ones again
                            else:
                                j += 1
                    i += 1
            if "every-field-in-and" in subset:
                ef = set(c.fieldname for c in kids if isinstance(c, query.Every) and c.fieldname is not None)
                kids = [c for c in kids if isinstance(c, query.Every) or is_null(c) or c.field() not in ef]
            if "null-in-and" in subset:
                # a degenerate merged range is what normalize() turns into NullQuery before dropping it
                kids = [c for c in kids if not is_null(c)
                        and not (type(c) is query.TermRange and c.start is not None and c.start == c.end and (c.startexcl or c.endexcl))]
                if not kids:
                    continue
            yield subset, query.And(kids)


class Analysis(object):
    def __init__(self):
        self.steps = 0
        self.known = []        # [(mech ids tuple, repr(node), repr(result))]
        self.unknown = []      # [(class name, repr(node), repr(result), expected, observed)]
        self.undecided = 0
        self.result = None


def analyze(q, ev, an=None):
    """Bottom-up: normalise children first (T), rebuild the node over them, normalise that one node with the library and
    compare input and output of that single step under the evaluator. Returns the Analysis with .result = T(q)."""
    from whoosh import query
    top = an is None
    an = an or Analysis()
    kids = node_kids(q)
    if kids is None:
        node = q
    else:
        node = rebuild(q, [analyze(c, ev, an) for c in kids])
    res = node.normalize()
    an.steps += 1
    if not same_struct(node, res):
        before, after = ev.sem(node), ev.sem(res)
        if before is None or after is None:
            an.undecided += 1
        elif before != after:
            found = None
            if isinstance(node, query.And):
                for subset, variant in listed_and_variants(node):
                    if ev.sem(variant) == after:
                        found = subset
                        break
            elif isinstance(node, query.Not) and is_null(node.query) and is_null(res):
                found = ("not-null",)
            if found:
                an.known.append((found, repr(node), repr(res)))
            else:
                an.unknown.append((type(node).__name__, repr(node), repr(res), srt(before), srt(after)))
    if top:
        an.result = res
    return an if top else res


def same_struct(a, b):
    """Deep attribute identity of two query trees (plain Python comparison of __dict__s; not the library's ==).
    Structurally identical queries behave identically, so the engine is not run again for them."""
    from whoosh.query import qcore
    if a is b:
        return True
    if type(a) is not type(b):
        return False
    if isinstance(a, qcore.Query):
        da, db = getattr(a, "__dict__", {}), getattr(b, "__dict__", {})
        if set(da) != set(db):
            return False
        return all(same_struct(da[k], db[k]) for k in da)
    if isinstance(a, (list, tuple)):
        return len(a) == len(b) and all(same_struct(x, y) for x, y in zip(a, b))
    if isinstance(a, float) and a != a:
        return b != b
    try:
        return bool(a == b)
    except Exception:  # noqa
        return False


# ----------------------------------------------------------------------
# the checks
# ----------------------------------------------------------------------

def shrink(q, still_fails, budget=40):
    """Greedy structural minimisation: replace the tree by a child / drop n-ary children while the failure persists."""
    changed = True
    while changed and budget > 0:
        changed = False
        kids = node_kids(q) or (list(q.children()) if not is_null(q) else [])
        cands = list(kids)
        if isinstance(q, _cls("compound", "CompoundQuery")) and not isinstance(q, _cls("compound", "BinaryQuery")) and len(q.subqueries) > 1:
            for i in range(len(q.subqueries)):
                cands.append(rebuild(q, list(q.subqueries[:i]) + list(q.subqueries[i + 1:])))
        if node_kids(q):
            for i, k in enumerate(kids):
                for kk in (node_kids(k) or []):
                    cands.append(rebuild(q, kids[:i] + [kk] + kids[i + 1:]))
        for c in cands:
            budget -= 1
            if budget <= 0:
                break
            try:
                if still_fails(c):
                    q = c
                    changed = True
                    break
            except Exception:  # noqa - a candidate that cannot even be evaluated is not a smaller witness
                continue
    return q


class Case(object):
    def __init__(self, ctx, built, searcher, wb):
        self.ctx = ctx
        self.built = built
        self.live = built.live
        self.s = searcher
        self.r = searcher.reader()
        self.wb = wb

    def engine(self, q):
        s = self.s
        self.ctx.count("c15.engine.runs")
        return set(s.stored_fields(dn)["id"] for dn in s.docs_for_query(q))

    def sem(self, q):
        """Evaluator of the local analysis: the independent model where it decides, else the real engine."""
        r = try_sem(q, self.live)
        if r is None:
            try:
                r = self.engine(q)
            except Exception:  # noqa - no verdict from this evaluator
                return None
        return r

    @property
    def model_only(self):
        return ModelOnly(self.live)

    def witness(self, q, name, **kw):
        w = dict(self.wb, query=repr(q), rewrite=name)
        w.update(kw)
        return w


class ModelOnly(object):
    def __init__(self, live):
        self.live = live

    def sem(self, q):
        return try_sem(q, self.live)


def srt(keys):
    return sorted(keys, key=int)


REWRITES = ["with_boost", "replace_absent", "accept_id", "apply_id", "copy", "deepcopy", "qcopy", "pickle2", "pickleH"]


def do_rewrite(name, q, vals, reader=None):
    if name == "normalize":
        return q.normalize()
    if name == "simplify":
        return q.simplify(reader)
    if name == "with_boost":
        return q.with_boost(vals["boost"])
    if name == "replace_absent":
        return q.replace(vals["field"], "zzzabsentold", "alfa")
    if name == "accept_id":
        return q.accept(lambda x: x)
    if name == "apply_id":
        return q.apply(lambda x: x)
    if name == "copy":
        return copy.copy(q)
    if name == "deepcopy":
        return copy.deepcopy(q)
    if name == "qcopy":
        return q.copy()
    if name == "pickle2":
        return pickle.loads(pickle.dumps(q, 2))
    if name == "pickleH":
        return pickle.loads(pickle.dumps(q, pickle.HIGHEST_PROTOCOL))
    raise KeyError(name)


def expand_leaves(case, q, pop):
    """simplify() = expansion of the multi-term leaves against the reader + normalize() of the compounds around them.
    Returns the tree with every non-compound node replaced by its own simplify() (each judged strictly here) and the
    compounds left un-normalised, or None when a leaf could not be simplified."""
    ctx = case.ctx
    if isinstance(q, _cls("compound", "CompoundQuery")) and q.subqueries:
        kids = []
        for c in node_kids(q):
            k = expand_leaves(case, c, pop)
            if k is None:
                return None
            kids.append(k)
        return rebuild(q, kids)
    ok, sq = ctx.guard("c15.simplify", case.witness(q, "simplify-leaf"), q.simplify, case.r)
    if not ok:
        return None
    ctx.count("c15.simplify.leaf_checks")
    if not same_struct(sq, q):
        before, after = case.sem(q), case.sem(sq)
        if before is not None and after is not None and before != after:
            ctx.fail("c15.simplify", "leaf:%s" % type(q).__name__,
                     case.witness(q, "simplify-leaf", rewritten=repr(sq), expected=srt(before), observed=srt(after)))
    return sq


def check_tree(case, rng, q, q2):
    """All rewrites of one tree. Returns (expected set or None, population)."""
    from whoosh import query
    ctx = case.ctx
    live = case.live
    pop = "B" if triggers(q) else "A"
    ctx.count("c15.pop%s.trees" % pop)
    snapshot = repr(q)
    exp = try_sem(q, live)
    ctx.count("c15.model.decided" if exp is not None else "c15.model.undecided")
    vals = {"boost": rng.choice(BOOSTS), "field": rng.choice(["t", "t", "u", "k"])}

    ok, base = ctx.guard("c15.original", case.witness(q, "none"), case.engine, q)
    if not ok:
        ctx.count("c15.original.engine_error")
        return exp, pop
    if exp is not None and base != exp:
        # matcher-level disagreement on the ORIGINAL (C01's subject); recorded; the model side below still judges the rewrites
        ctx.fail("c15.original", "engine-vs-model:%s" % type(q).__name__, case.witness(q, "none", expected=srt(exp), observed=srt(base)))
    want = exp if exp is not None else base

    def report_known(tree, name, rq, analysis):
        for mechs, node, res in analysis.known:
            for m in mechs:
                ctx.fail("c15.normalize", "known:" + m, case.witness(tree, name, step_input=node, step_output=res, rewritten=repr(rq)))

    def judge(name, rq, tree, tpop, want_eng, want_model, analysis=None):
        """Compare the engine result of the rewritten query rq with both sides of the oracle. `tree` is the tree whose meaning rq
        must have (q itself, or And([q,q2]) ... for the operators); `analysis` the local normalize analysis that produced rq."""
        ctx.count("c15.rw.%s" % name)
        ctx.count("c15.pop%s.checks" % tpop)
        if same_struct(rq, tree):
            ctx.count("c15.rw.structurally_identical")
            got = want_eng
        else:
            ok, got = ctx.guard("c15." + name, case.witness(tree, name, rewritten=repr(rq)), case.engine, rq)
            if not ok:
                return False
        bad_e = got != want_eng
        bad_m = want_model is not None and got != want_model
        if not bad_e and not bad_m:
            return True
        if tpop == "B" and analysis is not None and analysis.known and not analysis.unknown and same_struct(analysis.result, rq):
            # second oracle: every deviating normalize step is exactly a listed mechanism (verified step by step under the
            # evaluator), the rewritten query is the composition of those steps, and the engine returns what the model says
            # that normal form means
            nsem = try_sem(rq, live)
            if nsem is None or nsem == got:
                ctx.count("c15.popB.explained_by_listed")
                report_known(tree, name, rq, analysis)
                return True
        side = "engine+model" if bad_e and bad_m else ("engine" if bad_e else "model")
        mq = tree
        if tree is q and bad_e and name in REWRITES + ["normalize", "simplify"]:
            mq = shrink(q, lambda c: case.engine(do_rewrite(name, c, vals, case.r)) != case.engine(c))
        ctx.fail("c15." + name, "%s:%s" % (side, type(mq).__name__),
                 case.witness(tree, name, rewritten=repr(rq), minimal=repr(mq), population=tpop,
                              expected_engine=srt(want_eng), expected_model=None if want_model is None else srt(want_model),
                              observed=srt(got)))
        return False

    def steps_of(tree, name, tpop, produced):
        """Local analysis of normalize() over `tree`; reports unexplained steps; returns the Analysis if it composes to `produced`."""
        # population A: model only (steps it cannot decide are covered by the whole-tree engine comparison);
        # population B: engine fallback, so that every deviating step can be attributed
        ok, an = ctx.guard("c15." + name, case.witness(tree, name + "-steps"), analyze, tree, case if tpop == "B" else case.model_only)
        if not ok:
            return None
        ctx.count("c15.steps", an.steps)
        ctx.count("c15.steps.undecided", an.undecided)
        for cls, node, res, b, a in an.unknown:
            ctx.fail("c15.normalize-step", cls, case.witness(tree, name + "-step", step_input=node, step_output=res, population=tpop,
                                                             expected=b, observed=a))
        if an.known:
            ctx.count("c15.steps.listed", len(an.known))
            if tpop == "A":
                # the population predicate must over-approximate the listed mechanisms: a harness error if it does not
                raise AssertionError("population A reached a listed mechanism: %r %r" % (tree, an.known))
            report_known(tree, name, produced, an)
        if not same_struct(an.result, produced):
            ctx.count("c15.steps.compose_mismatch")
            return None
        return an

    # ---- normalize: never raises, idempotent, same documents; every local step equivalent
    ok, nq = ctx.guard("c15.normalize", case.witness(q, "normalize"), q.normalize)
    if ok:
        an = steps_of(q, "normalize", pop, nq)
        judge("normalize", nq, q, pop, base, exp, an)
        ok3, nnq = ctx.guard("c15.normalize2", case.witness(q, "normalize(normalize)", rewritten=repr(nq)), nq.normalize)
        if ok3:
            ctx.count("c15.idempotent.evals")
            if same_struct(nnq, nq):
                ctx.count("c15.idempotent.identical")
            else:
                ok4, same = ctx.guard("c15.normalize2", case.witness(q, "normalize(normalize)==", once=repr(nq), twice=repr(nnq)),
                                      lambda: bool(nnq == nq) and bool(nq == nnq))
                if ok4 and not same:
                    ctx.fail("c15.normalize2", "not-idempotent:%s" % type(nq).__name__,
                             case.witness(q, "normalize(normalize)", once=repr(nq), twice=repr(nnq)))
                ok4, got2 = ctx.guard("c15.normalize2", case.witness(q, "normalize(normalize)", rewritten=repr(nnq)), case.engine, nnq)
                ok5, got1 = ctx.guard("c15.normalize2", case.witness(q, "normalize", rewritten=repr(nq)), case.engine, nq)
                if ok4 and ok5 and got1 != got2:
                    ctx.fail("c15.normalize2", "docs-differ:%s" % type(nq).__name__,
                             case.witness(q, "normalize(normalize)", once=repr(nq), twice=repr(nnq), observed=srt(got2), expected=srt(got1)))

    # ---- plain rewrites
    copies = []
    for name in REWRITES:
        ok, rq = ctx.guard("c15." + name, case.witness(q, name), do_rewrite, name, q, vals)
        if not ok:
            continue
        if repr(q) != snapshot:
            ctx.fail("c15.nomutate", name, case.witness(q, name, before=snapshot, after=repr(q)))
            return exp, pop
        judge(name, rq, q, pop, base, exp)
        if name in ("copy", "deepcopy", "qcopy", "pickle2", "pickleH"):
            copies.append((name, rq))
        if name == "with_boost" and type(rq) is type(q) and "boost" in getattr(q, "__dict__", {}) \
                and not isinstance(rq, (_cls("compound", "BinaryQuery"), _cls("wrappers", "WrappingQuery"))):
            ctx.count("c15.with_boost.value_checks")
            if rq.boost != vals["boost"]:
                ctx.fail("c15.with_boost", "boost-not-set:%s" % type(q).__name__, case.witness(q, name, rewritten=repr(rq), boost=vals["boost"]))

    # ---- == / hash of copies
    for name, c in copies:
        ctx.count("c15.eqhash.evals")
        ok, res = ctx.guard("c15.eqhash", case.witness(q, name), lambda: (bool(c == q), bool(q == c), hash(c), hash(q)))
        if not ok:
            continue
        e1, e2, h1, h2 = res
        if e1 != e2:
            ctx.fail("c15.eqhash", "asymmetric:%s" % type(q).__name__, case.witness(q, name, rewritten=repr(c)))
        elif e1 and h1 != h2:
            ctx.fail("c15.eqhash", "equal-but-hash-differs:%s" % type(q).__name__, case.witness(q, name, rewritten=repr(c)))
        elif not e1:
            ctx.count("c15.eqhash.copy_not_equal")
            ctx.count("c15.eqhash.copy_not_equal.%s" % type(q).__name__)

    # ---- operators
    ops = (("and_op", lambda: q & q2, lambda: query.And([q, q2])),
           ("or_op", lambda: q | q2, lambda: query.Or([q, q2])),
           ("sub_op", lambda: q - q2, lambda: query.And([q, query.Not(q2)])))
    if any(isinstance(n, (query.NestedParent, query.NestedChildren)) for n in walk(q)):
        ops = ops[1:2]     # an intersection would drive the nested matchers with skip_to() (see Gen.tree)
    for opname, fn, mk in ([rng.choice(ops)] if ctx.quick else ops):
        tree = mk()
        ok, rq = ctx.guard("c15." + opname, case.witness(tree, opname), fn)
        if not ok:
            continue
        tpop = "B" if triggers(tree) else "A"
        ok, teng = ctx.guard("c15.original", case.witness(tree, "none"), case.engine, tree)
        if not ok:
            continue
        texp = try_sem(tree, live)
        tan = steps_of(tree, opname, tpop, rq) if tpop == "B" else None
        judge(opname, rq, tree, tpop, teng, texp, tan)

    # ---- simplify = leaf expansion (strict, per leaf) + normalize of the compounds (two-level oracle)
    ok, sq = ctx.guard("c15.simplify", case.witness(q, "simplify"), q.simplify, case.r)
    if ok:
        xq = expand_leaves(case, q, pop)
        san, spop = None, pop
        # only a compound root ends its simplify() in normalize(); any other root is one leaf step, judged strictly
        if xq is not None and isinstance(q, _cls("compound", "CompoundQuery")) and q.subqueries:
            spop = "B" if (pop == "B" or triggers(xq)) else "A"
            san = steps_of(xq, "simplify", spop, sq)
        judge("simplify", sq, q, spop, base, exp, san)
    if repr(q) != snapshot:
        ctx.fail("c15.nomutate", "late", case.witness(q, "any", before=snapshot, after=repr(q)))

    # ---- estimate_size
    ok, est = ctx.guard("c15.estimate_size", case.witness(q, "estimate_size"), q.estimate_size, case.r)
    if ok:
        ctx.count("c15.estimate.evals")
        true = len(want)
        if est < true:
            mq = shrink(q, lambda c: c.estimate_size(case.r) < len(case.engine(c)))
            ctx.fail("c15.estimate_size", "below-true-count:%s" % type(mq).__name__,
                     case.witness(q, "estimate_size", estimate=est, true_count=true, minimal=repr(mq)))
        elif est == true:
            ctx.count("c15.estimate.tight")
        try:
            lo = q.estimate_min_size(case.r)
            ctx.count("c15.estimate_min.evals")
            if lo > true:
                ctx.count("c15.estimate_min.above_true_count")
        except Exception:  # noqa - observed only
            ctx.count("c15.estimate_min.raised")
    return exp, pop


def add_extra_words(rng, h):
    for commit in h["commits"]:
        for d in commit:
            if "t" in d and rng.random() < 0.15:
                ws = d["t"].split()
                ws.insert(rng.randrange(len(ws) + 1), rng.choice(EXTRA_WORDS))
                d["t"] = " ".join(ws)


_checked = False


def check_extra_analysis():
    global _checked
    if _checked:
        return
    from vf import model
    schema = model.make_schema()
    got = [t.text for t in schema["t"].analyzer(" ".join(EXTRA_WORDS))]
    assert got == EXTRA_WORDS, got
    _checked = True


def dedup_pairs(rng):
    """Systematic near-duplicate pairs: two clauses that differ in exactly one meaning-bearing attribute, or that are
    class siblings with identical attributes. Both must survive every rewrite of a compound holding them."""
    from whoosh import query
    from whoosh.query import spans
    from vf import model
    a, b, c = [query.Term("t", w) for w in rng.sample(model.VOCAB[:5], 3)]
    ta, tb = a.text, b.text
    pairs = []

    def add(x, y):
        pairs.append((x, y))
    for sl, od in ((1, True), (2, True), (2, False)):
        x = query.Sequence([a, b], slop=sl, ordered=od)
        add(x, query.Sequence([a, b], slop=sl + 2, ordered=od))
        add(x, query.Sequence([a, b], slop=sl, ordered=not od))
        add(x, query.Ordered([a, b], slop=sl, ordered=od))
        add(x, query.Sequence([b, a], slop=sl, ordered=od))
    add(query.Ordered([a, b]), query.Ordered([a, b], slop=3))
    add(query.Phrase("t", [ta, tb], slop=1), query.Phrase("t", [ta, tb], slop=3))
    add(query.Phrase("t", [ta, tb], slop=2), query.Phrase("t", [tb, ta], slop=2))
    add(query.Phrase("t", [ta, tb], slop=2), query.Phrase("u", [ta, tb], slop=2))
    for K in (spans.SpanNear, ):
        add(K(a, b, slop=1, ordered=True), K(a, b, slop=3, ordered=True))
        add(K(a, b, slop=2, ordered=True), K(a, b, slop=2, ordered=False))
        add(K(a, b, slop=3, ordered=True, mindist=1), K(a, b, slop=3, ordered=True, mindist=2))
    add(spans.SpanNear2([a, b], slop=1), spans.SpanNear2([a, b], slop=3))
    add(spans.SpanNear2([a, b], slop=2, ordered=True), spans.SpanNear2([a, b], slop=2, ordered=False))
    add(spans.SpanFirst(a, limit=0), spans.SpanFirst(a, limit=2))
    near = spans.SpanNear(a, b, slop=3)
    add(spans.SpanNot(near, c), spans.SpanContains(near, c))
    add(spans.SpanBefore(a, b), spans.SpanCondition(a, b))
    add(spans.SpanBefore(a, b), spans.SpanBefore(b, a))
    add(spans.SpanOr([a, b]), spans.SpanOr([a, c]))
    add(query.FuzzyTerm("t", "alfo", maxdist=1, prefixlength=0), query.FuzzyTerm("t", "alfo", maxdist=1, prefixlength=3))
    add(query.FuzzyTerm("t", "brvo", maxdist=1, prefixlength=1), query.FuzzyTerm("t", "brvo", maxdist=2, prefixlength=1))
    add(query.Term("t", "al"), query.Prefix("t", "al"))
    add(query.Prefix("t", "alfa"), query.Wildcard("t", "alfa"))
    add(query.Wildcard("t", "al*"), query.Prefix("t", "al*"))
    add(query.Variations("t", "golf"), query.Term("t", "golf"))
    add(query.Regex("t", "alfa"), query.Term("t", "alfa"))
    add(query.Regex("t", "al.*"), query.Wildcard("t", "al.*"))
    add(query.AndMaybe(a, b), query.AndNot(a, b))
    add(query.AndMaybe(a, b), query.Require(a, b))
    add(query.Require(a, b), query.Otherwise(a, b))
    add(query.AndNot(a, b), query.AndNot(b, a))
    add(query.ConstantScoreQuery(a, 1.0), query.ConstantScoreQuery(b, 1.0))
    add(query.NumericRange("n", -2, 3, False, False), query.NumericRange("n", -2, 3, True, False))
    add(query.NumericRange("n", -2, 3, False, False), query.NumericRange("n", -2, 3, False, True))
    add(query.Not(a), query.Not(b))
    add(query.Every("t"), query.Every("u"))
    return pairs


def dedup_sweep(case, rng, ctx):
    from whoosh import query
    from vf import model
    for x, y in dedup_pairs(rng):
        K = rng.choice([query.Or, query.Or, query.DisjunctionMax, query.And])
        kids = [x, y] if rng.random() < 0.5 else [y, x]
        if rng.random() < 0.3:
            kids.insert(rng.randrange(3), query.Term("t", rng.choice(model.VOCAB[:6])))
        q = K(kids)
        ctx.count("c15.dedup_sweep.trees")
        exp, pop = check_tree(case, rng, q, query.Term("t", rng.choice(model.VOCAB[:6])))
        ctx.case(("dedup-sweep", type(x).__name__, type(y).__name__, K.__name__, pop), exp is not None and 0 < len(exp))


def build_grouped(rng):
    """A corpus of parent/child groups (IndexWriter.group) for the Nested* queries: every group is a parent document
    (kind=p) followed by 0..4 children (kind=c); whole groups per commit, no deletions. Model documents carry the key of
    their parent in '_parent'."""
    from whoosh import fields
    from whoosh.filedb.filestore import RamStorage
    from vf import model
    schema = model.make_schema()
    schema.add("kind", fields.ID(stored=True))
    ix = RamStorage().create_index(schema)
    live, order, layout = {}, [], []
    key = 0
    for _ in range(rng.randint(1, 3)):
        w = ix.writer()
        ngroups = rng.randint(1, 5)
        ndocs = 0
        for _g in range(ngroups):
            w.start_group()
            pkey = None
            for j in range(1 + rng.randint(1, 4)):    # at least one child (a childless parent is mis-stepped by NestedChildMatcher)
                d = model.gen_doc(rng, key, maxlen=5)
                d["kind"] = "p" if j == 0 else "c"
                if j == 0:
                    pkey = d["id"]
                w.add_document(**d)
                d["_parent"] = pkey
                live[d["id"]] = d
                order.append(d["id"])
                key += 1
                ndocs += 1
            w.end_group()
        w.commit(merge=False)
        layout.append(ndocs)
    return model.Built(ix, live, order), layout


def run(ctx):
    from vf import model
    model.check_analysis()
    check_extra_analysis()
    for idx in ctx.cases(quick=30, thorough=70):
        rng = ctx.rng(idx)
        ctx.reseed_global(idx)
        nested = rng.random() < 0.15
        if nested:
            ctx.count("c15.nested.cases")
            wb = {"history": "grouped corpus (parent + children groups), no deletions", "case_idx": idx}
            ok, res = ctx.guard("c15.build", wb, build_grouped, rng)
            if not ok:
                continue
            built, layout = res
            wb["history"] = {"grouped": True, "commits": layout}
        else:
            h = model.gen_history(rng, ndocs=(4, 40), maxlen=7)
            add_extra_words(rng, h)
            wb = {"history": {"commits": [len(c) for c in h["commits"]], "deletes": h["deletes"],
                              "blocklimit": h["blocklimit"], "storage": h["storage"]}, "case_idx": idx}
            ok, built = ctx.guard("c15.build", wb, model.build, h)
            if not ok:
                continue
        try:
            psz = model.partsize_for(idx)
            if psz is not None:
                ctx.count("c15.small_array_parts")
                wb["array_partsize(default of ArrayUnionMatcher)"] = psz
            with model.array_partsize(psz), built.ix.searcher() as s:
                case = Case(ctx, built, s, wb)
                parsers = None
                for k in range(14):
                    mode = rng.choice(["A1", "A1", "A1", "A2", "B", "B"])
                    q = Gen(rng, mode, nested=nested).tree(rng.choice([1, 2, 2, 3, 3, 4]))
                    q2 = Gen(rng, mode, nested=nested).tree(rng.choice([0, 1, 2]))
                    if k >= 11 and not nested:
                        # tree source 2: what the query parser builds BEFORE it applies normalize() (statement: "normalize() -
                        # which the query parser applies to everything it returns"); parser errors are C16's subject
                        from whoosh import qparser
                        if parsers is None:
                            parsers = [qparser.QueryParser("t", built.ix.schema), qparser.QueryParser("t", built.ix.schema, group=qparser.OrGroup),
                                       qparser.MultifieldParser(["t", "u"], built.ix.schema)]
                        text = gen_query_string(rng, rng.choice([1, 2, 2, 3]))
                        try:
                            q = rng.choice(parsers).parse(text, normalize=False)
                            ctx.count("c15.parser.trees")
                        except Exception:  # noqa
                            ctx.count("c15.parser.parse_error")
                            continue
                        case.wb = dict(wb, parsed_from=text)
                    else:
                        case.wb = wb
                    exp, pop = check_tree(case, rng, q, q2)
                    nontrivial = exp is not None and 0 < len(exp) < len(built.live)
                    if nontrivial:
                        ctx.count("c15.nontrivial")
                    for c in model.qclasses(q):
                        ctx.count("c15.qclass.%s" % c)
                    ctx.case((model.qshape(q), pop), nontrivial,
                             sample={"query": repr(q), "population": pop, "layout": wb["history"],
                                     "matched": None if exp is None else len(exp), "live": len(built.live)}
                             if ctx.evaluations % 200 == 0 else None)
                if idx % 4 == 1 and not nested:
                    case.wb = wb
                    dedup_sweep(case, random.Random("c15-dedup:%d:%d" % (ctx.seed, idx)), ctx)
        finally:
            built.close()
