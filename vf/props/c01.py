"""C01 - search returns exactly the documents that satisfy the query, through every access path.

Reference-model monitor: vf.model.matches() (independent boolean/positional/range/fuzzy
semantics over str.split() tokens of the generated documents) vs. the real engine on a real
index built from a generated history (1..4 segments, deletions incl. whole segments, block
limits 2..128, RAM and file storage).
"""
LEVEL = "exploration"
RULE = ("case = (history -> index, query tree of depth <= 4 over all public query types, weighting model) evaluated through "
        "8 access paths {docs_for_query, Query.docs, search(limit=None), scored=False, sortedby, terms=True, limit=k via "
        "len()/docs()/top-subset, search_page}; non-trivial when the expected set is neither empty nor all live documents; "
        "distinct = (query type tree, segment/deletion layout signature, weighting).")
ASSUMPTIONS = [
    "documented meaning = set algebra over live documents; AndMaybe = first operand; DisjunctionMax = Or; Every(f) = documents with a term in f; "
    "Phrase(slop s) = positions p0<p1<... with 1 <= p(i+1)-p(i) <= s; Wildcard = fnmatch; Regex = re.match at term start; TermRange over term text order; "
    "NestedParent(P, C) = parents of live documents matching C; NestedChildren(P, W) = live children of live parents matching W (groups = parent followed by its children)",
    "FuzzyTerm cases where plain and transposition-aware edit distance disagree are left undecided here (mechanism owned by C19)",
    "texts come from a vocabulary on which the shipped analyzers equal str.split() (asserted at start)",
]
SHARDS = {"quick": 6, "thorough": 16}
BUDGET_S = {"quick": 120, "thorough": 600}
FLOORS = {"c01.queries": 1500, "c01.nontrivial": 500, "c01.path_checks": 10000, "c01.multiseg_with_deletions": 40,
          "c01.stutter_phrase_queries": 300, "c01.boundary_range_queries": 1500,
          "c01.typed_range_queries": 400, "c01.typed_nontrivial": 100}

PATHS = ["docs_for_query", "query.docs", "search", "unscored", "sorted", "terms", "limit", "page"]


def gen_weighting(rng):
    from whoosh import scoring
    r = rng.random()
    if r < 0.55:
        return "BM25F", scoring.BM25F()
    if r < 0.65:
        return "TF_IDF", scoring.TF_IDF()
    if r < 0.73:
        return "Frequency", scoring.Frequency()
    if r < 0.81:
        return "PL2", scoring.PL2()
    if r < 0.88:
        return "DFree", scoring.DFree()
    if r < 0.94:
        return "Reverse(BM25F)", scoring.ReverseWeighting(scoring.BM25F())
    return "Function(0)", scoring.FunctionWeighting(lambda searcher, fieldname, text, matcher: 0.0)


def add_typed_fields(trng, h):
    """Typed sub-population: the model schema plus a float field, a multi-valued 16-bit field, an unsigned 8-bit field and a
    Decimal field (tier steps drawn per case); values are written into the history's documents. Returns (schema, occurring values)."""
    from decimal import Decimal
    from whoosh import fields
    from vf import model
    schema = model.make_schema()
    schema.add("f", fields.NUMERIC(float, stored=True, shift_step=trng.choice([0, 4, 4, 8, 6])))
    schema.add("m", fields.NUMERIC(int, bits=16, stored=True, shift_step=trng.choice([0, 2, 4, 4, 8])))
    schema.add("p", fields.NUMERIC(int, bits=8, signed=False, stored=True, shift_step=trng.choice([0, 1, 4, 4, 8])))
    schema.add("c", fields.NUMERIC(Decimal, decimal_places=2, stored=True, shift_step=trng.choice([0, 4, 8])))
    fv = [-1e10, -2.5, -1.0, -0.5, -0.001, 0.0, 0.001, 0.5, 1.0, 1.5, 2.5, 1e10, 3.0e-300, -3.0e-300]
    mv = [-32768, -300, -257, -256, -255, -17, -16, -1, 0, 1, 15, 16, 17, 255, 256, 257, 300, 4095, 4096, 32767]
    pv = [0, 1, 2, 15, 16, 17, 127, 128, 129, 254, 255]
    cv = [Decimal(x) for x in ("-10.25", "-0.05", "-0.01", "0", "0.01", "0.05", "0.5", "1.25", "99.99")]
    used = {"f": set(), "m": set(), "p": set(), "c": set()}
    for c_ in h["commits"]:
        for d in c_:
            if trng.random() < 0.8:
                d["f"] = trng.choice(fv); used["f"].add(d["f"])
            if trng.random() < 0.8:
                d["m"] = [trng.choice(mv) for _ in range(trng.choice([1, 1, 2, 3]))]; used["m"].update(d["m"])
            if trng.random() < 0.8:
                d["p"] = trng.choice(pv); used["p"].add(d["p"])
            if trng.random() < 0.7:
                d["c"] = trng.choice(cv); used["c"].add(d["c"])
    return schema, dict(f=(fv, sorted(used["f"])), m=(mv, sorted(used["m"])), p=(pv, sorted(used["p"])), c=(cv, sorted(used["c"])))


def typed_queries(trng, tvals):
    """Numeric ranges over the typed fields: bounds that occur / lie between occurring values / are absent (None), all
    inclusive-exclusive combinations, alone and under And / Or / AndNot / Not with ordinary model leaves."""
    from whoosh import query
    from vf import model
    out = []
    for _ in range(14):
        f = trng.choice(["f", "f", "m", "m", "p", "c"])
        pool, used = tvals[f]
        cand = (used if used and trng.random() < 0.7 else pool)
        a, b = sorted([trng.choice(cand), trng.choice(cand)])
        if f == "f" and trng.random() < 0.3:
            a, b = a - 0.25, b + 0.125
        if f in ("m",) and trng.random() < 0.3:
            a, b = max(-32768, a - 1), min(32767, b + 1)
        q = query.NumericRange(f, trng.choice([a, a, None]), trng.choice([b, b, None]), trng.random() < .4, trng.random() < .4)
        r = trng.random()
        if r < 0.15:
            q = query.And([q, model.gen_leaf(trng, fuzzy=False)])
        elif r < 0.3:
            q = query.Or([q, model.gen_leaf(trng, fuzzy=False)])
        elif r < 0.4:
            q = query.AndNot(model.gen_leaf(trng, fuzzy=False), q)
        elif r < 0.5:
            q = query.And([model.gen_leaf(trng, fuzzy=False), query.Not(q)])
        elif r < 0.55:
            g = trng.choice(["f", "m", "p", "c"])
            q = query.Or([q, query.Every(g)]) if trng.random() < 0.5 else query.AndNot(query.Every(g), q)
        out.append(q)
    return out


def check_query(ctx, rng, built, s, q, wb, wname, exp=None):
    from vf import model
    try:
        exp = exp if exp is not None else model.expected_keys(q, built.live)
    except model.Undecided:
        ctx.count("c01.undecided")
        return None
    ctx.count("c01.queries")
    w = dict(wb, query=repr(q), expected=sorted(exp, key=int))
    k = rng.choice([1, 2, 3, 5, 10])

    def keyset(docnums):
        return set(s.stored_fields(dn)["id"] for dn in docnums)

    def p_docs_for_query():
        return keyset(s.docs_for_query(q))

    def p_query_docs():
        return keyset(q.docs(s))

    def p_search():
        r = s.search(q, limit=None)
        got = set(h["id"] for h in r)
        if len(r) != len(got) or r.scored_length() != len(got):
            return ("len", len(r), r.scored_length(), sorted(got))
        if keyset(r.docs()) != got:
            return ("docs()", sorted(keyset(r.docs())), sorted(got))
        return got

    def p_unscored():
        r = s.search(q, limit=None, scored=False)
        got = set(h["id"] for h in r)
        if len(r) != len(got):
            return ("len", len(r), sorted(got))
        return got

    def p_sorted():
        r = s.search(q, limit=None, sortedby="id")
        got = set(h["id"] for h in r)
        if len(r) != len(got):
            return ("len", len(r), sorted(got))
        return got

    def p_terms():
        r = s.search(q, limit=None, terms=True)
        return set(h["id"] for h in r)

    def p_limit():
        r = s.search(q, limit=k)
        top = [h["id"] for h in r]
        if len(r) != len(exp):
            return ("len(results) with limit=%d" % k, len(r), top)
        if len(top) != min(k, len(exp)) or len(set(top)) != len(top):
            return ("number of hits with limit=%d" % k, top)
        if not set(top) <= exp:
            return ("hit outside the matching set, limit=%d" % k, top)
        if keyset(r.docs()) != exp:
            return ("Results.docs() with limit=%d" % k, sorted(keyset(r.docs())))
        return exp

    def p_page():
        pl = rng.choice([1, 3, 10])
        pg = s.search_page(q, 1, pagelen=pl)
        if pg.total != len(exp) or len(pg) != len(exp):
            return ("page.total", pg.total, len(pg))
        ids = [h["id"] for h in pg]
        if len(ids) != min(pl, len(exp)) or not set(ids) <= exp:
            return ("page hits", ids)
        return exp

    fns = dict(zip(PATHS, [p_docs_for_query, p_query_docs, p_search, p_unscored, p_sorted, p_terms, p_limit, p_page]))
    for name in PATHS:
        ctx.count("c01.path_checks")
        ok, got = ctx.guard("c01.path", dict(w, path=name, k=k), fns[name])
        if not ok:
            # the guard recorded exc:<type>@<site>; make the path visible too
            continue
        if got != exp:
            ctx.fail("c01.path", name, dict(w, path=name, k=k),
                     "observed %r" % (sorted(got, key=int) if isinstance(got, set) else (got,),))
    return exp


def run(ctx):
    from vf import model
    model.check_analysis()
    for idx in ctx.cases(quick=75, thorough=400):
        rng = ctx.rng(idx)
        ctx.reseed_global(idx)
        grouped = rng.random() < 0.12
        big = (idx % 23 == 5)
        staged = (idx % 6 == 4) and not big
        if big:
            grouped = False
            h = model.gen_big_history(rng)
            ctx.count("c01.big_segment_cases")
        elif staged:
            # long flat multi-block posting lists, a few strong documents early and late, deletions: limited
            # searches really skip blocks here, and whatever they skip to must still be a live matching document
            grouped = False
            h = model.gen_staged_history(rng)
            if not h["deletes"]:
                alld = [d["id"] for c_ in h["commits"] for d in c_]
                h["deletes"] = rng.sample(alld, min(len(alld) // 4, 25))
            h["blocklimit"] = rng.choice([1, 1, 2, 4])   # blocklimit 1: every posting opens a block
            ctx.count("c01.staged_cases")
        else:
            h = model.gen_group_history(rng) if grouped else model.gen_history(rng, ndocs=(1, 45), boosts=rng.random() < 0.3, boolean=True)
        stutter = (idx % 7 == 3) and not (big or staged or grouped)
        if stutter:
            # positional stress: texts over 3-4 words with immediate repetitions, so that a phrase with slop has several
            # candidate occurrences of every word and the nearest one is often a dead end
            words = rng.sample(model.VOCAB[:6], rng.choice([3, 3, 4]))
            for c_ in h["commits"]:
                for d in c_:
                    toks, n = [], rng.randint(3, 12)
                    while len(toks) < n:
                        w_ = rng.choice(words) if rng.random() < 0.85 else rng.choice(model.VOCAB)
                        toks.extend([w_] * rng.choice([1, 1, 2, 2, 3]))
                    d["t"] = " ".join(toks[:14])
            ctx.count("c01.stutter_cases")
        typed = (idx % 5 == 1) and not (big or staged or grouped or stutter)
        schema = None
        if typed:
            schema, tvals = add_typed_fields(ctx.rng(idx, "typed"), h)
            ctx.count("c01.typed_cases")
        wname, wobj = gen_weighting(rng)
        if staged:
            from whoosh import scoring
            wname, wobj = rng.choice([("BM25F", scoring.BM25F()), ("TF_IDF", scoring.TF_IDF()), ("Frequency", scoring.Frequency())])
        wb = {"history": {"commits": [len(c) for c in h["commits"]], "deletes": h["deletes"][:12],
                          "blocklimit": h["blocklimit"], "storage": h["storage"]}, "case_idx": idx, "weighting": wname}
        ok, built = ctx.guard("c01.build", wb, model.build, h, schema)
        if not ok:
            continue
        if len(h["commits"]) > 1 and h["deletes"]:
            ctx.count("c01.multiseg_with_deletions")
        sig = model.layout_sig(h)
        try:
            psz = None if big else model.partsize_for(idx)
            if psz is not None:
                ctx.count("c01.small_array_parts")
                wb["array_partsize(default of ArrayUnionMatcher)"] = psz
            with model.array_partsize(psz), built.ix.searcher(weighting=wobj) as s:
                if s.doc_count() != len(built.live):
                    ctx.fail("c01.doc_count", "doc_count", wb, "doc_count=%d live=%d" % (s.doc_count(), len(built.live)))
                for _ in range(14):
                    if grouped and rng.random() < 0.7:
                        from whoosh import query
                        q = model.gen_nested_query(rng)
                        pre = model.nested_expected(q, h, built.live)
                        r = rng.random()
                        if r < 0.25:
                            t = query.Term("t", model.zipf_choice(rng, model.VOCAB))
                            q, pre = query.And([q, t]), pre & model.expected_keys(t, built.live)
                        elif r < 0.4:
                            t = query.Term("t", model.zipf_choice(rng, model.VOCAB))
                            q, pre = query.Or([q, t]), pre | model.expected_keys(t, built.live)
                        ctx.count("c01.nested_queries")
                        exp = check_query(ctx, rng, built, s, q, wb, wname, exp=pre)
                    elif staged and rng.random() < 0.85:
                        q = model.gen_skip_stress(rng)
                        exp = check_query(ctx, rng, built, s, q, wb, wname)
                        if exp is not None:
                            # more limits on the same query: each k makes the collector skip different blocks
                            for k in (1, 2, 3, 4):
                                ctx.count("c01.path_checks")
                                ctx.count("c01.staged_limit_checks")
                                okk, top = ctx.guard("c01.path", dict(wb, query=repr(q), path="limit", k=k),
                                                     lambda: [h["id"] for h in s.search(q, limit=k)])
                                if okk and (not set(top) <= exp or len(top) != min(k, len(exp))):
                                    ctx.fail("c01.path", "limit", dict(wb, query=repr(q), path="limit", k=k,
                                                                       expected=sorted(exp, key=int)[:40]),
                                             "limit=%d returned %r" % (k, top))
                                    break
                    elif stutter and rng.random() < 0.8:
                        from whoosh import query
                        q = query.Phrase("t", [rng.choice(words) for _ in range(rng.choice([2, 3, 3, 4, 5]))], slop=rng.choice([1, 2, 2, 3, 4]))
                        r = rng.random()
                        if r < 0.15:
                            q = query.And([q, model.gen_leaf(rng, fuzzy=False)])
                        elif r < 0.3:
                            q = query.Or([q, model.gen_leaf(rng, fuzzy=False)])
                        elif r < 0.4:
                            q = query.AndNot(model.gen_leaf(rng, fuzzy=False), q)
                        ctx.count("c01.stutter_phrase_queries")
                        exp = check_query(ctx, rng, built, s, q, wb, wname)
                    elif big and rng.random() < 0.6:
                        from whoosh import query
                        q = query.Or([model.gen_leaf(rng, fuzzy=False) for _ in range(rng.randint(3, 5))])
                        if rng.random() < 0.3:
                            q = query.And([q, model.gen_leaf(rng, fuzzy=False)])
                        exp = check_query(ctx, rng, built, s, q, wb, wname)
                    else:
                        q = model.gen_query(rng, depth=rng.choice([1, 2, 3, 3, 4]), scoring=rng.random() < 0.4, boolean=True)
                        exp = check_query(ctx, rng, built, s, q, wb, wname)
                    if exp is None:
                        continue
                    nontrivial = 0 < len(exp) < len(built.live)
                    if nontrivial:
                        ctx.count("c01.nontrivial")
                    for c in model.qclasses(q):
                        ctx.count("c01.qclass.%s" % c)
                    ctx.case((model.qshape(q), sig, wname), nontrivial,
                             sample={"query": repr(q), "layout": wb["history"], "matched": len(exp), "live": len(built.live)}
                             if ctx.evaluations % 300 == 0 else None)
                if typed:
                    trng = ctx.rng(idx, "typedq")
                    for q in typed_queries(trng, tvals):
                        ctx.count("c01.typed_range_queries")
                        exp = check_query(ctx, trng, built, s, q, wb, wname)
                        if exp is not None and 0 < len(exp) < len(built.live):
                            ctx.count("c01.typed_nontrivial")
                # boundary sweep: ranges whose bounds are values that really occur, in all four inclusive / exclusive
                # combinations (term, numeric and date ranges decide membership exactly at the bounds)
                if not big:
                    from whoosh import query as _q
                    brng = ctx.rng(idx, "bounds")
                    live = list(built.live.values())
                    words = sorted(set(w_ for d in live for w_ in (d.get("t") or "").split()))
                    nums = sorted(set(d["n"] for d in live if d.get("n") is not None))
                    dates = sorted(set(d["d"] for d in live if d.get("d") is not None))
                    combos = [(False, False), (True, False), (False, True), (True, True)]
                    brng.shuffle(combos)
                    bq = []
                    for sx, ex in combos[:3]:
                        if len(words) >= 1:
                            a_, b_ = sorted([brng.choice(words), brng.choice(words)])
                            bq.append(_q.TermRange("t", a_, b_, sx, ex))
                        if len(nums) >= 1:
                            a_, b_ = sorted([brng.choice(nums), brng.choice(nums)])
                            bq.append(_q.NumericRange("n", a_, b_, sx, ex))
                        if len(dates) >= 1:
                            a_, b_ = sorted([brng.choice(dates), brng.choice(dates)])
                            bq.append(_q.DateRange("d", a_, b_, sx, ex))
                    for q in bq:
                        ctx.count("c01.boundary_range_queries")
                        check_query(ctx, brng, built, s, q, wb, wname)
        finally:
            built.close()
