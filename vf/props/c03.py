"""C03 - readers are snapshots; new readers and refresh() see exactly the last commit (exploration over schedules).

Monitor shape: 1..2 writer threads run random transactions (append, merging commit, optimize, delete-only, update,
mergetype=CLEAR, empty commit) while 1..3 reader threads do open / hold / probe / refresh / close, all under the
deterministic cooperative scheduler of vf/sched.py: every storage event of vf/tap.py is a scheduling point, reader
dwell times are drawn on the scale of a transaction, and a reader can be parked for a transaction-long pause INSIDE
ix.searcher()/refresh() (between the TOC read and the opening of the segment files).  Monitors:

  (i)   held-snapshot   the fingerprint of a HELD searcher (full logical dump of its reader through vf/dump.py +
                        probe searches: stored fields, lexicon, postings, field lengths, vectors, the user-facing column
                        API - IndexReader.has_column / column_reader of the sortable field n and of the column-ONLY
                        field c, per index and per leaf reader - search sorted by n, search sorted AND grouped by the
                        column-only field c (no posting-list fallback), scored search) never changes and never raises
                        whatever commits / merges / clean-ups completed meanwhile; in half of the iterations the lazily
                        opened parts (columns, lengths, vectors) are touched for the first time only AFTER the dwell, in
                        the other half EVERY part (the column reads / sorts / groups included) is read before the dwell
                        and again after it.  The harness records on every searcher object which parts it has already
                        read correctly (parts_read_ok): a later failure of such a part is never excused by the listed
                        loose-segment finding
  (ii)  commit-state    a searcher opened, or refreshed via Searcher.refresh(), reports a generation at least as new as
                        every commit that had COMPLETED before the call, and its content equals the dict model of the
                        generation it reports (reader.generation()): every committed document exactly once, nothing
                        deleted or merged away, nothing from a later commit
  (iii) up_to_date      Searcher.up_to_date() == (reader generation == ix.latest_generation()), evaluated in an
                        atomic section (no other thread runs in between)
The model of generation g is the fold, in generation order, of the transactions whose TOC rename was observed by the
tap (registered synchronously in the committing thread just before the rename).
LINE-level schedules (quick: every 4th, thorough: every 3rd schedule): besides the storage events, sys.monitoring LINE
events inside the code a reader runs when it opens / refreshes (FileIndex.reader/_reader/latest_generation/_read_toc,
TOC.read/_latest_generation, SegmentReader/MultiReader/EmptyReader/Searcher constructors, Searcher.refresh/up_to_date,
the open/list/exists/length methods of FileStorage, RamStorage, OverlayStorage, CompoundStorage, the W3 codec's reader
constructors; see reader_side_codes()) are scheduling points for every thread, with a per-schedule probability, and a
reader inside ix.searcher() / refresh() is parked for a transaction-long pause at 0..2 chosen LINE events of that call
(chosen uniformly over the call's line events, or uniformly over its functions and then over that function's line
events), so that complete commits + clean_files land between two LINES of a reader opening.  In these schedules half of
the up_to_date() evaluations run with scheduling points inside the call (judged by the bracket rule, see ASSUMPTIONS).
Writer histories also contain: un-delete (writer.delete_document(docnum, delete=False)), same-count swaps (un-delete one
document and delete another of the same segment), deletions in the oldest segment while a new segment is appended, and -
in schedules whose index handles all come from Storage.open_index() (no shared Schema object) - add_field() (+ documents
using the new field) and remove_field().
Process variant (thorough tier, a few quick cases): the writer runs in a subprocess (vf/workers/c03_writer.py, scripted
transactions, seeded delays at storage events) while the parent opens / holds / refreshes readers.
"""
import json
import os
import random
import re
import shutil
import subprocess
import sys
import tempfile
import time
import traceback

LEVEL = "exploration"
RULE = ("a case is one schedule: storage {FileStorage with mmap, FileStorage(supports_mmap=False), RamStorage} x segment "
        "layout {compound, loose, mixed} x a prelude of 1..4 segments x 1..2 writer threads with 2..4 transactions each "
        "drawn from {append (merge=False), default merging commit, optimize, delete-only, update, CLEAR, empty commit, "
        "cancel; 30 %: deletion-set changes by document number, all merge=False: un-delete, same-count swap (un-delete "
        "one + delete another document of one segment), swap + appended segment, deletions in the oldest segment + "
        "appended segment; in the 35 % of the schedules with schema transactions (every index handle from "
        "Storage.open_index(), no Schema object shared) 30 %: add_field(x<n>, TEXT(stored)) + 1..2 documents using it "
        "(merge=False or default merge) / remove_field(x<n>)} x 1..3 reader threads looping open / (probe) / dwell {0,5,50,300,800,2500 steps} / probe / up_to_date / "
        "refresh-or-close-or-keep until all writers are done (a kept or self-refreshed searcher is probed again: every part "
        "it has read before is re-read after further commits); documents carry a sortable NUMERIC n and a column-only "
        "COLUMN field c = n % 5, and each full probe reads both columns through has_column / column_reader (index and "
        "leaf readers), sorts by n, and sorts + groups by c, and further reads iter_docs / all_stored_fields, postings "
        "with positions, vector_as, lexicon APIs, term_info / doc_frequency / frequency / field_length / "
        "most_frequent_terms, min/max/avg field length, Searcher.document / document_number / documents, limited and "
        "reversed sorted searches, key_terms / more_like, and schema names + Term search + lexicon on every added "
        "field; every 4th (thorough: 3rd) schedule additionally has LINE-level scheduling points in the reader-side "
        "opening code (per-line yield probability 0.02..0.6 drawn per schedule; 0..2 transaction-long parks at chosen "
        "LINE events of each ix.searcher() / refresh() call); scheduler policy (uniform random with stickiness / PCT / round "
        "robin) drawn per schedule. Population A = all segments compound (any disagreement is a violation); population "
        "B = loose or mixed layouts (two-level oracle for the listed lazy-file finding). A case is non-trivial when a "
        "commit completed while a reader was held; distinct = distinct (storage, layout, writers, readers, transaction "
        "kinds, policy family, which reader modes met a concurrent commit); distinct INTERLEAVINGS (hash of the owner "
        "sequence of the schedule) are counted separately.")
ASSUMPTIONS = [
    "schedule space is sampled; scheduling points are storage events (reads of already open files and mmaps are not "
    "events, so a probe of opened parts is atomic with respect to writers, as it is for the file system); in the "
    "LINE-level schedules additionally the LINE events of the reader-side opening code listed in reader_side_codes() "
    "(not the codec's read paths used by probes, not the writer's own code): a thread switch between two such lines is "
    "what the language allows, even where CPython 3.12 happens not to check for a switch",
    "LINE-level schedules, half of the up_to_date() evaluations: the call is not atomic; with lo / hi = latest "
    "generation read atomically just before / after the call, the answer must be False when reader generation < lo, "
    "True when lo == hi == reader generation (generations only grow), and is not judged otherwise",
    "un-delete restores the document with the content it had when it was deleted; only documents whose key is not "
    "live are un-deleted (keys stay unique), identified by their unique stored n",
    "schema transactions: the model of remove_field() is 'the field is no longer in Searcher.schema / reader.schema and "
    "stored_fields() / search hits no longer return it' (what a freshly opened reader does: SegmentReader.stored_fields "
    "filters by the schema); IndexReader.iter_docs() / all_stored_fields() return the raw stored dictionaries even in "
    "a fresh reader (documented: removing a field 'may or may not actually remove existing data'), so they are "
    "projected on the schema before the comparison; a field name is never re-used; glob fields are not used",
    "term statistics (term_info, doc_frequency, frequency, field_length, most_frequent_terms, min/max/avg field "
    "length), the lexicon APIs, key_terms / more_like are compared only between two probes of the same held searcher "
    "(segments with deletions still count deleted documents; not part of the dict model)",
    "the held-snapshot monitor uses the read API through Searcher/IndexReader only; after Searcher.refresh() the old "
    "searcher is not used any more (documented: refresh may close its resources)",
    "a reader opened while a commit is in flight may report the old or the new generation; it is compared with the "
    "model of the generation it reports, and must be at least as new as every commit whose lock release preceded the "
    "call",
    "up_to_date() is compared with generation equality only inside an atomic section of the scheduler (threads) or "
    "after the writer process exited (process variant); during a free-running writer process only the implication "
    "'up_to_date() true => generation was the latest at some moment during the call' is checked",
    "documents carry a unique numeric sort key so that the sorted search has one correct order",
    "the lexicon may still list a term whose documents have all been deleted (segments are immutable until merged); "
    "such a term must have an empty posting list and is ignored in the comparison with the model",
    "scores, and the per-leaf-reader has_column() answers, are compared only between two probes of the same held "
    "searcher (the reference scorer is C09's business; which segment has which column file is not part of the model)",
    "the column-only field c is derived from n (n % 5, no extra random draw); groups are compared as key -> sorted "
    "document keys, the order of the sorted+grouped search as the order by (c, n), which is unique",
    "loose (compound=False) segments: see the listed finding; the classifier emits the known mechanism only when ALL "
    "of: the layout is not all-compound; the reader holds a loose segment of which files were removed (tap 'remove' "
    "events); the disagreement is confined to column-backed parts (stored fields, lengths, vectors, columns, sorted / "
    "scored search) or is an exception raised while evaluating them; and the tap log shows that DURING THE FAILING "
    "PROBE this thread looked for (open-r / stat; RamStorage: file_exists / file_length, logged by a harness wrapper) "
    "a file of such a segment whose remove event precedes the look-up (a W3 reader caches the handles of the "
    "column files it has opened and need never look for them again); and NONE of the failing parts had been read "
    "correctly before by this very searcher object (per-searcher record of the parts evaluated without error and in "
    "agreement with the model - a part that was read has all the files it needs open, so a look-up of a removed file "
    "on its behalf is not a first open but a reader asking the directory about a file it already holds). Everything "
    "else is a violation (in particular any failure of a reader over compound segments, and of parts a loose-segment "
    "reader had read before the removal: those carry the mech suffix ':part-already-read-by-this-searcher-before-the-"
    "files-were-removed'). The record is per searcher OBJECT: a searcher returned by refresh() that re-uses the segment "
    "readers of its predecessor starts with an empty record (errs towards the listed finding, never towards a false "
    "alarm); the same rule is applied in the process variant",
]
SHARDS = {"quick": 4, "thorough": 16}
BUDGET_S = {"quick": 60, "thorough": 660}
FLOORS = {
    # quick floors = about 1/3 of the minimum over seeds 0..4 (4 shards x 60 s on a busy 16-core machine, after the probes
    # grew by the further read APIs and every 4th schedule became a LINE-level one)
    "quick": {"schedules": 200, "sched.steps": 360000, "interleavings.distinct": 200, "reader.iterations": 1400,
              "held.iterations_with_commit": 410, "held.commits_during_hold": 760,
              "held.lazy_first_touch_after_commit": 230, "held.everything_first_touched_after_commit": 66,
              "held.evals": 1400, "open.evals": 660, "refresh.evals": 710, "refresh.after_merge": 82,
              "refresh.reused_segment_readers": 120, "uptodate.evals": 1200, "uptodate.false": 500, "uptodate.true": 710,
              "popA.schedules": 99, "popB.schedules": 92, "storage.ram.schedules": 65,
              "storage.file-mmap.schedules": 67, "storage.file-nommap.schedules": 65, "tx.kind.optimize": 50,
              "tx.kind.default": 91, "tx.kind.clear": 43, "tx.kind.delete-only": 48, "open.paused_inside": 490,
              "reader.open_retries": 18, "open.via_new_index_object": 180, "commits.published": 710,
              "proc.histories": 4, "proc.held_evals": 110, "proc.held_across_commit": 18, "proc.final_checks": 4,
              # re-reads, after files of the searcher's loose segments were removed, of parts / of the user-facing
              # column parts that this searcher had read before
              "held.loose_removed.reread_of_parts_read_before": 52,
              "held.loose_removed.reread_of_user_columns_read_before": 37,
              # LINE-level reach: schedules, yields, transaction-long parks at a LINE inside ix.searcher()/refresh(),
              # schedules / calls in which a commit COMPLETED (and clean_files removed segment files) while a reader
              # was inside such a call, line events seen inside such calls per function, parks per function
              "lines.schedules": 49, "lines.yields": 67000, "lines.parked_inside_open": 230,
              "lines.schedules_with_commit_completed_inside_open": 47,
              "lines.schedules_with_segment_files_removed_inside_open": 45,
              "lines.commit_completed_while_parked_at_a_line": 90, "lines.open.commit_completed_inside": 78,
              "lines.refresh.commit_completed_inside": 20, "inside_open.commit_completed": 240,
              "uptodate.line_level_decided_True": 79, "uptodate.line_level_decided_False": 51,
              "lines.inside_open_events_in.FileIndex.reader": 1400, "lines.inside_open_events_in.FileIndex._reader": 3300,
              "lines.inside_open_events_in.FileIndex._reader.<locals>.segreader": 3200,
              "lines.inside_open_events_in.FileIndex.latest_generation": 130,
              "lines.inside_open_events_in.FileIndex._read_toc": 200, "lines.inside_open_events_in.TOC.read": 6700,
              "lines.inside_open_events_in.TOC._latest_generation": 19000,
              "lines.inside_open_events_in.SegmentReader.__init__": 5500,
              "lines.inside_open_events_in.MultiReader.__init__": 2500,
              "lines.inside_open_events_in.Searcher.__init__": 28000, "lines.inside_open_events_in.Searcher.refresh": 620,
              "lines.inside_open_events_in.FileStorage.open_file": 1100,
              "lines.inside_open_events_in.FileStorage.list": 920, "lines.inside_open_events_in.RamStorage.open_file": 990,
              "lines.inside_open_events_in.RamStorage.list": 100,
              "lines.inside_open_events_in.CompoundStorage.__init__": 5900,
              "lines.inside_open_events_in.CompoundStorage.open_file": 3900,
              "lines.inside_open_events_in.OverlayStorage.open_file": 1300,
              "lines.inside_open_events_in.Segment.open_compound_file": 1000,
              "lines.inside_open_events_in.W3TermsReader.__init__": 6900,
              "lines.inside_open_events_in.W3PerDocReader.__init__": 3700,
              "lines.inside_open_events_in._same_deletions": 340, "lines.parked_in.FileIndex.reader": 6,
              "lines.parked_in.FileIndex._reader": 3, "lines.parked_in.TOC.read": 20,
              "lines.parked_in.TOC._latest_generation": 76, "lines.parked_in.SegmentReader.__init__": 2,
              "lines.parked_in.Searcher.refresh": 5,
              # deletion-set and schema transactions, and refreshes that met them
              "refresh.kept_segment_with_changed_deletions_and_new_segment": 110,
              "refresh.kept_segment_with_same_count_other_deletions": 16,
              "refresh.kept_segment_with_undeleted_document": 28, "tx.kind.swapdel": 32, "tx.kind.swapdel-append": 15,
              "tx.kind.undelete": 22, "tx.kind.olddel-append": 37, "tx.kind.add-field": 41,
              "tx.kind.add-field-merge": 20, "tx.kind.remove-field": 13, "schema.schedules": 72,
              # refresh() from a generation before to one after an add_field() / remove_field() commit (with segments
              # that survive it: their open readers carry the old Schema)
              "refresh.across_schema_change": 40, "refresh.across_schema_change_with_kept_segments": 30},
    # thorough floors = about 1/4 of one 16-shard x 660 s run on the same busy machine (same counters as the quick tier)
    "thorough": {"schedules": 3300, "sched.steps": 6600000, "interleavings.distinct": 3300, "reader.iterations": 22000,
                 "held.iterations_with_commit": 6400, "held.commits_during_hold": 11000,
                 "held.lazy_first_touch_after_commit": 3600, "held.evals": 22000, "open.evals": 10000, "refresh.evals":
                 11000, "refresh.after_merge": 1200, "refresh.reused_segment_readers": 2200, "uptodate.evals": 19000,
                 "uptodate.false": 7900, "uptodate.true": 11000, "popA.schedules": 1700, "popB.schedules": 1600,
                 "storage.ram.schedules": 1100, "storage.file-mmap.schedules": 1100, "storage.file-nommap.schedules":
                 1100, "tx.kind.optimize": 820, "tx.kind.default": 1500, "tx.kind.clear": 810, "tx.kind.delete-only":
                 780, "open.paused_inside": 8100, "commits.published": 12000, "proc.histories": 140,
                 "proc.reader_iterations": 4000, "proc.held_across_commit": 580,
                 "held.loose_removed.reread_of_parts_read_before": 850,
                 "held.loose_removed.reread_of_user_columns_read_before": 640,
                 "proc.loose.reread_of_user_columns_after_commit": 150, "held.everything_first_touched_after_commit":
                 1000, "reader.open_retries": 380, "open.via_new_index_object": 3200, "proc.held_evals": 4000,
                 "proc.final_checks": 140, "lines.schedules": 1100, "lines.yields": 1700000, "lines.parked_inside_open":
                 5200, "lines.schedules_with_commit_completed_inside_open": 1000,
                 "lines.schedules_with_segment_files_removed_inside_open": 1000,
                 "lines.commit_completed_while_parked_at_a_line": 2100, "lines.open.commit_completed_inside": 1800,
                 "lines.refresh.commit_completed_inside": 570, "inside_open.commit_completed": 4700,
                 "uptodate.line_level_decided_True": 1700, "uptodate.line_level_decided_False": 1200,
                 "lines.inside_open_events_in.FileIndex.reader": 34000, "lines.inside_open_events_in.FileIndex._reader":
                 80000, "lines.inside_open_events_in.FileIndex._reader.<locals>.segreader": 86000,
                 "lines.inside_open_events_in.FileIndex.latest_generation": 3000,
                 "lines.inside_open_events_in.FileIndex._read_toc": 4700, "lines.inside_open_events_in.TOC.read": 160000,
                 "lines.inside_open_events_in.TOC._latest_generation": 530000,
                 "lines.inside_open_events_in.SegmentReader.__init__": 140000,
                 "lines.inside_open_events_in.MultiReader.__init__": 66000,
                 "lines.inside_open_events_in.Searcher.__init__": 720000, "lines.inside_open_events_in.Searcher.refresh":
                 14000, "lines.inside_open_events_in.FileStorage.open_file": 31000,
                 "lines.inside_open_events_in.FileStorage.list": 21000,
                 "lines.inside_open_events_in.RamStorage.open_file": 27000,
                 "lines.inside_open_events_in.RamStorage.list": 3000,
                 "lines.inside_open_events_in.CompoundStorage.__init__": 130000,
                 "lines.inside_open_events_in.CompoundStorage.open_file": 92000,
                 "lines.inside_open_events_in.OverlayStorage.open_file": 30000,
                 "lines.inside_open_events_in.Segment.open_compound_file": 23000,
                 "lines.inside_open_events_in.W3TermsReader.__init__": 170000,
                 "lines.inside_open_events_in.W3PerDocReader.__init__": 95000,
                 "lines.inside_open_events_in._same_deletions": 10000, "lines.parked_in.FileIndex.reader": 160,
                 "lines.parked_in.FileIndex._reader": 140, "lines.parked_in.TOC.read": 580,
                 "lines.parked_in.TOC._latest_generation": 1900, "lines.parked_in.SegmentReader.__init__": 100,
                 "lines.parked_in.Searcher.refresh": 130, "refresh.kept_segment_with_changed_deletions_and_new_segment":
                 1900, "refresh.kept_segment_with_same_count_other_deletions": 300,
                 "refresh.kept_segment_with_undeleted_document": 480, "tx.kind.swapdel": 630, "tx.kind.swapdel-append":
                 320, "tx.kind.undelete": 420, "tx.kind.olddel-append": 700, "tx.kind.add-field": 740,
                 "tx.kind.add-field-merge": 380, "tx.kind.remove-field": 240, "schema.schedules": 1100,
                 "refresh.across_schema_change": 820, "refresh.across_schema_change_with_kept_segments": 640},
}

VOCAB = ["alfa", "bravo", "charlie", "delta", "echo", "foxtrot", "golf", "hotel"]
TOCRE = re.compile(r"^(?:ram:)?_MAIN_([0-9]+)\.toc$")
SEGRE = re.compile(r"^(?:ram:)?(MAIN_[0-9a-z]{16})\.(.+)$")
LOCKNAME = "MAIN_WRITELOCK"
# parts of a fingerprint. With the W3 codec the per-document data (stored fields, lengths, vector offsets, sort columns)
# are column files that a reader opens on first use; only the term index / postings are opened with the reader.
# what check_fresh looks at (opens the stored-fields column). schema = field names of Searcher.schema / reader.schema;
# extra_fields = for every field x<n> added by a writer's add_field(): documents found by Term(x, "hello" / "world")
# (Searcher.docs_for_query) and the lexicon of x
OPEN_PARTS = ("doc_count", "keys", "stored", "terms", "schema", "extra_fields")
BASE_FIELDS = ("c", "id", "k", "n", "t")
EXTRA_WORDS = ("hello", "world")
LAZY_PARTS = ("lengths", "vectors", "columns", "leaf_columns", "sorted_by_n", "by_c_column", "scored")
# further read APIs (never part of check_fresh; in the 'lazy' / 'untouched' modes first used after the hold):
#   iter_docs     IndexReader.iter_docs / all_stored_fields
#   positions     postings of field t with their positions (Matcher.value_as("positions"))
#   vector_as     IndexReader.vector_as("frequency" / "positions")
#   lexicon       field_terms, lexicon, expand_prefix, iter_field, indexed_field_names, (field, text) in reader
#   term_stats    term_info (weight, doc frequency, min/max length, max weight, min/max id), doc_frequency, frequency,
#                 field_length, most_frequent_terms
#   length_stats  min_field_length / max_field_length / Searcher.avg_field_length (read the lengths column)
#   documents     Searcher.document(id=..) / document_number(id=..) / documents(k=..)
#   sorted_more   top-3 of a reversed sort by n; top-2 of a term query sorted by n
#   similar       Searcher.key_terms / more_like
#   extra_search  scored search for Term(x, "hello") on every added field x
EXTRA_PARTS = ("iter_docs", "positions", "vector_as", "lexicon", "term_stats", "length_stats", "documents",
               "sorted_more", "similar", "extra_search")
ALL_PARTS = OPEN_PARTS + LAZY_PARTS + EXTRA_PARTS
# can be affected by the listed loose-segment finding: the parts that read per-document column files (stored fields,
# lengths, vector offsets / vector postings, sort columns), which a W3 reader opens on first use
COLUMN_BACKED = ("keys", "stored") + LAZY_PARTS + ("iter_docs", "vector_as", "length_stats", "documents", "sorted_more",
                                                   "similar", "extra_search")
# not derived from the dict model: compared only between two probes of the same held searcher (term statistics and the
# lexicon of a segment with deletions still count the deleted documents; similarity scores are C09's business)
UNMODELLED = ("scored", "leaf_columns", "lexicon", "term_stats", "length_stats", "similar")
# the user-facing column API: IndexReader.has_column / column_reader, sort and group on a column
USER_COLUMN_PARTS = ("columns", "leaf_columns", "sorted_by_n", "by_c_column")
READ_OK_ATTR = "_vf_c03_parts_read_ok"
EAGER_PARTS = OPEN_PARTS
KNOWN_LOOSE = "known:loose-segment-lazily-opened-file-after-clean_files"


class Boom(Exception):
    pass


def make_schema():
    from whoosh import columns, fields
    # c is a column-ONLY field (not indexed, not stored): sorting / grouping on it has no posting-list fallback
    return fields.Schema(id=fields.ID(stored=True, unique=True),
                         t=fields.TEXT(stored=True, vector=True),
                         n=fields.NUMERIC(stored=True, sortable=True),
                         k=fields.KEYWORD(stored=True),
                         c=fields.COLUMN(columns.NumericColumn("i")))


def parts_read_ok(searcher):
    """The set of fingerprint parts that THIS searcher object has already evaluated without an error and in agreement
    with the model of its generation (kept on the searcher object: Searcher.refresh() returning self keeps it, a new
    searcher - even one that re-uses segment readers - starts empty, which only errs towards the listed finding)."""
    d = searcher.__dict__
    if READ_OK_ATTR not in d:
        d[READ_OK_ATTR] = set()
    return d[READ_OK_ATTR]


def _plain(b):
    return b[4:] if b.startswith("ram:") else b


def _base(name):
    name = str(name)
    if name.startswith("ram:"):
        return name
    return os.path.basename(name)


# ----------------------------------------------------------------------
# fingerprint of a searcher and the expectation derived from the dict model
# ----------------------------------------------------------------------

def fingerprint(searcher, parts=None, errors=None):
    """dict part -> value. A part that raises is recorded in `errors` (part -> exception) and left out; when the
    key mapping (stored fields) raises, the parts that need it are left out too."""
    from whoosh import query
    r = searcher.reader()
    out = {}
    want = parts or ALL_PARTS

    def run(part, fn):
        if part not in want:
            return False
        try:
            out[part] = fn()
            return True
        except Exception as e:  # noqa - judged by the caller
            if errors is None:
                raise
            errors[part] = e
            return False
    run("doc_count", lambda: (r.doc_count(), searcher.doc_count()))
    if not set(want) - set(["doc_count"]):
        return out
    km = {}

    def keys():
        for dn in r.all_doc_ids():
            sf = r.stored_fields(dn)
            km[dn] = (sf.get("id", "?doc%d" % dn), sf)
        return sorted(k for k, _ in km.values())
    saved_want = want
    want = tuple(want) + ("keys",)
    ok = run("keys", keys)
    want = saved_want
    if not ok:
        return out
    if "keys" not in want:
        out.pop("keys", None)
    run("stored", lambda: dict((k, dict(sf)) for k, sf in km.values()))

    def terms():
        res = {}
        for fieldname, tbytes in r.all_terms():
            if fieldname not in ("t", "id"):
                continue
            m = r.postings(fieldname, tbytes)
            plist = []
            while m.is_active():
                dn = m.id()
                plist.append((km[dn][0] if dn in km else "?deleted%d" % dn, round(m.weight(), 6)))
                m.next()
            res["%s:%r" % (fieldname, tbytes)] = sorted(plist)
        return res
    run("terms", terms)
    run("schema", lambda: {"searcher": sorted(searcher.schema.names()), "reader": sorted(r.schema.names())})

    def xfields():
        return sorted(n_ for n_ in searcher.schema.names() if n_.startswith("x"))

    def extra_fields():
        res = {}
        for x in xfields():
            d = {}
            for wd in EXTRA_WORDS:
                d[wd] = sorted(km[dn][0] if dn in km else "?doc%d" % dn
                               for dn in searcher.docs_for_query(query.Term(x, wd)))
            lex = []
            for b in r.lexicon(x):
                if r.postings(x, b).is_active():        # (see "terms": a term of deleted documents only may linger)
                    lex.append(b.decode("utf-8") if isinstance(b, bytes) else b)
            d["lexicon"] = sorted(lex)
            res[x] = d
        return res
    run("extra_fields", extra_fields)
    run("lengths", lambda: dict((km[dn][0], r.doc_field_length(dn, "t")) for dn in km))

    def vectors():
        res = {}
        for dn in km:
            if r.has_vector(dn, "t"):
                v = r.vector(dn, "t")
                items = []
                while v.is_active():
                    t = v.id()
                    items.append((t if isinstance(t, bytes) else t.encode("utf-8"), int(v.weight())))
                    v.next()
                res[km[dn][0]] = sorted(items)
        return res
    run("vectors", vectors)

    def columns():
        res = {}
        for f in ("n", "c"):
            if not r.has_column(f):
                res[f] = None
                continue
            cr = r.column_reader(f)
            res[f] = dict((km[dn][0], cr[dn]) for dn in km)
        return res
    run("columns", columns)
    run("leaf_columns", lambda: [(bool(lr.has_column("n")), bool(lr.has_column("c"))) for lr, _ in r.leaf_readers()])
    run("sorted_by_n", lambda: [h["id"] for h in searcher.search(query.Every(), limit=None, sortedby="n")])

    def by_c_column():
        from whoosh import sorting
        res = searcher.search(query.Every(), limit=None, sortedby=[sorting.FieldFacet("c"), sorting.FieldFacet("n")],
                              groupedby={"c": sorting.FieldFacet("c")})
        groups = dict((gk, sorted(km[dn][0] if dn in km else "?doc%d" % dn for dn in dns))
                      for gk, dns in res.groups("c").items())
        return {"order": [h["id"] for h in res], "groups": groups}
    run("by_c_column", by_c_column)
    run("scored", lambda: [(h["id"], round(h.score, 6)) for h in
                           searcher.search(query.Or([query.Term("t", "alfa"), query.Term("t", "bravo")]), limit=None)])
    if not set(want) & set(EXTRA_PARTS):
        return out

    def txt(b):
        return b.decode("utf-8") if isinstance(b, bytes) else b

    def iter_docs():
        a = {}
        dns = []
        names = set(searcher.schema.names())
        for dn, sf in r.iter_docs():
            dns.append(dn)
            # (iter_docs / all_stored_fields return the raw stored dictionaries, fields removed by remove_field()
            # included - "may or may not remove existing data": projected on the schema, as stored_fields() does)
            a[sf.get("id", "?doc%d" % dn)] = dict((f, v) for f, v in sf.items() if f in names)
        return {"iter_docs": a, "docnums_are_all_doc_ids": sorted(dns) == sorted(km),
                "all_stored_fields": sorted(sf.get("id", "?") for sf in r.all_stored_fields())}
    run("iter_docs", iter_docs)

    def positions():
        res = {}
        for tbytes in r.lexicon("t"):
            m = r.postings("t", tbytes)
            plist = []
            while m.is_active():
                dn = m.id()
                plist.append((km[dn][0] if dn in km else "?deleted%d" % dn, list(m.value_as("positions"))))
                m.next()
            res[txt(tbytes)] = sorted(plist)
        return res
    run("positions", positions)

    def vector_as():
        res = {}
        for dn in km:
            if r.has_vector(dn, "t"):
                res[km[dn][0]] = {"frequency": sorted((txt(t), int(v)) for t, v in r.vector_as("frequency", dn, "t")),
                                  "positions": sorted((txt(t), list(v)) for t, v in r.vector_as("positions", dn, "t"))}
        return res
    run("vector_as", vector_as)

    def lexicon():
        return {"field_terms": list(r.field_terms("t")), "lexicon_id": [txt(b) for b in r.lexicon("id")],
                "expand_prefix": [[txt(b) for b in r.expand_prefix("t", p)] for p in ("a", "b", "fo", "z")],
                "iter_field": [(txt(b), ti.doc_frequency()) for b, ti in r.iter_field("t", prefix="c")],
                "indexed_field_names": sorted(r.indexed_field_names()),
                "contains": [("t", w_) in r for w_ in VOCAB]}
    run("lexicon", lexicon)

    def term_stats():
        res = {}
        for fieldname, tbytes in r.all_terms():
            if fieldname not in ("t", "id", "k"):
                continue
            ti = r.term_info(fieldname, tbytes)
            res["%s:%s" % (fieldname, txt(tbytes))] = (
                round(ti.weight(), 6), ti.doc_frequency(), ti.min_length(), ti.max_length(), round(ti.max_weight(), 6),
                ti.min_id(), ti.max_id(), r.doc_frequency(fieldname, tbytes), round(r.frequency(fieldname, tbytes), 6))
        return {"terms": res, "field_length": (r.field_length("t"), searcher.field_length("t")),
                "most_frequent_terms": [(round(w_, 6), txt(b)) for w_, b in r.most_frequent_terms("t", 3)]}
    run("term_stats", term_stats)
    run("length_stats", lambda: (r.min_field_length("t"), r.max_field_length("t"),
                                 round(searcher.avg_field_length("t"), 6)))

    def documents():
        ks = sorted(k for k, _ in km.values())
        sample = sorted(set(ks[:1] + ks[len(ks) // 2:len(ks) // 2 + 1] + ks[-1:])) + ["nokey"]
        by_id, by_num = {}, {}
        for k in sample:
            sf = searcher.document(id=k)
            by_id[k] = None if sf is None else dict(sf)
            dn = searcher.document_number(id=k)
            by_num[k] = None if dn is None else (km[dn][0] if dn in km else "?doc%d" % dn)
        return {"document": by_id, "document_number": by_num,
                "documents_k_red": sorted(sf.get("id", "?") for sf in searcher.documents(k="red"))}
    run("documents", documents)
    run("sorted_more", lambda: {
        "n_reversed_top3": [h["id"] for h in searcher.search(query.Every(), limit=3, sortedby="n", reverse=True)],
        "alfa_by_n_top2": [h["id"] for h in searcher.search(query.Term("t", "alfa"), limit=2, sortedby="n")]})

    def similar():
        dns = sorted(km)[:3]
        if not dns:
            return None
        return {"key_terms": [(txt(t), round(sc, 6)) for t, sc in searcher.key_terms(dns, "t", numterms=3)],
                "more_like": [(h["id"], round(h.score, 6)) for h in searcher.more_like(dns[0], "t", top=3)]}
    run("similar", similar)
    run("extra_search", lambda: dict((x, sorted(h["id"] for h in searcher.search(query.Term(x, "hello"), limit=None)))
                                     for x in xfields()))
    return out


def expected(model, parts=None, extras=()):
    """The same parts computed from the dict model {key: {'id','t','n','k', x..}} and the set `extras` of the fields
    added by add_field() (and not removed since) alone (scored: not modelled)."""
    want = parts or ALL_PARTS
    out = {}
    keys = sorted(model)
    extras = sorted(extras)
    STORED = ("id", "t", "n", "k") + tuple(extras)
    if "schema" in want:
        out["schema"] = {"searcher": sorted(BASE_FIELDS + tuple(extras)), "reader": sorted(BASE_FIELDS + tuple(extras))}
    if "extra_fields" in want:
        out["extra_fields"] = dict((x, dict(
            [(wd, [k for k in keys if wd in (model[k].get(x) or "").split()]) for wd in EXTRA_WORDS] +
            [("lexicon", sorted(set(w_ for k in keys for w_ in (model[k].get(x) or "").split())))])) for x in extras)
    if "extra_search" in want:
        out["extra_search"] = dict((x, [k for k in keys if "hello" in (model[k].get(x) or "").split()]) for x in extras)
    if "keys" in want:
        out["keys"] = keys
    if "doc_count" in want:
        out["doc_count"] = (len(keys), len(keys))
    if "stored" in want:
        st = {}
        for k in keys:
            d = model[k]
            st[k] = dict((f, d[f]) for f in STORED if d.get(f) is not None)
        out["stored"] = st
    if "terms" in want:
        terms = {}
        for k in keys:
            words = model[k]["t"].split()
            for w in set(words):
                terms.setdefault("t:%r" % w.encode("utf-8"), []).append(k)
            terms.setdefault("id:%r" % k.encode("utf-8"), []).append(k)
        out["terms"] = dict((t, sorted(v)) for t, v in terms.items())
    if "lengths" in want:
        out["lengths"] = dict((k, len(model[k]["t"].split())) for k in keys)
    if "vectors" in want:
        vec = {}
        for k in keys:
            words = model[k]["t"].split()
            vec[k] = sorted((w.encode("utf-8"), words.count(w)) for w in set(words))
        out["vectors"] = vec
    if "columns" in want:
        out["columns"] = {"n": dict((k, model[k]["n"]) for k in keys), "c": dict((k, model[k]["c"]) for k in keys)}
    if "sorted_by_n" in want:
        out["sorted_by_n"] = sorted(keys, key=lambda k: model[k]["n"])
    if "by_c_column" in want:
        groups = {}
        for k in keys:
            groups.setdefault(model[k]["c"], []).append(k)
        out["by_c_column"] = {"order": sorted(keys, key=lambda k: (model[k]["c"], model[k]["n"])), "groups": groups}
    if "iter_docs" in want:
        out["iter_docs"] = {"iter_docs": dict((k, dict((f, model[k][f]) for f in STORED
                                                        if model[k].get(f) is not None)) for k in keys),
                            "docnums_are_all_doc_ids": True, "all_stored_fields": keys}
    if "positions" in want:
        pos = {}
        for k in keys:
            words = model[k]["t"].split()
            for w in set(words):
                pos.setdefault(w, []).append((k, [i for i, x in enumerate(words) if x == w]))
        out["positions"] = dict((w, sorted(v)) for w, v in pos.items())
    if "vector_as" in want:
        vec = {}
        for k in keys:
            words = model[k]["t"].split()
            vec[k] = {"frequency": sorted((w, words.count(w)) for w in set(words)),
                      "positions": sorted((w, [i for i, x in enumerate(words) if x == w]) for w in set(words))}
        out["vector_as"] = vec
    if "documents" in want:
        sample = sorted(set(keys[:1] + keys[len(keys) // 2:len(keys) // 2 + 1] + keys[-1:])) + ["nokey"]
        out["documents"] = {
            "document": dict((k, None if k not in model else dict((f, model[k][f]) for f in STORED
                                                                   if model[k].get(f) is not None)) for k in sample),
            "document_number": dict((k, k if k in model else None) for k in sample),
            "documents_k_red": [k for k in keys if "red" in (model[k].get("k") or "").split()]}
    if "sorted_more" in want:
        byn = sorted(keys, key=lambda k: model[k]["n"])
        out["sorted_more"] = {"n_reversed_top3": byn[::-1][:3],
                              "alfa_by_n_top2": [k for k in byn if "alfa" in model[k]["t"].split()][:2]}
    return out


def comparable(fp):
    """Projection of a fingerprint onto what `expected` models (postings reduced to key + frequency)."""
    out = {}
    for part, v in fp.items():
        if part in UNMODELLED:
            continue
        if part == "terms":
            t2 = {}
            for term, plist in v.items():
                if plist:       # a term whose documents are all deleted stays in the lexicon until a merge
                    t2[term] = sorted(p[0] for p in plist)
            out[part] = t2
        elif part == "columns":
            # no column at all: right only for an index without documents
            out[part] = dict((f, {} if cv is None else cv) for f, cv in v.items())
        elif part == "positions":
            out[part] = dict((t, pl) for t, pl in v.items() if pl)      # (see "terms")
        else:
            out[part] = v
    return out


def differing_parts(a, b):
    return sorted(p for p in set(a) | set(b) if a.get(p) != b.get(p))


def freq_ok(fp, model):
    """term frequencies of field t (postings weight) against the model; returns list of problems."""
    bad = []
    for term, plist in fp.get("terms", {}).items():
        if not term.startswith("t:"):
            continue
        w = eval(term[2:]).decode("utf-8")
        for p in plist:
            key, weight = p[0], p[1]
            if key in model and abs(weight - model[key]["t"].split().count(w)) > 1e-6:
                bad.append((term, key, weight))
    return bad


# ----------------------------------------------------------------------
# history shared by the threads of one schedule
# ----------------------------------------------------------------------

class History(object):
    def __init__(self, sched, tap, g0, model0):
        self.sched, self.tap = sched, tap
        self.g0 = g0
        self.model0 = dict(model0)
        self.commits = []            # {gen, n, tid, owner, kind, ops}
        self.pending = {}            # tid -> tx
        self.completed = g0          # newest generation whose writer has released the lock
        self.removed = {}            # segment id -> first remove event n
        self.removed_files = {}      # segment id -> set(ext)
        self.removed_file_n = {}     # file name -> n of its remove event
        self.touched = {}            # tid -> [(n, file, kind)]  open-r / stat / ram-probe of segment files
        self.inject = {}             # tid -> [events to go, pause steps]
        self.problems = []
        self.nevents = 0
        self.merges = []             # generations at which segments disappeared
        self.nremoves = 0            # remove events of segment files so far
        self.extras0 = set()

    def on_event(self, n, kind, name, detail=None):
        s = self.sched
        tid = s.current()
        self.nevents += 1
        b = _base(name)
        if kind == "rename":
            m = TOCRE.match(b)
            if m and tid is not None and int(m.group(1)) > 0:
                tx = self.pending.get(tid)
                self.commits.append({"gen": int(m.group(1)), "n": n, "tid": tid, "tx": tx})
        elif kind == "remove":
            m = SEGRE.match(b)
            if m:
                self.nremoves += 1
                self.removed.setdefault(m.group(1), n)
                self.removed_files.setdefault(m.group(1), set()).add(m.group(2))
                self.removed_file_n.setdefault(_plain(b), n)

        elif kind == "lock-released" and b.endswith(LOCKNAME) and tid is not None:
            mine = [c["gen"] for c in self.commits if c["tid"] == tid]
            if mine and mine[-1] > self.completed:
                self.completed = mine[-1]
        inj = self.inject.get(tid)
        if inj is not None:
            inj[0] -= 1
            if inj[0] <= 0:
                del self.inject[tid]
                inj[2]["fired"] = (kind, b)
                s.pause(inj[1])
        s.on_event(n, kind, name, detail)
        if (kind == "open-r" or kind == "stat") and tid is not None and SEGRE.match(b):
            # logged when the thread RESUMES (the operation executes now, without a further scheduling point): what
            # counts for the classifier is whether the file had been removed when it was looked for, not when the
            # look-up was announced
            self.touched.setdefault(tid, []).append((self.tap.n, _plain(b), kind))

    def ram_probe(self, name):
        """RamStorage.file_exists / file_length are not tap events: logged from a harness-side wrapper."""
        tid = self.sched.current()
        if tid is not None and SEGRE.match(name):
            self.touched.setdefault(tid, []).append((self.tap.n + 0.5, name, "ram-probe"))

    def lazy_evidence(self, tid, reader, n0):
        """Files of LOOSE segments of `reader` that thread `tid` looked for (open / stat) after event n0 although a
        writer's clean_files had removed them before."""
        loose = set()
        for seg in (reader.segments() or []):
            try:
                if not seg.is_compound():
                    loose.add(seg.segment_id())
            except Exception:  # noqa
                pass
        ev = []
        for (n, f, kind) in self.touched.get(tid, []):
            if n <= n0:
                continue
            m = SEGRE.match(f)
            if not m or m.group(1) not in loose:
                continue
            rn = self.removed_file_n.get(f)
            if rn is None or rn > n:
                continue
            # (a reader that has a column file open never looks for it again - W3PerDocReader caches the handle -
            # so a look-up during this probe means that THIS reader object had not opened the file before)
            ev.append(f)
        return sorted(set(ev))

    def model(self, gen):
        m = dict(self.model0)
        for c in sorted(self.commits, key=lambda c: (c["gen"], c["n"])):
            if c["gen"] > gen:
                break
            tx = c["tx"]
            if tx is None:
                continue
            if tx["kind"] == "clear":
                m = {}
            for op in tx["ops"]:
                if op[0] in ("del", "deldoc"):
                    m.pop(op[1], None)
                else:           # add / upd / undel: the document (for undel: the content it had when it was deleted)
                    m[op[1]["id"]] = op[1]
        return m

    def extras(self, gen):
        """Fields added by add_field() and not removed again, as of generation `gen`."""
        x = set(self.extras0)
        for c in sorted(self.commits, key=lambda c: (c["gen"], c["n"])):
            if c["gen"] > gen:
                break
            for sop in ((c["tx"] or {}).get("schema_ops") or ()):
                if sop[0] == "addf":
                    x.add(sop[1])
                else:
                    x.discard(sop[1])
        return x

    def known_generations(self):
        return [self.g0] + [c["gen"] for c in self.commits]


# ----------------------------------------------------------------------
# transactions
# ----------------------------------------------------------------------

class DocGen(object):
    def __init__(self, rng):
        self.rng = rng
        self.nkey = 0
        self.nvals = list(range(1, 4000))
        rng.shuffle(self.nvals)
        self.by_n = {}

    def doc(self, key=None, extras=()):
        rng = self.rng
        if key is None:
            self.nkey += 1
            key = "d%03d" % self.nkey
        d = {"id": key, "t": " ".join(rng.choice(VOCAB) for _ in range(rng.randint(1, 4))), "n": self.nvals.pop()}
        d["c"] = d["n"] % 5         # derived (no draw): the value of the column-only field, 5 groups
        if rng.random() < 0.5:
            d["k"] = " ".join(sorted(rng.sample(["red", "green", "blue"], rng.randint(1, 2))))
        for x in sorted(extras):    # fields added by add_field(): about 2/3 of the documents get a value
            if rng.random() < 0.67:
                d[x] = rng.choice(["hello", "world", "hello world"])
        self.by_n[d["n"]] = d       # n is unique per document VERSION: identifies a physically present deleted document
        return d


TX_KINDS = ["append", "append", "default", "default", "optimize", "delete-only", "update", "clear", "empty", "cancel"]


def gen_tx(rng, docgen, live_keys, kind=None, extras=()):
    kind = kind or rng.choice(TX_KINDS)
    ops = []
    live = sorted(live_keys)
    if kind in ("append", "default", "optimize", "clear", "cancel"):
        # a CLEAR without additions leaves an index without segments (EmptyReader)
        for _ in range(rng.randint(0 if kind == "clear" and rng.random() < 0.4 else 1, 3)):
            ops.append(("add", docgen.doc(extras=extras)))
        if live and kind != "clear" and rng.random() < 0.4:
            ops.append(("del", rng.choice(live)))
    elif kind == "delete-only":
        if live:
            for k in rng.sample(live, min(len(live), rng.randint(1, 2))):
                ops.append(("del", k))
    elif kind == "update":
        if live:
            ops.append(("upd", docgen.doc(rng.choice(live), extras=extras)))
        ops.append(("add", docgen.doc(extras=extras)))
    return {"kind": kind, "ops": ops}


# schema transactions (only in schedules whose index handles were all obtained through Storage.open_index(), i.e. no
# Schema object is shared between writers and readers): add_field(x<n>, TEXT(stored=True)) + documents that use the new
# field, committed without merging (the readers of the old segments stay re-usable for refresh()) or with the default
# merge; remove_field(x<n>) (+ possibly a document). A field name is never used twice in a schedule.
def gen_schema_tx(rng, docgen, live_keys, extras, env):
    extras = sorted(extras)
    ops = []
    if extras and (len(extras) >= 2 or rng.random() < 0.4):
        x = rng.choice(extras)
        rest = [e for e in extras if e != x]
        for _ in range(rng.randint(0, 1)):
            ops.append(("add", docgen.doc(extras=rest)))
        return {"kind": "remove-field", "ops": ops, "schema_ops": [("remf", x)]}
    env.nfields += 1
    x = "x%d" % env.nfields
    for i in range(rng.randint(1, 2)):
        d = docgen.doc(extras=extras)
        d[x] = rng.choice(["hello", "world", "hello world"]) if i else rng.choice(["hello", "hello world"])
        ops.append(("add", d))
    live = sorted(live_keys)
    if live and rng.random() < 0.3:
        ops.append(("del", rng.choice(live)))
    return {"kind": rng.choice(["add-field", "add-field", "add-field-merge"]), "ops": ops, "schema_ops": [("addf", x)]}


# transactions that change the deletion SET of existing segments by document number (all committed with merge=False, so
# that the segments keep their identity and a refresh() meets "same segment, other deletions"):
#   undelete        writer.delete_document(docnum, delete=False) of a physically present deleted document
#   swapdel         un-delete one document and delete another one OF THE SAME SEGMENT: its deletion COUNT stays equal
#   swapdel-append  the same, and new documents are added (a new segment is appended, an old one changes deletions only)
#   olddel-append   documents of the OLDEST segment are deleted by number while a new segment is appended
SEG_TX_KINDS = ["undelete", "swapdel", "swapdel", "swapdel-append", "olddel-append"]


def segment_view(w):
    """[(segment id, [(writer-global docnum, key, n, deleted?)])] read through the public IndexWriter.reader()."""
    out = []
    r = w.reader()
    try:
        for lr, off in r.leaf_readers():
            rows = []
            for dn in range(lr.doc_count_all()):
                sf = lr.stored_fields(dn)
                rows.append((off + dn, sf.get("id"), sf.get("n"), bool(lr.is_deleted(dn))))
            seg = lr.segment()
            out.append((seg.segment_id() if seg is not None else None, rows))
    finally:
        r.close()
    return out


def gen_seg_tx(rng, docgen, live_keys, view, kind, extras=()):
    """A transaction of one of SEG_TX_KINDS over the writer's segments (`view`); when the index has no suitable deleted
    document yet it degrades to a deletion by number (kind 'deldoc-only'), which makes later swaps possible."""
    live = set(live_keys)
    ops = []
    # rows that can be un-deleted: deleted, their key is not live (keys stay unique), their content is known
    cands = []
    for si, (sid, rows) in enumerate(view):
        dead = [r for r in rows if r[3] and r[1] not in live and r[2] in docgen.by_n]
        alive = [r for r in rows if not r[3] and r[1] in live]
        cands.append((si, dead, alive))
    if kind == "olddel-append":
        for si, dead, alive in cands:
            if alive:
                for r in rng.sample(alive, min(len(alive), rng.randint(1, 2))):
                    ops.append(("deldoc", r[1], r[0]))
                break
        for _ in range(rng.randint(1, 2)):
            ops.append(("add", docgen.doc(extras=extras)))
        return {"kind": kind, "ops": ops}
    if kind == "undelete":
        pool = [c for c in cands if c[1]]
        if pool:
            si, dead, alive = rng.choice(pool)
            r = rng.choice(dead)
            ops.append(("undel", docgen.by_n[r[2]], r[0]))
            return {"kind": kind, "ops": ops, "segment": view[si][0]}
    else:
        pool = [c for c in cands if c[1] and c[2]]
        if pool:
            si, dead, alive = rng.choice(pool)
            r1, r2 = rng.choice(dead), rng.choice(alive)
            ops.append(("undel", docgen.by_n[r1[2]], r1[0]))
            ops.append(("deldoc", r2[1], r2[0]))
            if kind == "swapdel-append":
                for _ in range(rng.randint(1, 2)):
                    ops.append(("add", docgen.doc(extras=extras)))
            return {"kind": kind, "ops": ops, "segment": view[si][0]}
    pool = [r for c in cands for r in c[2]]
    if pool:
        r = rng.choice(pool)
        ops.append(("deldoc", r[1], r[0]))
    return {"kind": "deldoc-only", "ops": ops}


def apply_tx(w, tx):
    for sop in tx.get("schema_ops") or ():
        if sop[0] == "addf":
            from whoosh import fields
            w.add_field(sop[1], fields.TEXT(stored=True))
        else:
            w.remove_field(sop[1])
    for op in tx["ops"]:
        if op[0] == "add":
            w.add_document(**op[1])
        elif op[0] == "upd":
            w.update_document(**op[1])
        elif op[0] == "undel":
            w.delete_document(op[2], delete=False)
        elif op[0] == "deldoc":
            w.delete_document(op[2])
        else:
            w.delete_by_term("id", op[1])


def finish_tx(w, tx):
    from whoosh import writing
    kind = tx["kind"]
    if kind == "cancel":
        w.cancel()
    elif kind in ("append", "delete-only", "update", "empty", "undelete", "swapdel", "swapdel-append",
                  "olddel-append", "deldoc-only", "add-field", "remove-field"):
        w.commit(merge=False)
    elif kind in ("default", "add-field-merge"):
        w.commit()
    elif kind == "optimize":
        w.commit(optimize=True)
    elif kind == "clear":
        w.commit(mergetype=writing.CLEAR)
    else:
        raise ValueError(kind)


def slim_tx(tx):
    return {"kind": tx["kind"], "compound": tx.get("compound"), "schema_ops": tx.get("schema_ops"),
            "ops": [(op[0], op[1] if op[0] in ("del", "deldoc") else op[1]["id"]) + tuple(op[2:]) for op in tx["ops"]]}


# ----------------------------------------------------------------------
# threads
# ----------------------------------------------------------------------

class Env(object):
    pass


def writer_thread(env, k):
    from whoosh import index
    rng = random.Random("c03-writer:%s:%d" % (env.tag, k))
    H, s, ix, ctx = env.H, env.sched, env.ix, env.ctx
    tid = s.current()
    for j in range(env.ntx):
        if s.aborted or env.stop:
            break
        if rng.random() < 0.6:
            s.pause(rng.choice([1, 20, 200, 600]))
        try:
            w = ix.writer(timeout=rng.choice([0.0, 30.0, 30.0, 30.0]), delay=0.02,
                          compound=env.compound_for(rng))
        except index.LockError:
            ctx.count("writer.lockerror")
            continue
        live = H.model(w.generation - 1)
        extras = H.extras(w.generation - 1)
        if env.schema_tx and rng.random() < 0.3:
            tx = gen_schema_tx(rng, env.docgen, live, extras, env)
        elif rng.random() < 0.3:
            # deletion-set changes by document number (un-delete, same-count swap, old segment only + appended segment)
            tx = gen_seg_tx(rng, env.docgen, live, segment_view(w), rng.choice(SEG_TX_KINDS), extras)
        else:
            tx = gen_tx(rng, env.docgen, live, extras=extras)
        tx["compound"] = bool(w.compound)
        env.txlog.append((k, j, slim_tx(tx)))
        ctx.count("tx.kind." + tx["kind"])
        H.pending[tid] = tx
        apply_tx(w, tx)
        finish_tx(w, tx)
        H.pending.pop(tid, None)
    env.writers_done += 1
    return "done"


def loose_orphans(H, reader):
    """Loose segments of this reader of which at least one file has been removed (tap) so far."""
    segs = reader.segments() or []
    out = []
    for seg in segs:
        try:
            comp = seg.is_compound()
        except Exception:  # noqa
            comp = True
        sid = seg.segment_id()
        if not comp and sid in H.removed:
            out.append(sid)
    return out


def judge(env, monitor, what, reader, got, errs, exp, base_w, parts_checked, n0=0, read_before=None):
    """Compare `got` (fingerprint) with `exp`. Returns True when it agrees (and then adds the parts to `read_before`,
    the set of parts this searcher object has read correctly so far). Disagreements that are exactly the listed
    loose-segment mechanism - which requires that NONE of the failing parts had been read by this searcher before -
    are recorded under the known mech; everything else is a violation."""
    H, ctx = env.H, env.ctx
    if read_before is None:
        read_before = set()
    bad_parts = differing_parts(dict((p, got.get(p)) for p in parts_checked if p in exp or p in got),
                                dict((p, exp.get(p)) for p in parts_checked if p in exp or p in got))
    bad_parts = [p for p in bad_parts if p not in errs]
    if "keys" in errs:
        # every other part needs the docnum -> key mapping (stored fields): it was not evaluated, not wrong
        bad_parts = [p for p in bad_parts if p == "doc_count"]
    err_parts = sorted(errs)
    if not bad_parts and not err_parts:
        read_before.update(parts_checked)      # no part raised: every one of them was evaluated
        return True
    orphans = loose_orphans(H, reader)
    evidence = H.lazy_evidence(env.sched.current(), reader, n0)
    w = dict(base_w)
    # a part that this very searcher has already read correctly has all its files open (W3PerDocReader caches the
    # handles): whatever was removed since, it must stay readable - never the listed finding
    reread = [p for p in bad_parts + err_parts if p in read_before]
    w.update({"what": what, "parts_differing": bad_parts, "parts_raising": dict((p, repr(errs[p])[:200]) for p in err_parts),
              "loose_segments_with_removed_files": orphans,
              "removed_files_looked_for_by_this_probe": evidence[:6],
              "parts_read_correctly_by_this_searcher_before": sorted(read_before),
              "failing_parts_already_read_before": reread})
    for p in bad_parts[:3]:
        w["got:" + p] = got.get(p)
        w["expected:" + p] = exp.get(p)
    detail = ""
    for p in err_parts[:1]:
        e = errs[p]
        detail = "".join(traceback.format_exception(type(e), e, e.__traceback__))[-2500:]
    lazy_only = all(p in COLUMN_BACKED for p in bad_parts + err_parts)
    loose_mechanism = bool(orphans and evidence and lazy_only and env.layout != "compound")
    if loose_mechanism and not reread:
        ctx.count("known.loose_lazy." + what)
        for p in bad_parts:
            ctx.count("known.loose_lazy.part.%s.differs" % p)
        for p in err_parts:
            ctx.count("known.loose_lazy.part.%s.raises.%s" % (p, type(errs[p]).__name__))
        ctx.fail(monitor, KNOWN_LOOSE, w, detail)
        return False
    for p in err_parts:
        from vf.core import whoosh_site
        site, in_harness = whoosh_site(errs[p])
        if in_harness:
            from vf.core import HarnessError
            raise HarnessError("probe %s failed in the harness: %s" % (p, detail))
    if err_parts:
        e = errs[err_parts[0]]
        from vf.core import whoosh_site
        mech = "%s:%s-raises:%s@%s" % (what, _pclass(err_parts[0]), type(e).__name__, whoosh_site(e)[0])
    else:
        mech = "%s:%s-differs" % (what, "+".join(sorted(set(_pclass(p) for p in bad_parts))))
    if loose_mechanism:
        mech += ":part-already-read-by-this-searcher-before-the-files-were-removed"
    ctx.fail(monitor, mech, w, detail)
    env.stop = True
    return False


def _pclass(part):
    if part in ("schema", "extra_fields", "extra_search"):
        return "schema-part"
    return "column-backed-part" if part in COLUMN_BACKED else "term-index-part"


def open_searcher(env, rng, info, refresh_from=None):
    """ix.searcher() or searcher.refresh(), possibly parked inside for a transaction-long pause.
    Returns (searcher, completed_before) or (None, ...) when it raised (failure recorded)."""
    H, s, ix, ctx = env.H, env.sched, env.rix, env.ctx
    tid = s.current()
    with s.atomic():
        completed_before = H.completed
    if rng.random() < 0.45:
        inj = {"fired": None}
        H.inject[tid] = [rng.choice([1, 2, 2, 3, 4, 6]), rng.choice([30, 300, 800, 2500]), inj]
        info["inject"] = inj
    st = None
    removes_before = H.nremoves
    if env.lines is not None:
        # LINE-level: this call's line events are counted; at 0..2 of them (uniform over the number of lines the last
        # such call of this schedule executed) the reader is parked for a transaction-long pause
        lrng = env.lines_rng
        st = {"lines": 0, "park_at": set(), "park_at_fn": set(), "per_fn": {},
              "park_steps": lrng.choice([30, 300, 800, 2500]), "parked": []}
        kind_ = "refresh" if refresh_from is not None else "open"
        est = env.open_lines_est[kind_]
        seen_fns = env.open_fn_seen[kind_]
        for _ in range(lrng.choice([0, 1, 1, 1, 2])):
            if seen_fns and lrng.random() < 0.6:
                # uniform over the FUNCTIONS the last such call went through, then over that function's line events
                fn = lrng.choice(sorted(seen_fns))
                st["park_at_fn"].add((fn, lrng.randint(1, seen_fns[fn])))
            else:
                # uniform over the line events of the whole call (weights loops, e.g. the directory listing)
                st["park_at"].add(lrng.randint(1, max(2, est)))
        env.in_open[tid] = st
    try:
        if refresh_from is None:
            if rng.random() < 0.3:
                # a fresh Index object (what index.open_dir() does): its constructor reads the TOC, too
                info["via"] = "storage.open_index()"
                ctx.count("open.via_new_index_object")
                sr = env.storage.open_index().searcher()
            else:
                sr = ix.searcher()
        else:
            sr = refresh_from.refresh()
    except Exception as e:  # noqa
        from vf.core import HarnessError, whoosh_site
        from vf.sched import SchedAbort
        H.inject.pop(tid, None)
        env.in_open.pop(tid, None)
        if st is not None:
            info["line_level"] = {"line_events_inside": st["lines"], "parked_at": st["parked"][:3],
                                  "park_steps": st["park_steps"]}
        site, in_harness = whoosh_site(e)
        if in_harness:
            raise
        what = "refresh" if refresh_from is not None else "open"
        w = dict(env.wb)
        w.update(info)
        w["what"] = what
        ctx.fail("commit-state", "%s-raises:%s@%s" % (what, type(e).__name__, site), w,
                 "".join(traceback.format_exception(type(e), e, e.__traceback__))[-2500:])
        env.stop = True
        return None, completed_before
    H.inject.pop(tid, None)
    env.in_open.pop(tid, None)
    if info.get("inject") and info["inject"]["fired"]:
        ctx.count("open.paused_inside")
    # reach: did a commit complete (writer lock released) / were segment files removed while this reader was INSIDE
    # ix.searcher() / refresh()?
    what = "refresh" if refresh_from is not None else "open"
    with s.atomic():
        completed_inside = H.completed > completed_before
        removed_inside = H.nremoves > removes_before
    if completed_inside:
        ctx.count("inside_open.commit_completed")
    if removed_inside:
        ctx.count("inside_open.segment_files_removed")
    if st is not None:
        info["line_level"] = {"line_events_inside": st["lines"], "parked_at": st["parked"][:3],
                              "park_steps": st["park_steps"]}
        ctx.count("lines.%s.calls" % what)
        ctx.count("lines.%s.line_events_inside" % what, st["lines"])
        if st["lines"]:
            env.open_lines_est[what] = st["lines"]
            env.open_fn_seen[what] = st["per_fn"]
        if st["parked"]:
            ctx.count("lines.parked_inside_open", len(st["parked"]))
            for fn, _ in st["parked"]:
                env.lines_parked[fn] = env.lines_parked.get(fn, 0) + 1
        if completed_inside:
            ctx.count("lines.%s.commit_completed_inside" % what)
            env.lines_commit_inside += 1
            if st["parked"]:
                ctx.count("lines.commit_completed_while_parked_at_a_line")
        if removed_inside:
            ctx.count("lines.%s.segment_files_removed_inside" % what)
            env.lines_removed_inside += 1
    return sr, completed_before


def check_fresh(env, what, sr, completed_before, info, content=True):
    """(ii): generation at least the completed one; content equals the model of the reported generation.
    Returns the generation, None after a violation, or "known" after the listed finding."""
    H, ctx = env.H, env.ctx
    r = sr.reader()
    g = r.generation()
    w = dict(env.wb)
    w.update(info)
    w["what"] = what
    w["reader_generation"] = g
    w["completed_before_call"] = completed_before
    ctx.count(what + ".evals")
    if g is None or g < completed_before or g not in H.known_generations():
        ctx.fail("commit-state", "%s:generation-%s" % (what, "none" if g is None else
                                                        ("older-than-completed-commit" if g < completed_before
                                                         else "unknown")), w,
                 "reader reports generation %r; commit %r had completed before the call; published %r" % (
                     g, completed_before, H.known_generations()[-6:]))
        env.stop = True
        return None
    if not content:
        return g
    model = H.model(g)
    errs = {}
    n0 = env.tap.n
    fp = fingerprint(sr, parts=OPEN_PARTS, errors=errs)
    exp = expected(model, parts=OPEN_PARTS, extras=H.extras(g))
    ctx.count(what + ".content_evals")
    if not judge(env, "commit-state", what, r, comparable(fp), errs, exp, w, OPEN_PARTS, n0, parts_read_ok(sr)):
        return None if env.stop else "known"
    bad = freq_ok(fp, model)
    if bad:
        w["bad_frequencies"] = bad[:5]
        ctx.fail("commit-state", "%s:posting-frequency-differs" % what, w)
        env.stop = True
        return None
    return g


def _drop(sr):
    try:
        sr.close()
    except Exception:  # noqa
        pass
    return None


def reader_thread(env, k):
    rng = random.Random("c03-reader:%s:%d" % (env.tag, k))
    H, s, ix, ctx = env.H, env.sched, env.rix, env.ctx
    it = 0
    final_done = False
    sr = None
    fresh = False
    while not (s.aborted or env.stop):
        writers_done = env.writers_done >= env.nwriters
        if it >= env.max_iters or (writers_done and final_done):
            break
        if writers_done:
            final_done = True
        it += 1
        ctx.count("reader.iterations")
        # pretouched: every part is read at open time and again after the hold
        # lazy:       stored fields / term index at open time; lengths, vectors, columns, searches first after the hold
        # untouched:  nothing but the generation at open time; every part is first read after the hold
        mode = rng.choice(["pretouched", "pretouched", "lazy", "lazy", "untouched"])
        info = {"reader_thread": k, "iteration": it, "mode": mode}
        if sr is None:
            sr, cb = open_searcher(env, rng, info)
            if sr is None:
                break
            g = check_fresh(env, "open", sr, cb, info, content=(mode != "untouched"))
            if g is None:
                break
            if g == "known":
                sr = _drop(sr)
                continue
        else:
            g = sr.reader().generation()
            if not fresh:
                mode = "pretouched" if mode == "untouched" else mode
        fresh = False
        info["generation"] = g
        model = H.model(g)
        r = sr.reader()
        w = dict(env.wb)
        w.update(info)
        # ---- first probe
        fp0, errs0 = None, {}
        if mode == "pretouched":
            n0 = env.tap.n
            fp0 = fingerprint(sr, errors=errs0)
            if not judge(env, "held-snapshot", "probe-at-open", r, comparable(fp0), errs0, expected(model, extras=H.extras(g)), w,
                         ALL_PARTS,
                         n0, parts_read_ok(sr)):
                if env.stop:
                    break
                sr = _drop(sr)
                continue
        ncommits0 = len(H.commits)
        # ---- dwell
        dwell = rng.choice([0, 5, 50, 300, 800, 2500])
        if dwell:
            s.pause(dwell)
        info["dwell_steps"] = dwell
        during = len(H.commits) - ncommits0
        info["commits_during_hold"] = during
        if during:
            ctx.count("held.iterations_with_commit")
            ctx.count("held.commits_during_hold", during)
            env.modes_with_commit.add(mode)
            if mode != "pretouched":
                ctx.count("held.lazy_first_touch_after_commit")
            if mode == "untouched":
                ctx.count("held.everything_first_touched_after_commit")
        if loose_orphans(H, r):
            ctx.count("held.loose_segment_files_removed_during_hold")
            # the situations in which the two-level oracle must NOT excuse a failure: this searcher re-reads, after
            # files of its loose segments were removed, parts that it has already read
            before = parts_read_ok(sr)
            if before & set(COLUMN_BACKED):
                ctx.count("held.loose_removed.reread_of_parts_read_before")
            if before.issuperset(USER_COLUMN_PARTS):
                ctx.count("held.loose_removed.reread_of_user_columns_read_before")
        # ---- second probe: equals the model of ITS generation (and the first probe, scores included)
        w = dict(env.wb)
        w.update(info)
        errs1 = {}
        n0 = env.tap.n
        fp1 = fingerprint(sr, errors=errs1)
        ctx.count("held.evals")
        if not judge(env, "held-snapshot", "probe-after-hold", r, comparable(fp1), errs1, expected(model, extras=H.extras(g)),
                     w, ALL_PARTS,
                     n0, parts_read_ok(sr)):
            if env.stop:
                break
            sr = _drop(sr)         # listed finding: this searcher is of no further use
            continue
        bad = freq_ok(fp1, model)
        if bad:
            w["bad_frequencies"] = bad[:5]
            ctx.fail("held-snapshot", "probe-after-hold:posting-frequency-differs", w)
            env.stop = True
            break
        if fp0 is not None and fp0 != fp1:
            w["parts_differing"] = differing_parts(fp0, fp1)
            for p in w["parts_differing"][:2]:
                w["before:" + p], w["after:" + p] = fp0.get(p), fp1.get(p)
            ctx.fail("held-snapshot", "fingerprint-changed-during-hold:%s" % "+".join(
                sorted(set(_pclass(p) for p in w["parts_differing"]))), w)
            env.stop = True
            break
        # ---- (iii)
        if env.lines is not None and env.lines_rng.random() < 0.5:
            # LINE-level schedules, half of the evaluations: up_to_date() runs with scheduling points between its lines.
            # Generations only grow, so with lo / hi = latest generation read (atomically) just before / after the call:
            # g < lo => a newer generation existed during the whole call => False; lo == hi == g => g was the latest
            # during the whole call => True; otherwise a commit was published meanwhile and either answer is right
            try:
                with s.atomic():
                    lo = ix.latest_generation()
                u = sr.up_to_date()
                with s.atomic():
                    hi = ix.latest_generation()
            except Exception as e:  # noqa
                from vf.core import whoosh_site
                site, in_harness = whoosh_site(e)
                if in_harness:
                    raise
                ctx.fail("up_to_date", "raises:%s@%s" % (type(e).__name__, site), w, traceback.format_exc()[-2000:])
                env.stop = True
                break
            ctx.count("uptodate.line_level_evals")
            want = False if g < lo else (True if lo == hi == g else None)
            if want is None:
                ctx.count("uptodate.line_level_undecided")
            else:
                ctx.count("uptodate.line_level_decided_%s" % want)
                if bool(u) != want:
                    w.update({"up_to_date": u, "reader_generation": g, "latest_before_call": lo, "latest_after_call": hi})
                    ctx.fail("up_to_date", "line-level:says-%s-but-generation-%s-latest" % (
                        bool(u), "is" if want else "is-not"), w)
                    env.stop = True
                    break
        else:
            with s.atomic():
                try:
                    u = sr.up_to_date()
                    latest = ix.latest_generation()
                except Exception as e:  # noqa
                    from vf.core import whoosh_site
                    site, in_harness = whoosh_site(e)
                    if in_harness:
                        raise
                    ctx.fail("up_to_date", "raises:%s@%s" % (type(e).__name__, site), w, traceback.format_exc()[-2000:])
                    env.stop = True
                    break
            ctx.count("uptodate.evals")
            ctx.count("uptodate.true" if u else "uptodate.false")
            if bool(u) != (g == latest):
                w.update({"up_to_date": u, "reader_generation": g, "latest_generation": latest})
                ctx.fail("up_to_date", "says-%s-but-generation-%s-latest" % (bool(u), "is" if g == latest else "is-not"), w)
                env.stop = True
                break
        # ---- refresh or close
        act = rng.choice(["refresh", "refresh", "close", "keep"])
        if act == "close":
            sr.close()
            sr = None
        elif act == "refresh":
            old_segs = set(seg.segment_id() for seg in (r.segments() or []))
            old_leaves = set(id(lr) for lr, _ in r.leaf_readers())
            old_dels = dict((seg.segment_id(), frozenset(seg.deleted_docs())) for seg in (r.segments() or []))
            info2 = dict(info)
            info2["refresh_from_generation"] = g
            s2, cb = open_searcher(env, rng, info2, refresh_from=sr)
            if s2 is None:
                break
            if s2 is sr:
                ctx.count("refresh.returned_self")
            g2 = check_fresh(env, "refresh", s2, cb, info2)
            if g2 is None:
                break
            if g2 == "known":
                sr = _drop(s2)
                continue
            if env.layout == "compound":
                # "sees exactly that commit's state" also for the scored search API: the refreshed searcher must score as
                # a searcher newly made over the very same reader does (no statistic carried over from the old generation)
                from whoosh import query as _q
                from whoosh.searching import Searcher as _Searcher
                qq = _q.Or([_q.Term("t", "alfa"), _q.Term("t", "bravo")])
                try:
                    got_a = [(h["id"], round(h.score, 6)) for h in s2.search(qq, limit=None)]
                    got_b = [(h["id"], round(h.score, 6)) for h in _Searcher(s2.reader()).search(qq, limit=None)]
                except Exception:  # noqa - errors of reads are judged by the fingerprint monitors
                    ctx.count("refresh.scored_compare_errors")
                else:
                    ctx.count("refresh.scored_vs_new_searcher")
                    if got_a != got_b:
                        w_ = dict(env.wb)
                        w_.update(info2)
                        w_.update(refreshed=got_a[:8], new_searcher_on_same_reader=got_b[:8], generation=g2)
                        ctx.fail("commit-state", "refresh:scored-search-differs-from-a-new-searcher-on-the-same-reader", w_)
                        env.stop = True
                        break
            r2 = s2.reader()
            new_segs = set(seg.segment_id() for seg in (r2.segments() or []))
            if old_segs - new_segs and g2 != g:
                ctx.count("refresh.after_merge")
            if g2 != g and any(id(lr) in old_leaves for lr, _ in r2.leaf_readers()):
                ctx.count("refresh.reused_segment_readers")
            if g2 != g:
                ctx.count("refresh.to_newer_generation")
                if H.extras(g) != H.extras(g2):
                    # add_field() / remove_field() committed in between: open readers carry the Schema of their time
                    ctx.count("refresh.across_schema_change")
                    if old_segs & new_segs:
                        ctx.count("refresh.across_schema_change_with_kept_segments")
                # segments that survive the refresh with OTHER deletions (their open readers must not be re-used as
                # they are), in particular with the same NUMBER of deletions (un-delete one, delete another)
                changed = same_count = regrown = 0
                for seg in (r2.segments() or []):
                    od = old_dels.get(seg.segment_id())
                    if od is None:
                        continue
                    nd = frozenset(seg.deleted_docs())
                    if nd != od:
                        changed += 1
                        same_count += len(nd) == len(od)
                        regrown += bool(od - nd)
                if changed:
                    ctx.count("refresh.kept_segment_with_changed_deletions")
                    if len(new_segs - old_segs) > 0:
                        ctx.count("refresh.kept_segment_with_changed_deletions_and_new_segment")
                if same_count:
                    ctx.count("refresh.kept_segment_with_same_count_other_deletions")
                if regrown:
                    ctx.count("refresh.kept_segment_with_undeleted_document")
            sr = s2
            fresh = True
        s.yield_("reader-iteration", lower=True)
    if sr is not None:
        _drop(sr)
    return "done"


# ----------------------------------------------------------------------
# LINE-level scheduling points inside the code a reader runs when it opens / refreshes
# ----------------------------------------------------------------------

def reader_side_codes():
    """The code objects (nested functions included) of what ix.searcher() / Searcher.refresh() / up_to_date() execute:
    TOC listing and reading, reader construction and re-use, opening of segment files (plain, compound, overlay, RAM)
    and the W3 codec's reader constructors.  Only these get sys.monitoring LINE events (cost)."""
    import types
    import whoosh.codec.base as cb
    import whoosh.codec.whoosh3 as w3
    import whoosh.filedb.compound as cp
    import whoosh.filedb.filestore as fs
    import whoosh.index as wi
    import whoosh.reading as wr
    import whoosh.searching as ws
    spec = [
        (wi, ["_same_deletions"]),
        (wi.Index, ["searcher"]),
        (wi.FileIndex, ["__init__", "reader", "_reader", "latest_generation", "_read_toc"]),
        (wi.TOC, ["__init__", "read", "_latest_generation", "_filename", "_pattern"]),
        (wr.IndexReader, ["leaf_readers", "generation"]),
        (wr.SegmentReader, ["__init__", "close", "generation", "segment"]),
        (wr.MultiReader, ["__init__", "close", "generation", "leaf_readers"]),
        (wr.EmptyReader, ["__init__", "generation"]),
        (ws.Searcher, ["__init__", "refresh", "up_to_date", "close"]),
        (fs.Storage, ["open_index", "__iter__"]),
        (fs.OverlayStorage, ["__init__", "open_file", "file_exists", "file_length", "list", "close"]),
        (fs.FileStorage, ["open_file", "list", "file_exists", "file_length"]),
        (fs.RamStorage, ["open_file", "list", "file_exists", "file_length"]),
        (cp.CompoundStorage, ["__init__", "open_file", "range", "file_exists", "file_length", "close"]),
        (cb.Segment, ["open_compound_file", "open_file", "is_compound"]),
        (w3.W3Codec, ["terms_reader", "per_document_reader"]),
        (w3.W3PerDocReader, ["__init__", "close"]),
        (w3.W3TermsReader, ["__init__", "close"]),
    ]
    seen = {}
    src = os.path.dirname(os.path.abspath(wi.__file__))

    def add_code(co):
        if id(co) in seen or not os.path.abspath(co.co_filename).startswith(src):
            return              # (never harness code: the tap replaces some RamStorage methods while it is installed)
        seen[id(co)] = co
        for c in co.co_consts:
            if isinstance(c, types.CodeType):
                add_code(c)
    for owner, names in spec:
        for nm in names:
            o = vars(owner).get(nm)
            if isinstance(o, (staticmethod, classmethod)):
                o = o.__func__
            if isinstance(o, types.FunctionType):
                add_code(o.__code__)
    return list(seen.values())


_CODES = []


def reader_side_codes_cached():
    """Computed once per process, BEFORE the first tap is installed (so that the real RamStorage methods are seen)."""
    if not _CODES:
        _CODES.extend(reader_side_codes())
    return _CODES


def make_reader_lines(S, sched, env, prob, seed, no_yield_when):
    """LineYields restricted to reader_side_codes().  Besides the seeded per-line yields (every managed thread), a
    reader that is INSIDE ix.searcher() / refresh() can be parked at one chosen LINE event of that call for a
    transaction-long pause, so that whole commits + clean_files land between two lines of the opening code."""

    class ReaderLines(S.LineYields):
        def _cb(self, code, line):
            s = self.sched
            t = s._cur()
            if t is None or t.atomic or s.aborted:
                return None
            if self.no_yield_when is not None and self.no_yield_when():
                return None
            self.fired += 1
            st = env.in_open.get(t.tid)
            if st is not None:
                st["lines"] += 1
                fn = code.co_qualname
                env.lines_inside[fn] = env.lines_inside.get(fn, 0) + 1
                k = st["per_fn"][fn] = st["per_fn"].get(fn, 0) + 1
                if st["lines"] in st["park_at"] or (fn, k) in st["park_at_fn"]:
                    st["parked"].append((fn, line))
                    s.pause(st["park_steps"])
                    return None
            if self.prob < 1.0 and self.rng.random() >= self.prob:
                return None
            self.yields += 1
            fn = code.co_qualname
            env.line_yields[fn] = env.line_yields.get(fn, 0) + 1
            s._switch(t, ("line", code.co_name, line), False)
            return None

    ly = ReaderLines(sched, [], prob=prob, seed=seed, exclude=("__del__",), no_yield_when=no_yield_when)
    ly.codes = [c for c in reader_side_codes_cached() if c.co_name != "__del__"]
    return ly


# ----------------------------------------------------------------------
# one schedule
# ----------------------------------------------------------------------

def run_thread_case(ctx, idx, rng, lines=False):
    from vf import sched as S
    from vf.tap import Tap
    from whoosh import index
    from whoosh.filedb.filestore import FileStorage, RamStorage
    storage = ["file-mmap", "file-nommap", "ram"][rng.randrange(3)]
    layout = rng.choice(["compound", "compound", "loose", "mixed"])
    nwriters = rng.choice([1, 1, 2])
    nreaders = rng.choice([1, 2, 2, 3])
    ntx = rng.randint(2, 4)
    pol = S.draw_policy(rng, horizon=rng.choice([500, 3000, 8000]))
    sseed = rng.randrange(1 << 30)
    wb = {"case": idx, "storage": storage, "layout": layout, "writers": nwriters, "readers": nreaders,
          "tx_per_writer": ntx, "policy": pol, "sched_seed": sseed}
    # schema transactions (add_field / remove_field): then EVERY index handle comes from Storage.open_index(), so that
    # no Schema object is shared between the writers and the readers (each TOC read unpickles its own)
    schema_tx = rng.random() < 0.35
    wb["schema_transactions"] = schema_tx
    if schema_tx:
        ctx.count("schema.schedules")
    line_prob = None
    if lines:
        line_prob = rng.choice([0.02, 0.1, 0.3, 0.6])
        wb["kind"] = "threads+lines"
        wb["line_yield_probability"] = line_prob
    ctx.count("schedules")
    ctx.count("storage.%s.schedules" % storage)
    ctx.count("popA.schedules" if layout == "compound" else "popB.schedules")
    ctx.count("policy." + pol["policy"])
    reader_side_codes_cached()
    root = tempfile.mkdtemp(prefix="vf-c03-")
    tap = Tap(root=root if storage != "ram" else tempfile.gettempdir(), unbuffered=False, track=False,
              tap_ram=(storage == "ram"), keep_events=False)
    tap.install()
    try:
        if storage == "ram":
            st = RamStorage()
        else:
            st = FileStorage(root, supports_mmap=(storage == "file-mmap"))
        ix = st.create_index(make_schema())

        def compound_for(r):
            return {"compound": True, "loose": False, "mixed": r.random() < 0.5}[layout]
        docgen = DocGen(rng)
        model0 = {}
        prelude = []

        def run_prelude():
            for p in range(rng.randint(1, 4)):
                w = ix.writer(compound=compound_for(rng))
                tx = gen_tx(rng, docgen, model0, kind="append")
                prelude.append(slim_tx(tx))
                apply_tx(w, tx)
                w.commit(merge=False)
                for op in tx["ops"]:
                    if op[0] == "del":
                        model0.pop(op[1], None)
                    else:
                        model0[op[1]["id"]] = op[1]
        wb["prelude"] = prelude
        okp, _ = ctx.guard("no-exception", wb, run_prelude)
        if not okp:
            ctx.case(("prelude-failed", storage, layout), False)
            return
        g0 = ix.latest_generation()
        wb["prelude"] = prelude
        s = S.Scheduler(sseed, max_steps=ctx.pick(200000, 400000) * (2 if lines else 1), watchdog_s=90, stall_s=15,
                        **pol)
        H = History(s, tap, g0, model0)
        env = Env()
        env.ctx, env.H, env.sched, env.ix, env.tap, env.wb = ctx, H, s, ix, tap, wb
        env.storage = st
        env.rix = ix
        env.schema_tx, env.nfields = schema_tx, 0
        if schema_tx:
            env.ix, env.rix = st.open_index(), st.open_index()
        env.layout, env.compound_for, env.docgen = layout, compound_for, docgen
        env.ntx, env.nwriters, env.writers_done, env.stop = ntx, nwriters, 0, False
        env.max_iters = ctx.pick(25, 40)
        env.txlog = []
        wb["transactions"] = env.txlog
        env.modes_with_commit = set()
        env.tag = "%d:%d:%d" % (ctx.seed, idx, sseed)
        env.lines = None
        env.in_open, env.lines_inside, env.line_yields, env.lines_parked = {}, {}, {}, {}
        env.lines_commit_inside = env.lines_removed_inside = 0
        env.open_lines_est = {"open": 120, "refresh": 120}
        env.open_fn_seen = {"open": {}, "refresh": {}}
        env.lines_rng = random.Random("c03-lines:%s" % env.tag)
        if lines:
            env.lines = make_reader_lines(S, s, env, line_prob, sseed, tap._lock.locked)
        tap.on_event = H.on_event
        for k in range(nwriters):
            s.spawn("w%d" % k, writer_thread, env, k)
        for k in range(nreaders):
            s.spawn("r%d" % k, reader_thread, env, k)
        ram_saved = None
        if storage == "ram":
            # existence / length probes of RamStorage are no tap events; log them (no scheduling point) so that the
            # classifier of the listed finding has the same evidence as on disk
            # LINE-level schedules have scheduling points INSIDE RamStorage.file_exists / file_length / open_file (between
            # the call and the dictionary look-up), so a look-up that did not find the file is logged again when it
            # returns: that is the moment that counts for "the file had been removed when it was looked for"
            ram_saved = (RamStorage.file_exists, RamStorage.file_length, RamStorage.open_file)

            def file_exists(self_, name, _f=ram_saved[0]):
                if self_ is st:
                    H.ram_probe(name)
                found = _f(self_, name)
                if self_ is st and not found:
                    H.ram_probe(name)
                return found

            def file_length(self_, name, _f=ram_saved[1]):
                if self_ is st:
                    H.ram_probe(name)
                try:
                    return _f(self_, name)
                except IOError:
                    if self_ is st:
                        H.ram_probe(name)
                    raise

            def open_file(self_, name, _f=ram_saved[2], **kw):
                try:
                    return _f(self_, name, **kw)
                except IOError:
                    if self_ is st:
                        H.ram_probe(name)
                    raise
            RamStorage.file_exists, RamStorage.file_length, RamStorage.open_file = file_exists, file_length, open_file
        try:
            if env.lines is not None:
                env.lines.install()
            with S.WhooshPatches(s) as patches:
                out = s.run()
        finally:
            if env.lines is not None:
                env.lines.uninstall()
            if ram_saved is not None:
                RamStorage.file_exists, RamStorage.file_length, RamStorage.open_file = ram_saved
        tap.on_event = None
        if env.lines is not None:
            ctx.count("lines.schedules")
            ctx.count("lines.events", env.lines.fired)
            ctx.count("lines.yields", env.lines.yields)
            for fn, c in env.line_yields.items():
                ctx.count("lines.yields_in." + fn, c)
            for fn, c in env.lines_inside.items():
                ctx.count("lines.inside_open_events_in." + fn, c)
            for fn, c in env.lines_parked.items():
                ctx.count("lines.parked_in." + fn, c)
            if env.lines_commit_inside:
                ctx.count("lines.schedules_with_commit_completed_inside_open")
            if env.lines_removed_inside:
                ctx.count("lines.schedules_with_segment_files_removed_inside_open")
        ctx.count("sched.steps", out.steps)
        ctx.count("sched.switches", out.switches)
        ctx.count("sched.status." + out.status)
        ctx.count("commits.published", len(H.commits))
        ctx.count("reader.open_retries", patches.index_sleeps)
        hashes = ctx.extra.setdefault("_hashes", set())
        hsh = out.schedule_hash()
        if hsh not in hashes:
            hashes.add(hsh)
            ctx.count("interleavings.distinct")
        wb["schedule_steps"], wb["schedule_hash"] = out.steps, hsh
        if out.status != "ok":
            ctx.count("sched.inconclusive")
            ctx.note("case %d: scheduler status %s after %d steps (%r)" % (idx, out.status, out.steps, out.stuck))
        for name, e in sorted(out.errors.items()):
            from vf.core import HarnessError, whoosh_site
            site, in_harness = whoosh_site(e)
            if in_harness:
                raise HarnessError("thread %s of case %d failed in the harness:\n%s" % (name, idx, out.tracebacks[name]))
            w = dict(wb)
            w["thread"] = name
            ctx.fail("no-exception", "%s:exc:%s@%s" % ("writer" if name.startswith("w") else "reader",
                                                      type(e).__name__, site), w, out.tracebacks[name])
        kinds = tuple(sorted(set(t[2]["kind"] for t in env.txlog)))
        shape = (storage, layout, nwriters, nreaders, kinds, pol["policy"], tuple(sorted(env.modes_with_commit)))
        if lines:
            shape = shape + ("lines",)
        nontrivial = bool(env.modes_with_commit)
        sample = None
        if nontrivial:
            sample = {"case": dict((k, v) for k, v in wb.items() if k != "prelude"), "commits": len(H.commits),
                      "reader_modes_that_met_a_commit": sorted(env.modes_with_commit)}
        ctx.case(shape, nontrivial, sample)
    finally:
        tap.on_event = None
        tap.uninstall()
        shutil.rmtree(root, ignore_errors=True)


# ----------------------------------------------------------------------
# process variant
# ----------------------------------------------------------------------

def run_proc_case(ctx, idx, rng):
    from vf.core import ROOT, repo_root
    from whoosh import index
    from whoosh.filedb.filestore import FileStorage
    storage = rng.choice(["file-mmap", "file-nommap"])
    layout = rng.choice(["compound", "compound", "loose"])
    root = tempfile.mkdtemp(prefix="vf-c03p-")
    d = os.path.join(root, "ix")
    os.mkdir(d)
    wb = {"case": idx, "kind": "process", "storage": storage, "layout": layout}
    ctx.count("proc.histories")
    child = None
    ptap = None
    try:
        st = FileStorage(d, supports_mmap=(storage == "file-mmap"))
        ix = st.create_index(make_schema())
        docgen = DocGen(rng)
        model = {}
        compound = layout == "compound"
        w = ix.writer(compound=compound)
        tx = gen_tx(rng, docgen, model, kind="append")
        apply_tx(w, tx)
        w.commit(merge=False)
        for op in tx["ops"]:
            model[op[1]["id"]] = op[1]
        g0 = ix.latest_generation()
        # scripted transactions: the model of every generation is known in advance
        models = {g0: dict(model)}
        script = []
        g = g0
        # (thorough tier: 4 more transactions per history; the draws are the same in both tiers)
        for j in range(rng.randint(4, 8) + ctx.pick(0, 4)):
            tx = gen_tx(rng, docgen, model, kind=rng.choice([k for k in TX_KINDS if k != "cancel"]))
            script.append(tx)
            if tx["kind"] == "clear":
                model = {}
            for op in tx["ops"]:
                if op[0] == "del":
                    model.pop(op[1], None)
                else:
                    model[op[1]["id"]] = op[1]
            g += 1
            models[g] = dict(model)
        wb["script"] = [slim_tx(t) for t in script]
        job = os.path.join(root, "job.json")
        with open(job, "w") as f:
            json.dump({"dir": d, "script": script, "compound": compound, "seed": "%d:%d" % (ctx.seed, idx)}, f)
        env = dict(os.environ)
        env["PYTHONPATH"] = ROOT + os.pathsep + env.get("PYTHONPATH", "")
        env["PYTHONHASHSEED"] = "0"
        env["VERIF_REPO"] = repo_root()
        # passive tap in the parent: which segment files does a probe look for (evidence for the listed finding)
        from vf.tap import Tap
        ptap = Tap(root=d, unbuffered=False, track=False, keep_events=False)
        touched = []

        def p_on_event(n, kind, name, detail=None):
            if kind in ("open-r", "stat") and SEGRE.match(_base(name)):
                touched.append((n, _base(name)))
        ptap.on_event = p_on_event
        ptap.install()
        pev = {"tap": ptap, "touched": touched, "dir": d}
        child = subprocess.Popen([sys.executable, "-m", "vf.workers.c03_writer", job], cwd=ROOT, env=env,
                                 stdout=subprocess.PIPE, stderr=subprocess.STDOUT)
        deadline = time.time() + 90
        sr = None
        ok = True
        met_commit = False
        its = 0
        final = False
        while ok and time.time() < deadline:
            running = child.poll() is None
            if not running:
                if final:
                    break
                final = True
            its += 1
            ctx.count("proc.reader_iterations")
            info = {"iteration": its, "writer_running": running}
            w = dict(wb)
            w.update(info)
            try:
                if sr is None:
                    before = ix.latest_generation()
                    sr = ix.searcher()
                    what = "open"
                else:
                    before = ix.latest_generation()
                    sr = sr.refresh()
                    what = "refresh"
                r = sr.reader()
                g = r.generation()
                w["reader_generation"], w["latest_before_call"], w["what"] = g, before, what
                if g is None or g < before or g not in models:
                    ctx.fail("commit-state", "proc:%s:generation-%s" % (what, "older-than-completed-commit" if g is not None
                                                                         and g < before else "unknown"), w)
                    ok = False
                    break
                mode = rng.choice(["pretouched", "lazy"])
                errs = {}
                parts = ALL_PARTS if mode == "pretouched" else OPEN_PARTS
                pev["n0"] = ptap.n
                fp0 = fingerprint(sr, parts=parts, errors=errs)
                exp = expected(models[g], parts)
                ctx.count("proc.open_evals")
                if errs or differing_parts(comparable(fp0), exp):
                    if not _proc_known(ctx, layout, w, "proc:%s" % what, fp0, exp, errs, sr, pev):
                        ok = False
                        break
                    sr = None
                    continue
                parts_read_ok(sr).update(parts)
                time.sleep(rng.choice([0, 0.005, 0.05, 0.3]))
                held_latest = ix.latest_generation()
                if held_latest != g:
                    met_commit = True
                    ctx.count("proc.held_across_commit")
                errs = {}
                pev["n0"] = ptap.n
                fp1 = fingerprint(sr, errors=errs)
                exp = expected(models[g])
                ctx.count("proc.held_evals")
                if held_latest != g and layout != "compound" and parts_read_ok(sr).issuperset(USER_COLUMN_PARTS):
                    ctx.count("proc.loose.reread_of_user_columns_after_commit")
                if errs or differing_parts(comparable(fp1), exp) or (mode == "pretouched" and fp0 != fp1):
                    if not _proc_known(ctx, layout, w, "proc:probe-after-hold", fp1, exp, errs, sr, pev,
                                       changed=(differing_parts(fp0, fp1) if mode == "pretouched" else [])):
                        ok = False
                        break
                    sr = None
                    continue
                parts_read_ok(sr).update(ALL_PARTS)
                lo = ix.latest_generation()
                u = sr.up_to_date()
                hi = ix.latest_generation()
                ctx.count("proc.uptodate_evals")
                if (u and not (lo <= g <= hi)) or (not u and lo == hi == g and not running and child.poll() is not None and final):
                    w.update({"up_to_date": u, "latest_before": lo, "latest_after": hi})
                    ctx.fail("up_to_date", "proc:says-%s" % bool(u), w)
                    ok = False
                    break
                if rng.random() < 0.3:
                    sr.close()
                    sr = None
            except Exception as e:  # noqa
                from vf.core import whoosh_site
                site, in_harness = whoosh_site(e)
                if in_harness:
                    raise
                ctx.fail("commit-state", "proc:raises:%s@%s" % (type(e).__name__, site), w, traceback.format_exc()[-2500:])
                ok = False
        if child.poll() is None:
            child.kill()
            if ok:
                ctx.count("proc.writer_timeout")
                ctx.note("case %d: writer process still running at the deadline" % idx)
        outb = child.communicate()[0].decode("utf-8", "replace")
        if child.returncode == 3:
            m = re.search(r"C03-WORKER-WHOOSH-EXC (\S+)", outb)
            ctx.fail("no-exception", "proc:writer:exc:%s" % (m.group(1) if m else "?"), wb, outb[-2500:])
        elif child.returncode not in (0, -9):
            from vf.core import HarnessError
            raise HarnessError("c03 worker rc=%s: %s" % (child.returncode, outb[-2000:]))
        if ok and child.returncode == 0:
            # quiescent: everything committed, a fresh reader sees the final model and is up to date
            with ix.searcher() as s2:
                g = s2.reader().generation()
                fp = fingerprint(s2)
                if g != g0 + len(script) or differing_parts(comparable(fp), expected(models.get(g, {}))):
                    w = dict(wb)
                    w["reader_generation"] = g
                    ctx.fail("commit-state", "proc:final-state-differs", w)
                elif not s2.up_to_date():
                    ctx.fail("up_to_date", "proc:says-False-at-quiescence", wb)
                ctx.count("proc.final_checks")
        ctx.case(("proc", storage, layout, tuple(t["kind"] for t in script)), met_commit,
                 {"case": wb, "reader_iterations": its} if met_commit else None)
    finally:
        if ptap is not None:
            ptap.uninstall()
        if child is not None and child.poll() is None:
            child.kill()
            child.communicate()
        shutil.rmtree(root, ignore_errors=True)


def _proc_known(ctx, layout, w, what, fp, exp, errs, searcher, pev, changed=()):
    """Process variant: the removals happen in the other process, so the evidence for the listed finding is: during
    the failing probe the parent looked for (open-r / stat, passive tap) a file of a LOOSE segment of this reader that
    does not exist any more - and none of the failing parts had been read correctly by this searcher object before
    (`changed`: parts that differ from the first probe of the same iteration)."""
    reader = searcher.reader()
    read_before = parts_read_ok(searcher)
    cmpfp = comparable(fp)
    loose = set()
    for seg in (reader.segments() or []):
        if not seg.is_compound():
            loose.add(seg.segment_id())
    evidence = sorted(set(f for (n, f) in pev["touched"] if n > pev["n0"] and SEGRE.match(f).group(1) in loose
                          and not os.path.exists(os.path.join(pev["dir"], f))))
    bad = [p for p in differing_parts(cmpfp, dict((p, exp[p]) for p in exp if p in cmpfp or p not in errs)) if p not in errs]
    if "keys" in errs:
        # every other part needs the docnum -> key mapping (stored fields): it was not evaluated, not wrong
        bad = [p for p in bad if p == "doc_count"]
    bad = sorted(set(bad) | set(p for p in changed if p not in errs))
    lazy_only = all(p in COLUMN_BACKED for p in bad + sorted(errs))
    reread = [p for p in bad + sorted(errs) if p in read_before]
    w = dict(w)
    w.update({"what": what, "parts_differing": bad, "parts_raising": dict((p, repr(e)[:200]) for p, e in errs.items())})
    w["removed_files_looked_for_by_this_probe"] = evidence[:6]
    w["parts_read_correctly_by_this_searcher_before"] = sorted(read_before)
    w["failing_parts_already_read_before"] = reread
    if layout != "compound" and lazy_only and evidence and not reread:
        ctx.count("known.loose_lazy.proc")
        ctx.fail("held-snapshot", KNOWN_LOOSE, w)
        return True
    sfx = ""
    if layout != "compound" and lazy_only and evidence:
        sfx = ":part-already-read-by-this-searcher-before-the-files-were-removed"
    if errs:
        p = sorted(errs)[0]
        e = errs[p]
        from vf.core import whoosh_site
        ctx.fail("held-snapshot", "%s:%s-raises:%s@%s%s" % (what, _pclass(p), type(e).__name__, whoosh_site(e)[0], sfx),
                 w, "".join(traceback.format_exception(type(e), e, e.__traceback__))[-2500:])
    else:
        for p in bad[:2]:
            w["got:" + p], w["expected:" + p] = cmpfp.get(p), exp.get(p)
        ctx.fail("held-snapshot", "%s:%s-differs%s" % (what, "+".join(sorted(set(_pclass(p) for p in bad))), sfx), w)
    return False


# ----------------------------------------------------------------------

def run(ctx):
    n = ctx.pick(400, 4000)
    for idx in ctx.cases(quick=n, thorough=n):
        rng = ctx.rng(idx)
        ctx.reseed_global(idx)
        k = idx // ctx.nshards
        if k % ctx.pick(50, 25) == 5:
            run_proc_case(ctx, idx, rng)
        elif k % ctx.pick(4, 3) == 1:
            run_thread_case(ctx, idx, rng, lines=True)
        else:
            run_thread_case(ctx, idx, rng)
    ctx.extra.pop("_hashes", None)
