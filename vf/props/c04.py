"""C04 - one writer at a time; no committed update is ever lost (exploration over schedules).

Monitor shape: 2..8 real writer threads race on ONE index under the deterministic cooperative scheduler of
vf/sched.py (every storage event of vf/tap.py is a scheduling point; whoosh's polling loops run in virtual time), and
2..6 writer PROCESSES race free-running with seeded delays injected at storage events.  Every run produces a history
(tap event log with owner thread, virtual clock and step of every event + client-side call/return records) that an
offline checker judges:

  (a) mutual exclusion   two writers' CERTAIN holding intervals never overlap (threads: exact from the tap events
                         lock-acquired .. lock-release; processes: [return(writer()), call(commit|cancel)])
  (b) no lost update     the live key set read right after each commit, read under the lock by each later writer,
                         and read at the end equals the fold (in generation order) of the committed transactions
  (c) generations        every commit advances the generation by exactly one: TOC renames are contiguous and
                         distinct, writer.generation equals the generation it publishes, latest_generation() advanced
                         by exactly the number of successful commits
  (d) LockError          every failed acquisition is JUSTIFIED (overlaps another writer's possible holding interval)
                         and is raised only after the requested timeout elapsed (virtual time in threaded runs) and
                         after at most ceil(timeout/delay)+1 tries
  (e) bounded progress   commit, cancel and a failing with-block each release the lock (a lock-released event of
                         that thread inside the finishing call); after all writers finished a fresh
                         ix.writer(timeout=0) succeeds; a thread that blocks in the OS inside acquire() while the
                         holder is parked is reported as `blocked-in-acquire`.
"""
import json
import math
import os
import random
import re
import shutil
import subprocess
import sys
import tempfile
import time
import traceback

LEVEL = "exploration"
RULE = ("a case is one schedule: storage {FileStorage, RamStorage} x compound {on, off} x 2..8 writer threads x 2..4 "
        "attempts each; an attempt is ix.writer(timeout in {0, small, large}, delay) through a front-end {SegmentWriter, "
        "BufferedWriter(limit 1..3 | only at close), AsyncWriter} -> add 1..3 documents with unique ids / delete 0..2 "
        "earlier committed ids -> finish {commit default | merge=False | optimize | CLEAR, with-block commit, cancel, "
        "exception inside the with-block}; sometimes a second ix.writer() while the first is held. The scheduler policy "
        "(uniform random with stickiness / PCT priorities with d change points / round robin with quantum) and the "
        "virtual tick are drawn per schedule; every 4th (thorough: every 3rd) schedule adds sys.monitoring LINE-level "
        "scheduling points inside whoosh/writing.py, index.py, filedb/filestore.py, util/filelock.py (each LINE event "
        "yields with probability 0.05 / 0.2 / 0.6). Process cases: 2..6 worker processes "
        "free-running with seeded random delays at storage events. A case is non-trivial when at least two commits "
        "succeeded and at least one acquisition attempt overlapped another writer's holding interval; distinct = "
        "distinct (storage, compound, threads, front-ends, multiset of attempt outcomes, policy family); distinct "
        "INTERLEAVINGS (hash of the owner sequence of the schedule) are counted separately (interleavings.distinct). "
        "I/O FAULTS (an OSError raised by the storage tap INSTEAD of a storage operation; not a process death): (1) in the "
        "thread schedules 12% of the SegmentWriter attempts run their whole body inside `with w:` with a tiny posting pool "
        "(limitmb: add_document spills run files) and the 1st..21st faultable storage operation of that thread inside the block "
        "fails (finish kind 'iofault'); the checker demands the lock-released event inside the block's exit, no published TOC, "
        "and a live set equal to the committed history afterwards; (2) sequential fault ENUMERATION cases (one in 20): a "
        "generated with-block body (adds with vectors/columns, delete_by_term/query/document, update_document, searches; "
        "FileStorage or RamStorage, compound or loose, SegmentWriter or AsyncWriter) is executed once to count its N faultable "
        "operations before commit starts, then re-executed on a fresh copy with the k-th operation failing, for every k (at "
        "most 14, thorough 60, sampled); after each: a fresh ix.writer(timeout=0.05) must succeed, generation and content must "
        "be what they were, a later commit must advance the generation by exactly one and show old content + its own "
        "document. MPWRITER RACE cases (one in 25, thorough one in 50, vf/workers/c04_mp.py in a subprocess with a 120 s guard): while an "
        "MpWriter(procs=2, merged or multisegment) holds the index with sub-writer processes running, a second ix.writer() from "
        "the same thread, another thread and another (forked) process must each raise LockError (after its timeout); after "
        "MpWriter.commit() / cancel() / a failing with-block the lock is free for a fresh writer and for another process, the "
        "generation advanced by exactly 1 / 0 / 0, and the documents of both writers are there; 'mp-second': MpWriter(timeout) "
        "requested while a plain writer holds the index must raise LockError. "
        "UNDELETABLE TOC FILES: a harness-only FileStorage subclass whose delete_file() raises OSError for *.toc (what "
        "clean_files() documents and swallows: another process has the file open / sticky directory), so the TOC files of all "
        "earlier generations coexist with the current one; the index is padded with empty commits to 2-4 generations below a "
        "decimal digit boundary (10; thorough also 100). (1) sequential cases (one in 20): 5-8 writers in a row "
        "(commit kinds / with-block / cancel / failing with-block, half of them through a re-opened Index object); after each: "
        "writer.generation = latest + 1, latest_generation() (same object and re-opened) advanced by exactly 1 (0 after "
        "cancel), a fresh reader is of that generation and shows exactly the committed history, the next writer(timeout=0) "
        "opens; (2) every 6th FileStorage thread schedule runs on such a storage padded to generation 7-8 (thorough 97-98), "
        "judged by the unchanged offline checker.")
ASSUMPTIONS = [
    "fork-while-locked cases (vf/workers/c04_fork.py, one in 25 cases): the process forks with os.fork() while a writer holds "
    "the lock and the child lives on without touching the index; commit / cancel / failing with-block / BufferedWriter "
    "flush must each leave the lock free for the next writer of the parent (Linux only; the child holds a duplicate of "
    "the lock descriptor, so only an explicit unlock releases it)",
    "schedule space is sampled, not enumerated: scheduling points are storage events (tap) everywhere and "
    "additionally LINE events inside writing/index/filestore/filelock in a quarter (thorough: a third) of the schedules",
    "threaded runs decide timeouts in VIRTUAL time (scheduler steps x tick; try_for's time.time/time.sleep are "
    "replaced from the harness), so 'LockError only after the timeout' and 'at most ceil(timeout/delay)+1 tries' are "
    "exact there; process runs use time.monotonic() (system-wide on Linux) and only check the lower bound with 10 ms "
    "slack - never an upper bound in wall-clock time",
    "process-level races are free-running with injected delays, not controlled; mutual exclusion between processes is "
    "judged on client-side certain intervals [return(writer()), call(commit/cancel)] only",
    "a writer holds the index from the successful acquire() of <indexname>_WRITELOCK to its release(); 'possible "
    "holding' = from the call of acquire() to the return of release()",
    "each BufferedWriter / AsyncWriter object is used by one thread (BufferedWriter period=None: no timer thread); "
    "AsyncWriter's helper thread is adopted as a scheduled thread",
    "an AsyncWriter that could not get the lock swallows LockError by design: its tries are judged through the tap "
    "events (every lock-failed event must be justified), not through an exception",
    "a LockError raised by BufferedWriter while re-acquiring the writer after one of its internal commits is treated "
    "as an ordinary (must-be-justified) LockError; the BufferedWriter is then abandoned",
    "documents have unique ids and are never re-added; deletes target ids that were committed before",
    "MpWriter (procs=2) races are free-running in a subprocess (client-side observations only, wall-clock lower bound of the "
    "timeout with 10 ms slack); sub-writer processes left alive by cancel() are an observation, killed by the worker",
    "injected I/O faults are ONE-SHOT and are only judged when they hit inside the with-block BEFORE commit starts (the "
    "statement names 'a failing with-block'); the cancel() performed by __exit__ runs on a healthy storage again. A fault "
    "that the library swallows itself is counted (finish.iofault.swallowed) and the block then fails with the user exception",
    "faults INSIDE commit() are observation only (obs.commit_fault.*: whether the lock is still held afterwards, whether "
    "cancel() on that writer then frees it, which state a reader sees, whether a later commit works): the statement promises "
    "nothing for a failing commit(), so none of these counters is a verdict",
    "lock protocol operations themselves (flock / lock file open) are never made to fail",
    "undeletable-TOC storage: only delete_file() of *.toc fails (OSError, swallowed by clean_files by design); segment files "
    "delete normally; leftover TOC files themselves are not judged",
]
SHARDS = {"quick": 4, "thorough": 16}
BUDGET_S = {"quick": 60, "thorough": 660}
FLOORS = {
    # quick floors = about 1/4 of the minimum over seeds 0..4 (4 shards x 60 s on a busy 16-core machine)
    "quick": {"fork.cases": 8, "schedules": 240, "sched.steps": 600000, "interleavings.distinct": 240, "attempts.lockerror": 1000,
              "commits.successful": 1700, "attempts.overlapping": 1600, "lock.failed_tries.justified": 17000,
              "mutex.acquisitions_checked": 2000, "reads.after_commit": 1400, "reads.under_lock": 700,
              "finish.cancel": 250, "finish.exception": 160, "timeout.lower_bound_checked": 1000,
              "timeout.lockerror_after_positive_timeout": 400, "timeout.tries_bound_checked": 2400,
              "attempts.nested": 270, "progress.release_checked": 1400, "storage.ram.schedules": 120,
              "storage.file.schedules": 110, "front.async.attempts": 300, "front.async.deferred_commits": 60,
              "front.buffered.attempts": 300, "front.buffered.commits": 400, "lines.schedules": 60,
              "lines.yields": 150000, "proc.histories": 6, "proc.commits": 28, "proc.lockerrors": 35,
              "proc.reads_under_lock": 40, "progress.fresh_writer_ok": 240,
              # I/O faults inside the with-block, MpWriter races (about 1/4 of what seeds 0..4 produce on a busy machine)
              "fault.cases": 8, "fault.points": 100, "fault.checks.lock_free": 100, "fault.checks.content_unchanged": 100,
              "fault.checks.later_commit": 100, "fault.out.fault": 90, "finish.iofault.fault": 110,
              "reads.after_iofault": 120, "mp.completed": 8, "mp.lockerror.same_thread": 4, "mp.lockerror.other_thread": 4,
              "mp.lockerror.other_process": 4, "mp.lockerror.mpwriter_as_second": 1, "mp.progress.fresh_writer_ok": 8,
              "mp.held_with_subwriters_running": 3,
              # undeletable TOC files + generation padding
              "sticky.cases": 6, "sticky.schedules": 8, "sticky.reads": 40, "sticky.commits": 100,
              "sticky.commits_crossing_digit_boundary_with_older_toc_present": 6},
    # thorough floors = about 1/4 of one 16-shard x 660 s run on the same busy machine
    "thorough": {"schedules": 6000, "sched.steps": 19000000, "interleavings.distinct": 6000,
                 "attempts.lockerror": 30000, "commits.successful": 48000, "attempts.overlapping": 48000,
                 "lock.failed_tries.justified": 600000, "mutex.acquisitions_checked": 59000,
                 "reads.after_commit": 40000, "finish.cancel": 7000, "finish.exception": 4800,
                 "timeout.lower_bound_checked": 30000, "storage.ram.schedules": 3000, "storage.file.schedules": 3000,
                 "front.async.attempts": 9000, "front.buffered.attempts": 9000, "proc.histories": 200,
                 "proc.commits": 1300, "progress.fresh_writer_ok": 6000, "lines.schedules": 2000,
                 "lines.yields": 6000000,
                 "fault.cases": 50, "fault.points": 1500, "fault.checks.lock_free": 1500, "fault.checks.later_commit": 1500,
                 "finish.iofault.fault": 700, "mp.completed": 25, "mp.lockerror.other_process": 12,
                 "mp.lockerror.mpwriter_as_second": 3, "mp.progress.fresh_writer_ok": 25,
                 "sticky.cases": 50, "sticky.schedules": 80, "sticky.commits": 1200,
                 "sticky.commits_crossing_digit_boundary_with_older_toc_present": 100, "sticky.crossing.100": 40},
}

VOCAB = ["alfa", "bravo", "charlie", "delta", "echo", "foxtrot"]
TOCRE = re.compile(r"^(?:ram:)?_MAIN_([0-9]+)\.toc$")
LOCKNAME = "MAIN_WRITELOCK"


class Boom(Exception):
    pass


class InjectedFault(OSError):
    """Raised by the storage tap INSTEAD of performing a storage operation (EIO): an I/O fault, not a process death."""


# storage operations that can fail with an OSError in real life (never the lock protocol itself)
FAULT_KINDS = frozenset(["create", "open-r", "open-rw", "write", "flush", "close", "remove", "rename", "listdir", "stat",
                         "mkdir", "makedirs", "rmdir", "seek", "truncate"])


def make_schema():
    from whoosh import fields
    return fields.Schema(id=fields.ID(stored=True, unique=True), t=fields.TEXT(stored=True))


def read_keys(ix):
    """(generation, sorted stored ids, {id: text}) of a fresh reader."""
    r = ix.reader()
    try:
        docs = {}
        keys = []
        for sf in r.all_stored_fields():
            keys.append(sf["id"])
            docs[sf["id"]] = sf.get("t")
        g = r.generation()
        if g is None:
            # EmptyReader (index without segments) carries no generation; callers read inside an atomic section /
            # at quiescence, so the TOC generation is the one this reader was built from (C03 judges generation())
            g = ix.latest_generation()
        return g, sorted(keys), docs
    finally:
        r.close()


def _base(name):
    name = str(name)
    if name.startswith("ram:"):
        return name
    return os.path.basename(name)


def is_lock(name):
    return str(name).endswith(LOCKNAME)


# ----------------------------------------------------------------------
# history of one threaded run
# ----------------------------------------------------------------------

class History(object):
    def __init__(self, sched, tap, g0, model0):
        self.sched, self.tap = sched, tap
        self.g0 = g0
        self.model0 = dict(model0)
        self.events = []        # (n, tid, kind, basename, step, vclock)
        self.commits = []       # {gen, n, tid, owner, adds, dels, clear}
        self.pending = {}       # owner -> {adds, dels, clear}
        self.owner_of = {}      # tid -> owner (current transaction of that thread)
        self.attempts = []
        self.problems = []      # (monitor, mech, detail) found on line
        self.expected_commits = 0
        self.possible = 0       # acquisitions in flight or held (on-line view for the 'overlapping attempt' counter)
        self.faults = {}        # tid -> {"countdown": n, "fired": None | (kind, basename)}: one-shot injected I/O fault

    def on_event(self, n, kind, name, detail=None):
        s = self.sched
        tid = s.current()
        b = _base(name)
        self.events.append((n, tid, kind, b, s.steps, s.clock))
        if kind == "lock-acquire":
            if is_lock(b):
                self.possible += 1
        elif kind == "lock-failed" or kind == "lock-released":
            if is_lock(b):
                self.possible -= 1
        elif kind == "rename":
            m = TOCRE.match(b)
            # generation 0 is only ever written by TOC.create (index creation): with RamStorage under the tap that
            # is the private scratch index of BufferedWriter's MemoryCodec (the tap names RAM files without their
            # storage instance), never a commit of the index under test
            if m and tid is not None and int(m.group(1)) > 0:
                self.on_toc(tid, int(m.group(1)), n)
        s.on_event(n, kind, name, detail)
        f = self.faults.get(tid)
        if f is not None and f["fired"] is None and kind in FAULT_KINDS and not is_lock(b):
            f["countdown"] -= 1
            if f["countdown"] <= 0:
                f["fired"] = (kind, b)
                raise InjectedFault(5, "injected I/O fault before %s" % kind, str(name))

    def on_toc(self, tid, gen, n):
        owner = self.owner_of.get(tid)
        p = self.pending.get(owner)
        if p is None:
            self.problems.append(("generation", "toc-published-outside-a-transaction",
                                  "thread %r renamed the TOC of generation %d with no open transaction" % (tid, gen)))
            p = {"adds": {}, "dels": [], "clear": False}
        self.commits.append({"gen": gen, "n": n, "tid": tid, "owner": owner, "adds": dict(p["adds"]),
                             "dels": list(p["dels"]), "clear": bool(p["clear"])})
        p["adds"].clear()
        del p["dels"][:]

    def model(self, gen):
        """dict model of generation `gen`: fold of the published transactions in generation order."""
        m = dict(self.model0)
        for c in sorted(self.commits, key=lambda c: (c["gen"], c["n"])):
            if c["gen"] > gen:
                break
            if c["clear"]:
                m = {}
            for k in c["dels"]:
                m.pop(k, None)
            m.update(c["adds"])
        return m

    def mark(self):
        s = self.sched
        return {"n": self.tap.n, "step": s.steps, "t": s.clock}


def holds_of(events):
    """Scan the lock events in order. Returns (tries, holds): tries = [{tid, n1, n2, ok}], holds = [{tid, pre, acq,
    rel_pre, rel_post}] (None while open)."""
    tries, holds = [], []
    open_try = {}
    open_hold = {}
    for (n, tid, kind, name, step, clk) in events:
        if not kind.startswith("lock-") or not is_lock(name):
            continue
        if kind == "lock-acquire":
            open_try[tid] = {"tid": tid, "n1": n, "n2": None, "ok": None, "t1": clk}
        elif kind in ("lock-acquired", "lock-failed"):
            tr = open_try.pop(tid, None)
            if tr is None:
                tr = {"tid": tid, "n1": n, "t1": clk}
            tr["n2"], tr["ok"], tr["t2"] = n, kind == "lock-acquired", clk
            tries.append(tr)
            if tr["ok"]:
                h = {"tid": tid, "pre": tr["n1"], "acq": n, "rel_pre": None, "rel_post": None}
                holds.append(h)
                open_hold.setdefault(tid, []).append(h)
        elif kind == "lock-release":
            lst = open_hold.get(tid) or []
            for h in lst:
                if h["rel_pre"] is None:
                    h["rel_pre"] = n
                    break
        elif kind == "lock-released":
            lst = open_hold.get(tid) or []
            for h in lst:
                if h["rel_post"] is None and h["rel_pre"] is not None:
                    h["rel_post"] = n
                    lst.remove(h)
                    break
    for tr in open_try.values():
        tries.append(tr)
    return tries, holds


INF = float("inf")


def check_history(ctx, H, wb, complete):
    """Offline checker of one threaded history. Returns list of (monitor, mech, witness-extra, detail)."""
    out = []
    tries, holds = holds_of(H.events)
    # (a) mutual exclusion on certain intervals [acq, rel_pre]
    for i, h in enumerate(holds):
        ctx.count("mutex.acquisitions_checked")
        for g in holds[:i]:
            g_end = g["rel_pre"] if g["rel_pre"] is not None else INF
            if g["acq"] < h["acq"] <= g_end:
                out.append(("mutex", "two-writers-hold-the-lock" + (":same-thread" if g["tid"] == h["tid"] else ""),
                            {"first_holder": g, "second_holder": h},
                            "thread %r acquired the write lock at event %d while thread %r held it (acquired at %d, "
                            "release begins at %s)" % (h["tid"], h["acq"], g["tid"], g["acq"], g["rel_pre"])))
                break
    # (d) every failed try is justified by a possible holding interval [pre, rel_post] of another hold
    for tr in tries:
        if tr["ok"] is not False:
            continue
        ctx.count("lock.failed_tries")
        just = False
        for h in holds:
            end = h["rel_post"] if h["rel_post"] is not None else INF
            if h["pre"] <= tr["n2"] and end >= tr["n1"]:
                just = True
                break
        if not just:
            # an attempt in flight (possible acquisition not yet decided) also justifies
            for t2 in tries:
                if t2 is not tr and t2["tid"] != tr["tid"] and t2["ok"] is None and t2["n1"] <= tr["n2"]:
                    just = True
        if just:
            ctx.count("lock.failed_tries.justified")
        else:
            out.append(("lockerror", "unjustified-failed-acquire", {"try": tr, "holds": holds[-6:]},
                        "thread %r failed to acquire the write lock at events %d..%d although no writer could hold it" % (
                            tr["tid"], tr["n1"], tr["n2"])))
    # per attempt: timeout discipline, release by every outcome
    ev_by_tid = {}
    for e in H.events:
        ev_by_tid.setdefault(e[1], []).append(e)
    for a in H.attempts:
        mine = [e for e in ev_by_tid.get(a["tid"], []) if a["call"]["n"] < e[0] <= a["ret"]["n"]
                and is_lock(e[3])] if a.get("ret") else []
        ntries = sum(1 for e in mine if e[2] == "lock-acquire")
        timeout, delay = a["timeout"], a["delay"]
        if a.get("direct") and a.get("ret"):
            bound = int(math.ceil(timeout / delay - 1e-9)) + 1 if timeout > 0 else 1
            ctx.count("timeout.tries_bound_checked")
            if ntries > bound:
                out.append(("timeout", "more-tries-than-timeout-allows:%s" % a["result"],
                            {"attempt": _slim(a), "tries": ntries, "bound": bound},
                            "writer(timeout=%r, delay=%r) made %d acquisition tries, at most %d fit" % (
                                timeout, delay, ntries, bound)))
            if a["result"] == "lockerror":
                ctx.count("timeout.lower_bound_checked")
                waited = a["ret"]["t"] - a["call"]["t"]
                if waited + 1e-9 < timeout:
                    out.append(("timeout", "lockerror-before-timeout-elapsed", {"attempt": _slim(a), "waited_virtual_s": waited},
                                "LockError after %.4f virtual seconds, timeout %.4f" % (waited, timeout)))
                if timeout > 0:
                    ctx.count("timeout.lockerror_after_positive_timeout")
        fin = a.get("fin")
        if fin and fin.get("ret") and a["result"] == "ok" and a.get("direct"):
            rel = [e for e in ev_by_tid.get(a["tid"], []) if fin["call"]["n"] < e[0] <= fin["ret"]["n"]
                   and e[2] == "lock-released" and is_lock(e[3])]
            ctx.count("progress.release_checked")
            if not rel:
                out.append(("progress", "lock-not-released-by:%s" % fin["kind_class"], {"attempt": _slim(a)},
                            "no lock-released event of thread %r inside %s" % (a["tid"], fin["kind"])))
    # (c) generations: contiguous, distinct
    gens = [c["gen"] for c in sorted(H.commits, key=lambda c: c["n"])]
    exp = list(range(H.g0 + 1, H.g0 + 1 + len(gens)))
    ctx.count("generation.sequences_checked")
    if gens != exp:
        dup = len(set(gens)) != len(gens)
        out.append(("generation", "duplicate-generation" if dup else "non-contiguous-generations",
                    {"published": gens, "expected": exp, "commits": [_slimc(c) for c in H.commits][-8:]},
                    "TOC generations published %r, expected %r" % (gens, exp)))
    for a in H.attempts:
        if a.get("published_gen") is not None and a.get("gen") is not None and a["published_gen"] != a["gen"]:
            out.append(("generation", "writer.generation-differs-from-published", {"attempt": _slim(a)}, ""))
    return out, tries, holds


def _slim(a):
    return dict((k, v) for k, v in a.items() if k not in ("adds",))


def _slimc(c):
    return {"gen": c["gen"], "n": c["n"], "tid": c["tid"], "owner": c["owner"], "adds": sorted(c["adds"]),
            "dels": c["dels"], "clear": c["clear"]}


# ----------------------------------------------------------------------
# threaded case
# ----------------------------------------------------------------------

class Env(object):
    pass


def draw_timeout(rng):
    delay = rng.choice([0.01, 0.02, 0.05])
    timeout = rng.choice([0.0, 0.0, delay * rng.choice([1, 2.5, 4]), 0.3, 5.0, 30.0])
    return timeout, delay


def gen_text(rng):
    return " ".join(rng.choice(VOCAB) for _ in range(rng.randint(1, 3)))


def commit_kwargs(kind):
    from whoosh import writing
    return {"default": {}, "nomerge": {"merge": False}, "optimize": {"optimize": True},
            "clear": {"mergetype": writing.CLEAR}, "with": {}}[kind]


def check_read(env, where, gen_floor, a=None):
    """Atomic read of the index; the live set must equal the model of the generation the reader reports."""
    H, s, ix = env.H, env.sched, env.ix
    with s.atomic():
        g, keys, docs = read_keys(ix)
        latest = ix.latest_generation()
    env.ctx.count("reads." + where)
    m = H.model(g)
    ok = True
    w = None
    if gen_floor is not None and g < gen_floor:
        w = {"reader_generation": g, "expected_at_least": gen_floor}
        H.problems.append(("lost-update", "reader-%s-older-than-completed-commit" % where, w,
                           "a reader opened after generation %d was committed reports generation %d" % (gen_floor, g)))
        ok = False
    elif keys != sorted(m) or any(docs[k] != m[k] for k in keys):
        w = {"reader_generation": g, "missing": sorted(set(m) - set(keys)), "unexpected": sorted(set(keys) - set(m)),
             "duplicates": sorted(set(k for k in keys if keys.count(k) > 1)),
             "commits": [_slimc(c) for c in H.commits][-6:], "attempt": _slim(a) if a else None}
        H.problems.append(("lost-update", "live-set-%s-differs-from-committed-history" % where, w,
                           "generation %d: missing %r unexpected %r" % (g, w["missing"], w["unexpected"])))
        ok = False
    elif latest < g:
        H.problems.append(("generation", "latest_generation-below-reader-generation", {"latest": latest, "reader": g}, ""))
        ok = False
    return ok


def new_attempt(env, k, j, front, timeout, delay, direct=True, nested=False):
    H = env.H
    a = {"thread": k, "attempt": j, "tid": env.sched.current(), "front": front, "timeout": timeout, "delay": delay,
         "direct": direct, "nested": nested, "call": H.mark(), "ret": None, "result": None}
    H.attempts.append(a)
    # overlapping attempt: somebody possibly holds (or is acquiring) the lock right now
    if env.holders_now():
        a["overlapping"] = True
    return a


def plan_ops(env, rng, owner, known_model):
    nadd = rng.randint(1, 3)
    adds = {}
    for i in range(nadd):
        adds["%s.%d" % (owner, i)] = gen_text(rng)
    live = sorted(known_model)
    dels = []
    if live and rng.random() < 0.5:
        dels = rng.sample(live, min(len(live), rng.randint(1, 2)))
    return adds, dels


def attempt_segment(env, k, j, rng):
    from whoosh import index
    H, s, ix, ctx = env.H, env.sched, env.ix, env.ctx
    owner = "w%d.%d" % (k, j)
    stale = getattr(env, "finished_writers", None)
    if stale is None:
        stale = env.finished_writers = {}
    if stale.get(k) and rng.random() < 0.3:
        # a late call on a writer of this thread that has already finished (e.g. an error handler calling cancel() after
        # the commit went through): it has no lock and no transaction any more and must not touch what other writers
        # hold meanwhile - it is refused (IndexingError) on the pinned tree; what matters here is that mutual exclusion and
        # the committed history stay intact
        old = rng.choice(stale[k])
        ctx.count("stale.finished_writer_calls")
        try:
            if rng.random() < 0.7:
                old.cancel()
            else:
                old.commit()
        except Exception:  # noqa
            ctx.count("stale.finished_writer_calls.refused")
    timeout, delay = draw_timeout(rng)
    a = new_attempt(env, k, j, "segment", timeout, delay)
    ctx.count("front.segment.attempts")
    # (own generator: the main stream of the thread stays what it was before I/O faults existed)
    frng = random.Random("c04-fault:%s:%d:%d" % (env.tag, k, j))
    want_fault = frng.random() < 0.12
    wkw = {"limitmb": 0.0002} if want_fault else {}      # tiny posting pool: add_document spills run files
    try:
        w = ix.writer(timeout=timeout, delay=delay, compound=env.compound, **wkw)
    except index.LockError:
        a["ret"], a["result"] = H.mark(), "lockerror"
        return
    a["ret"], a["result"], a["gen"] = H.mark(), "ok", w.generation
    env.keep.append(w)
    if rng.random() < 0.5:
        # the live set seen under the lock is the fold of everything committed before
        if not check_read(env, "under_lock", w.generation - 1, a):
            return "stop"
    adds, dels = plan_ops(env, rng, owner, H.model(w.generation - 1))
    fin_kind = rng.choice(["default", "default", "nomerge", "nomerge", "optimize", "with", "cancel", "exception"]
                          + (["clear"] if rng.random() < 0.25 else []))
    if want_fault:
        fin_kind = "iofault"
    H.owner_of[s.current()] = owner
    H.pending[owner] = {"adds": dict(adds), "dels": list(dels), "clear": fin_kind == "clear"}
    if rng.random() < 0.2:
        # a second writer while this one holds the index must fail with LockError
        t2, d2 = rng.choice([(0.0, 0.01), (0.0, 0.01), (0.03, 0.01)])
        a2 = new_attempt(env, k, j, "segment", t2, d2, nested=True)
        ctx.count("attempts.nested")
        try:
            w2 = ix.writer(timeout=t2, delay=d2)
        except index.LockError:
            a2["ret"], a2["result"] = H.mark(), "lockerror"
        else:
            a2["ret"], a2["result"] = H.mark(), "ok"
            H.problems.append(("mutex", "second-writer-obtained-while-first-held:same-thread", {"attempt": _slim(a2)},
                               "ix.writer() succeeded while the same thread still held an open writer"))
            w2.cancel()
            return "stop"
    if fin_kind == "iofault":
        # the whole body runs inside the with-block; a storage operation of THIS thread fails with an OSError before commit
        # starts (the fault is one-shot: the cancel() that __exit__ performs runs on a healthy storage again)
        fin = {"kind": fin_kind, "call": H.mark(), "ret": None, "kind_class": "iofault"}
        a["fin"] = fin
        tid = s.current()
        f = H.faults[tid] = {"countdown": frng.choice([1, 1, 2, 3, 5, 8, 13, 21]), "fired": None}
        ctx.count("finish.iofault.armed")
        out = None
        try:
            with w:
                for key, text in sorted(adds.items()):
                    w.add_document(id=key, t=text + " " + " ".join(frng.choice(VOCAB) for _ in range(frng.randint(2, 12))))
                for key in dels:
                    w.delete_by_term("id", key)
                if frng.random() < 0.5 and dels:
                    w.update_document(id=dels[0], t="golf")
                H.faults.pop(tid, None)
                raise Boom()
        except Boom:
            out = "not-reached"
        except InjectedFault:
            out = "fault"
        finally:
            H.faults.pop(tid, None)
        fin["ret"] = H.mark()
        H.pending.pop(owner, None)
        stale.setdefault(k, []).append(w)
        if out == "not-reached" and f["fired"]:
            out = "swallowed"       # the library caught the OSError itself; the block then failed with the user exception
        ctx.count("finish.iofault." + out)
        if f["fired"]:
            ctx.count("finish.iofault.at.%s" % f["fired"][0])
        a["iofault"] = f["fired"]
        if [c for c in H.commits if c["owner"] == owner]:
            H.problems.append(("lost-update", "iofault-published-a-toc", {"attempt": _slim(a)}, ""))
            return "stop"
        # cancel semantics: nothing of the failed block is visible, the generation is what it was
        if not check_read(env, "after_iofault", None, a):
            return "stop"
        return
    for key, text in sorted(adds.items()):
        w.add_document(id=key, t=text)
    for key in dels:
        w.delete_by_term("id", key)
    fin = {"kind": fin_kind, "call": H.mark(), "ret": None,
           "kind_class": "commit" if fin_kind not in ("cancel", "exception") else fin_kind}
    a["fin"] = fin
    committed = True
    if fin_kind == "cancel":
        w.cancel()
        committed = False
        ctx.count("finish.cancel")
    elif fin_kind == "exception":
        try:
            with w:
                raise Boom()
        except Boom:
            pass
        committed = False
        ctx.count("finish.exception")
    elif fin_kind == "with":
        with w:
            pass
        ctx.count("finish.with_commit")
    else:
        w.commit(**commit_kwargs(fin_kind))
        ctx.count("finish.commit." + fin_kind)
    fin["ret"] = H.mark()
    H.pending.pop(owner, None)
    stale.setdefault(k, []).append(w)
    if committed:
        H.expected_commits += 1
        mine = [c for c in H.commits if c["owner"] == owner]
        a["published_gen"] = mine[-1]["gen"] if mine else None
        if not mine:
            H.problems.append(("lost-update", "commit-returned-without-publishing-a-toc", {"attempt": _slim(a)}, ""))
            return "stop"
        if not check_read(env, "after_commit", w.generation, a):
            return "stop"
    else:
        if [c for c in H.commits if c["owner"] == owner]:
            H.problems.append(("lost-update", "%s-published-a-toc" % fin_kind, {"attempt": _slim(a)}, ""))
            return "stop"


def attempt_buffered(env, k, j, rng):
    from whoosh import index, writing
    H, s, ix, ctx = env.H, env.sched, env.ix, env.ctx
    owner = "b%d.%d" % (k, j)
    timeout, delay = draw_timeout(rng)
    limit = rng.choice([1, 2, 3, 100])
    a = new_attempt(env, k, j, "buffered", timeout, delay)
    ctx.count("front.buffered.attempts")
    H.owner_of[s.current()] = owner
    H.pending[owner] = {"adds": {}, "dels": [], "clear": False}
    try:
        bw = writing.BufferedWriter(ix, period=None, limit=limit,
                                    writerargs={"timeout": timeout, "delay": delay, "compound": env.compound})
    except index.LockError:
        a["ret"], a["result"] = H.mark(), "lockerror"
        H.pending.pop(owner, None)
        return
    a["ret"], a["result"], a["gen"] = H.mark(), "ok", bw.writer.generation
    a["direct"] = False          # several acquisitions happen inside; judged through the tap events
    env.keep.append(bw)
    ndocs = rng.randint(1, 4)
    p = H.pending[owner]
    before = len([c for c in H.commits if c["owner"] == owner])
    try:
        buffered = 0
        for i in range(ndocs):
            key = "%s.%d" % (owner, i)
            text = gen_text(rng)
            p["adds"][key] = text
            buffered += 1
            if buffered >= limit:
                H.expected_commits += 1
                buffered = 0
            bw.add_document(id=key, t=text)
        H.expected_commits += 1
        bw.close()
    except index.LockError:
        # re-acquisition after an internal commit lost the race (documented behaviour of writer()): justified or not
        # is decided on the tap events; the commit that preceded it was counted already
        ctx.count("front.buffered.lockerror_on_reacquire")
        a["result"] = "ok-then-lockerror"
        H.pending.pop(owner, None)
        return
    H.pending.pop(owner, None)
    ctx.count("front.buffered.commits", len([c for c in H.commits if c["owner"] == owner]) - before)
    if not check_read(env, "after_commit", None, a):
        return "stop"


def attempt_async(env, k, j, rng):
    from whoosh import writing
    H, s, ix, ctx = env.H, env.sched, env.ix, env.ctx
    owner = "a%d.%d" % (k, j)
    timeout, delay = draw_timeout(rng)
    a = new_attempt(env, k, j, "async", timeout, delay, direct=False)
    ctx.count("front.async.attempts")
    aw = writing.AsyncWriter(ix, delay=rng.choice([0.01, 0.05]),
                             writerargs={"timeout": timeout, "delay": delay, "compound": env.compound})
    a["ret"] = H.mark()
    a["result"] = "ok" if aw.writer is not None else "deferred"
    env.keep.append(aw)
    known = H.model(max([c["gen"] for c in H.commits] + [H.g0]))
    adds, dels = plan_ops(env, rng, owner, known)
    fin_kind = rng.choice(["default", "nomerge", "optimize", "cancel"])
    H.pending[owner] = {"adds": dict(adds), "dels": list(dels), "clear": False}
    if aw.writer is not None:
        H.owner_of[s.current()] = owner
    env.async_owner[id(aw)] = owner
    for key, text in sorted(adds.items()):
        aw.add_document(id=key, t=text)
    for key in dels:
        aw.delete_by_term("id", key)
    if fin_kind == "cancel":
        aw.cancel()
        H.pending.pop(owner, None)
        ctx.count("finish.cancel")
        return
    H.expected_commits += 1
    direct = aw.writer is not None
    aw.commit(**commit_kwargs(fin_kind))
    ctx.count("finish.commit." + fin_kind)
    if direct:
        H.pending.pop(owner, None)
        if not check_read(env, "after_commit", None, a):
            return "stop"
    else:
        ctx.count("front.async.deferred_commits")
        env.asyncs.append(aw)


def writer_thread(env, k):
    from vf.sched import SchedAbort
    rng = random.Random("c04-thread:%s:%d" % (env.tag, k))
    s = env.sched
    for j in range(env.nattempts):
        if s.aborted or env.stop:
            break
        front = rng.choice(env.fronts)
        fn = {"segment": attempt_segment, "buffered": attempt_buffered, "async": attempt_async}[front]
        r = fn(env, k, j, rng)
        if r == "stop" or env.H.problems:
            env.stop = True
            break
        if rng.random() < 0.5:
            s.pause(rng.choice([1, 5, 30, 200]))
    return "done"


def run_thread_case(ctx, idx, rng, lines=False):
    from vf import sched as S
    from vf.tap import Tap
    from whoosh import index
    from whoosh.filedb.filestore import RamStorage
    storage = rng.choice(["file", "ram"])
    compound = rng.random() < 0.7
    nthreads = rng.choice([2, 2, 3, 3, 4, 5, 6, 8]) if not ctx.quick else rng.choice([2, 2, 3, 3, 4, 5, 6])
    nattempts = rng.randint(2, 4)
    fronts = rng.choice([["segment"], ["segment"], ["segment", "segment", "async"], ["segment", "segment", "buffered"],
                         ["segment", "segment", "async", "buffered"]])
    pol = S.draw_policy(rng, horizon=rng.choice([300, 1500, 5000]))
    sseed = rng.randrange(1 << 30)
    wb = {"case": idx, "kind": "threads+lines" if lines else "threads", "storage": storage, "compound": compound,
          "threads": nthreads, "attempts_per_thread": nattempts, "fronts": fronts, "policy": pol, "sched_seed": sseed}
    ctx.count("schedules")
    ctx.count("storage.%s.schedules" % storage)
    ctx.count("policy." + pol["policy"])
    root = tempfile.mkdtemp(prefix="vf-c04-")
    taproot = root if storage == "file" else tempfile.gettempdir()
    tap = Tap(root=taproot, unbuffered=False, track=False, tap_ram=(storage == "ram"), keep_events=False)
    tap.install()
    ly = None
    shape = None
    nontrivial = False
    try:
        # ---- prelude (unscheduled): a few base segments so that deletes and merges have material
        # (own generator: the schedule stays what it was) every 6th FileStorage schedule runs on a storage whose TOC files
        # cannot be deleted, padded so that the racing commits cross the generation digit boundary 9 -> 10 (thorough: 99 -> 100)
        xr = random.Random("c04-sticky:%d:%d" % (ctx.seed, idx))
        sticky = storage == "file" and xr.random() < 1 / 6.0
        if sticky:
            ix = sticky_storage(os.path.join(root)).create_index(make_schema())
            target = 10 if (ctx.quick or xr.random() < 0.6) else 100
            pad_generations(ix, target - xr.choice([2, 3]))
            ctx.count("sticky.schedules")
            wb["undeletable_toc_files"] = True
        elif storage == "file":
            ix = index.create_in(os.path.join(root), make_schema())
        else:
            ix = RamStorage().create_index(make_schema())
        model0 = {}

        def run_prelude():
            # (no prelude in most LINE-level schedules: the very first writer() calls of a fresh storage race)
            for p in range(0 if (lines and rng.random() < 0.6) else rng.randint(0, 3)):
                w = ix.writer(compound=compound)
                for i in range(rng.randint(1, 3)):
                    key = "base%d.%d" % (p, i)
                    model0[key] = gen_text(rng)
                    w.add_document(id=key, t=model0[key])
                w.commit(merge=False)
        okp, _ = ctx.guard("no-exception", wb, run_prelude)
        if not okp:
            ctx.case(("prelude-failed", storage), False)
            return
        g0 = ix.latest_generation()
        s = S.Scheduler(sseed, max_steps=ctx.pick(150000, 400000), watchdog_s=90, stall_s=15, **pol)
        H = History(s, tap, g0, model0)
        env = Env()
        env.ctx, env.H, env.sched, env.ix, env.tap = ctx, H, s, ix, tap
        env.compound, env.nattempts, env.fronts = compound, nattempts, fronts
        env.keep, env.asyncs, env.async_owner = [], [], {}
        env.stop = False
        env.tag = "%d:%d:%d" % (ctx.seed, idx, sseed)
        env.holders_now = lambda: H.possible > 0

        def on_async(aw, tid):
            owner = env.async_owner.get(id(aw))
            H.owner_of[tid] = owner
        tap.on_event = H.on_event
        for k in range(nthreads):
            s.spawn("w%d" % k, writer_thread, env, k)
        patches = S.WhooshPatches(s, on_async=on_async)
        if lines:
            import whoosh.filedb.filestore
            import whoosh.index
            import whoosh.util.filelock
            import whoosh.writing
            ly = S.LineYields(s, [whoosh.writing, whoosh.index, whoosh.filedb.filestore, whoosh.util.filelock],
                              prob=rng.choice([0.05, 0.2, 0.6]), seed=sseed, exclude=("__del__",),
                              no_yield_when=tap._lock.locked)
            ly.install()
        try:
            with patches:
                out = s.run()
        finally:
            if ly is not None:
                ly.uninstall()
        tap.on_event = None
        ctx.count("sched.steps", out.steps)
        ctx.count("sched.switches", out.switches)
        ctx.count("sched.status." + out.status)
        ctx.count("sched.threads", out.nthreads)
        if out.leaked:
            ctx.count("sched.leaked_threads", len(out.leaked))
        if ly is not None:
            ctx.count("lines.schedules")
            ctx.count("lines.events", ly.fired)
            ctx.count("lines.yields", ly.yields)
        env_hashes = ctx.extra.setdefault("_hashes", set())
        hsh = out.schedule_hash()
        if hsh not in env_hashes:
            env_hashes.add(hsh)
            ctx.count("interleavings.distinct")
        wb["schedule_steps"] = out.steps
        wb["schedule_hash"] = hsh
        wb["attempts"] = [(a["thread"], a["attempt"], a["front"], a["timeout"], a["result"],
                           (a.get("fin") or {}).get("kind")) for a in H.attempts]
        # ---- verdicts
        failed = False
        if out.status == "stall":
            st = out.stuck or {}
            stack = st.get("stack") or []
            in_acquire = any(fr.endswith(":acquire") or ":acquire" in fr for fr in stack[-4:])
            tries, holds = holds_of(H.events)
            held = [h for h in holds if h["rel_post"] is None]
            if in_acquire and held:
                w = dict(wb)
                w.update({"blocked_thread": st.get("thread"), "stack": stack[-5:], "holder": held[-1]})
                ctx.fail("progress", "blocked-in-acquire:%s" % storage, w,
                         "thread %s blocks inside the lock's acquire() while thread %r holds the lock: a second writer "
                         "hangs instead of raising LockError" % (st.get("thread"), held[-1]["tid"]))
                failed = True
            else:
                ctx.count("sched.inconclusive")
                ctx.note("case %d: stall outside acquire: %r" % (idx, st))
                ctx.extra.setdefault("_inconclusive", []).append("stall")
        elif out.status != "ok":
            ctx.count("sched.inconclusive")
            _tr, _ho = holds_of(H.events)
            ctx.note("case %d: scheduler status %s after %d steps; threads %r; open holds %r; last tags %r; attempts %r" % (
                idx, out.status, out.steps, sorted(out.own_steps.items()), [h for h in _ho if h["rel_post"] is None],
                [(t.name, t.state, t.tag) for t in s.threads], wb["attempts"][-8:]))
        for name, e in sorted(out.errors.items()):
            from vf.core import whoosh_site
            site, in_harness = whoosh_site(e)
            if isinstance(e, S.SchedAbort):
                continue
            if in_harness:
                from vf.core import HarnessError
                raise HarnessError("thread %s of case %d failed in the harness:\n%s" % (name, idx, out.tracebacks[name]))
            w = dict(wb)
            w["thread"] = name
            ctx.fail("no-exception", "exc:%s@%s" % (type(e).__name__, site), w, out.tracebacks[name])
            failed = True
        for (mon, mech, extra, detail) in H.problems[:1]:
            w = dict(wb)
            w.update(extra if isinstance(extra, dict) else {"info": extra})
            ctx.fail(mon, mech, w, detail)
            failed = True
        complete = out.status == "ok" and not out.leaked
        if complete or (not failed and out.status == "ok"):
            res, tries, holds = check_history(ctx, H, wb, complete)
            for (mon, mech, extra, detail) in res[:2]:
                w = dict(wb)
                w.update(extra)
                ctx.fail(mon, mech, w, detail)
                failed = True
            # ---- counters
            for a in H.attempts:
                ctx.count("attempts.total")
                ctx.count("attempts." + str(a["result"]))
                if a.get("overlapping"):
                    ctx.count("attempts.overlapping")
            ctx.count("commits.successful", len(H.commits))
            ctx.count("lock.tries", len(tries))
            if sticky:
                ctx.count("sticky.commits", len(H.commits))
                for c in H.commits:
                    if len(str(c["gen"])) > len(str(c["gen"] - 1)):
                        ctx.count("sticky.commits_crossing_digit_boundary_with_older_toc_present")
                        ctx.count("sticky.crossing.%d" % c["gen"])
                        ctx.count("sticky.schedules_crossing")
        if complete and not failed:
            # (e) bounded progress + final state (b)(c), unscheduled
            from whoosh import index as windex
            try:
                w = ix.writer(timeout=0)
                w.cancel()
                ctx.count("progress.fresh_writer_ok")
            except windex.LockError:
                tries, holds = holds_of(H.events)
                w2 = dict(wb)
                w2["open_holds"] = [h for h in holds if h["rel_post"] is None]
                ctx.fail("progress", "index-still-locked-after-all-writers-finished", w2,
                         "ix.writer(timeout=0) raised LockError although every writer had finished")
                failed = True
            g, keys, docs = read_keys(ix)
            m = H.model(g)
            ctx.count("final.reads")
            latest = ix.latest_generation()
            if keys != sorted(m):
                w2 = dict(wb)
                w2.update({"missing": sorted(set(m) - set(keys)), "unexpected": sorted(set(keys) - set(m)),
                           "commits": [_slimc(c) for c in H.commits]})
                ctx.fail("lost-update", "final-live-set-differs-from-committed-history", w2)
                failed = True
            if latest - g0 != len(H.commits) or latest - g0 != H.expected_commits:
                w2 = dict(wb)
                w2.update({"g0": g0, "latest_generation": latest, "toc_renames": len(H.commits),
                           "successful_commit_calls": H.expected_commits})
                ctx.fail("generation", "latest_generation-advanced-by-other-than-number-of-commits", w2)
                failed = True
        outcomes = sorted((a["front"], str(a["result"]), str((a.get("fin") or {}).get("kind_class"))) for a in H.attempts)
        shape = (storage, compound, nthreads, tuple(fronts), tuple(outcomes), pol["policy"], lines)
        nontrivial = len(H.commits) >= 2 and any(a.get("overlapping") for a in H.attempts)
        sample = None
        if nontrivial and not failed:
            sample = {"case": wb, "commits": len(H.commits),
                      "lockerrors": sum(1 for a in H.attempts if a["result"] == "lockerror")}
        ctx.case(shape, nontrivial, sample)
    finally:
        tap.on_event = None
        tap.uninstall()
        shutil.rmtree(root, ignore_errors=True)


# ----------------------------------------------------------------------
# process case
# ----------------------------------------------------------------------

def run_proc_case(ctx, idx, rng):
    from vf.core import ROOT, repo_root
    from whoosh import index
    nprocs = rng.choice([2, 3, 4]) if ctx.quick else rng.choice([2, 3, 4, 5, 6])
    nattempts = rng.randint(3, 6)
    compound = rng.random() < 0.7
    root = tempfile.mkdtemp(prefix="vf-c04p-")
    d = os.path.join(root, "ix")
    os.mkdir(d)
    wb = {"case": idx, "kind": "processes", "procs": nprocs, "attempts_per_proc": nattempts, "compound": compound}
    ctx.count("proc.histories")
    try:
        ix = index.create_in(d, make_schema())
        model0 = {}
        for p in range(rng.randint(0, 2)):
            w = ix.writer(compound=compound)
            key = "base%d" % p
            model0[key] = gen_text(rng)
            w.add_document(id=key, t=model0[key])
            w.commit(merge=False)
        g0 = ix.latest_generation()
        env = dict(os.environ)
        env["PYTHONPATH"] = ROOT + os.pathsep + env.get("PYTHONPATH", "")
        env["PYTHONHASHSEED"] = "0"
        env["VERIF_REPO"] = repo_root()
        procs = []
        for p in range(nprocs):
            logp = os.path.join(root, "p%d.jsonl" % p)
            cmd = [sys.executable, "-m", "vf.workers.c04_writer", d, str(p), "%d:%d:%d" % (ctx.seed, idx, p),
                   str(nattempts), logp, "1" if compound else "0"]
            procs.append((p, logp, subprocess.Popen(cmd, cwd=ROOT, env=env, stdout=subprocess.PIPE,
                                                    stderr=subprocess.STDOUT)))
        deadline = time.time() + 120
        bad = False
        for p, logp, pr in procs:
            try:
                outb, _ = pr.communicate(timeout=max(1.0, deadline - time.time()))
            except subprocess.TimeoutExpired:
                pr.kill()
                pr.communicate()
                ctx.count("proc.timeout")
                ctx.note("case %d: writer process %d timed out" % (idx, p))
                bad = True
                continue
            if pr.returncode == 3:
                txt = outb.decode("utf-8", "replace")
                m = re.search(r"C04-WORKER-WHOOSH-EXC (\S+)", txt)
                w = dict(wb)
                w["proc"] = p
                ctx.fail("no-exception", "proc:exc:%s" % (m.group(1) if m else "?"), w, txt[-2500:])
                bad = True
            elif pr.returncode != 0:
                from vf.core import HarnessError
                raise HarnessError("c04 worker rc=%s: %s" % (pr.returncode, outb.decode("utf-8", "replace")[-2000:]))
        if bad:
            ctx.case(("procs", nprocs, "bad"), False)
            return
        recs = []
        for p, logp, pr in procs:
            with open(logp) as f:
                for ln in f:
                    recs.append(json.loads(ln))
        fails = check_proc_history(ctx, recs, g0, model0, d, wb)
        for (mon, mech, extra, detail) in fails[:2]:
            w = dict(wb)
            w.update(extra)
            ctx.fail(mon, mech, w, detail)
        ncommit = sum(1 for r in recs if r["op"] == "finish" and r["result"] == "committed")
        nle = sum(1 for r in recs if r["op"] == "writer" and r["result"] == "lockerror")
        ctx.count("proc.commits", ncommit)
        ctx.count("proc.lockerrors", nle)
        ctx.count("proc.attempts", sum(1 for r in recs if r["op"] == "writer"))
        ctx.case(("procs", nprocs, compound, min(ncommit, 6), min(nle, 6)), ncommit >= 2 and nle >= 1,
                 {"case": wb, "commits": ncommit, "lockerrors": nle} if ncommit >= 2 and nle >= 1 else None)
    finally:
        shutil.rmtree(root, ignore_errors=True)


def check_proc_history(ctx, recs, g0, model0, d, wb):
    from whoosh import index
    out = []
    SLACK = 0.010
    acq = [r for r in recs if r["op"] == "writer"]
    fin = dict(((r["proc"], r["attempt"]), r) for r in recs if r["op"] == "finish")
    held = []       # (proc, attempt, t_certain_start, t_certain_end, t_possible_start, t_possible_end)
    for r in acq:
        if r["result"] != "ok":
            continue
        f = fin.get((r["proc"], r["attempt"]))
        if f is None:
            out.append(("progress", "proc:writer-never-finished", {"record": r}, ""))
            continue
        held.append((r["proc"], r["attempt"], r["t_return"], f["t_call"], r["t_call"], f["t_return"]))
    # (a) certain intervals never overlap
    hs = sorted(held, key=lambda h: h[2])
    for i in range(len(hs)):
        ctx.count("proc.mutex_checked")
        for j in range(i + 1, len(hs)):
            if hs[j][2] >= hs[i][3]:
                break
            if hs[j][0] != hs[i][0]:
                out.append(("mutex", "proc:two-writers-hold-the-lock", {"first": hs[i], "second": hs[j]},
                            "process %d held a writer during [%f, %f]; process %d obtained one at %f" % (
                                hs[i][0], hs[i][2], hs[i][3], hs[j][0], hs[j][2])))
    # (d) LockErrors justified and not early
    for r in acq:
        if r["result"] != "lockerror":
            continue
        ctx.count("proc.lockerror_checked")
        just = any(h[0] != r["proc"] and h[4] <= r["t_return"] and h[5] >= r["t_call"] for h in held)
        if not just:
            # another process's failed attempt cannot hold; an attempt still in flight can
            out.append(("lockerror", "proc:unjustified-lockerror", {"record": r}, ""))
        if (r["t_return"] - r["t_call"]) + SLACK < r["args"]["timeout"]:
            out.append(("timeout", "proc:lockerror-before-timeout-elapsed", {"record": r}, ""))
    # (c) generations
    commits = sorted((fin[(r["proc"], r["attempt"])] for r in acq if r["result"] == "ok"
                      and fin.get((r["proc"], r["attempt"]), {}).get("result") == "committed"), key=lambda f: f["gen"])
    gens = [f["gen"] for f in commits]
    exp = list(range(g0 + 1, g0 + 1 + len(gens)))
    ix = index.open_dir(d)
    latest = ix.latest_generation()
    ctx.count("proc.generation_checked")
    if gens != exp or latest != g0 + len(gens):
        out.append(("generation", "proc:generations-not-contiguous-or-latest-wrong",
                    {"generations": gens, "expected": exp, "latest_generation": latest}, ""))
    # (b) model fold in generation order; every writer's read under the lock equals the fold before it
    def fold(upto):
        m = dict(model0)
        for f in commits:
            if f["gen"] > upto:
                break
            if f["clear"]:
                m = {}
            for k in f["dels"]:
                m.pop(k, None)
            m.update(f["adds"])
        return m
    for r in acq:
        if r["result"] == "ok" and r.get("keys_under_lock") is not None:
            ctx.count("proc.reads_under_lock")
            m = fold(r["gen"] - 1)
            if sorted(m) != r["keys_under_lock"]:
                out.append(("lost-update", "proc:live-set-under-lock-differs-from-committed-history",
                            {"record": r, "missing": sorted(set(m) - set(r["keys_under_lock"])),
                             "unexpected": sorted(set(r["keys_under_lock"]) - set(m))}, ""))
                break
    g, keys, docs = read_keys(ix)
    m = fold(g)
    if keys != sorted(m):
        out.append(("lost-update", "proc:final-live-set-differs-from-committed-history",
                    {"missing": sorted(set(m) - set(keys)), "unexpected": sorted(set(keys) - set(m))}, ""))
    # (e)
    try:
        w = ix.writer(timeout=0)
        w.cancel()
        ctx.count("progress.fresh_writer_ok")
    except index.LockError:
        out.append(("progress", "proc:index-still-locked-after-all-writers-finished", {}, ""))
    return out


# ----------------------------------------------------------------------

def run_fork_case(ctx, idx, rng):
    """A writer holds the lock, the process forks, the writer finishes while the forked child is still alive: commit(),
    cancel(), a failing with-block and a BufferedWriter flush must each leave the lock free for the next writer."""
    from vf.core import ROOT, repo_root
    mode = ["commit", "cancel", "with-exception", "buffered"][(idx // ctx.nshards) % 4]
    root = tempfile.mkdtemp(prefix="vf-c04f-")
    wb = {"case": idx, "kind": "fork-while-locked", "finish": mode}
    env = dict(os.environ)
    env["PYTHONPATH"] = ROOT + os.pathsep + env.get("PYTHONPATH", "")
    env["PYTHONHASHSEED"] = "0"
    env["VERIF_REPO"] = repo_root()
    ctx.count("fork.cases")
    try:
        try:
            r = subprocess.run([sys.executable, "-W", "ignore", "-m", "vf.workers.c04_fork", os.path.join(root), mode, "%d:%d" % (ctx.seed, idx)],
                               cwd=ROOT, env=env, capture_output=True, text=True, timeout=120)
        except subprocess.TimeoutExpired:
            ctx.count("fork.watchdog")
            ctx.extra.setdefault("_inconclusive", []).append("fork case %d: watchdog" % idx)
            return
        lines = [ln for ln in r.stdout.splitlines() if ln.startswith("{")]
        out = json.loads(lines[-1]) if lines else {}
        if r.returncode == 3:
            ctx.fail("no-exception", "fork:exc:%s" % out.get("error", "?"), wb, r.stderr[-1500:])
        elif r.returncode != 0 or not out:
            raise AssertionError("harness: c04_fork exit %s\n%s" % (r.returncode, r.stderr[-1500:]))
        else:
            ctx.count("fork.finish.%s" % mode)
            exp = {"commit": ["a", "b", "z"], "cancel": ["a", "z"], "with-exception": ["a", "z"], "buffered": ["a", "b", "c", "z"]}[mode]
            if out.get("second_writer") != "ok":
                ctx.fail("lock.released", "still-locked-after-%s-while-a-forked-child-lives" % mode, dict(wb, observed=out),
                         "the next writer got %r" % (out.get("second_writer"),))
            elif out.get("docs") != exp:
                ctx.fail("no-lost-update", "fork:%s:documents" % mode, dict(wb, observed=out, expected=exp))
    finally:
        shutil.rmtree(root, ignore_errors=True)
    ctx.case(("fork", mode), True)


# ----------------------------------------------------------------------
# I/O faults inside the with-block (sequential, enumerated)
# ----------------------------------------------------------------------

def _fault_schema():
    from whoosh import fields
    return fields.Schema(id=fields.ID(stored=True, unique=True), t=fields.TEXT(stored=True, vector=True),
                         n=fields.NUMERIC(stored=True, sortable=True))


def _fault_fileclass(name):
    b = str(name)
    if b.startswith("ram:"):
        b = b[4:]
        pre = "ram:"
    else:
        pre = ""
        if os.sep + "MAIN.tmp" + os.sep in b or b.startswith("MAIN.tmp" + os.sep):
            return "tmp"
        b = os.path.basename(b)
    if TOCRE.match(b) or re.match(r"^_MAIN_[0-9]+\.toc\.", b):
        return pre + "toc"
    if b.endswith(".seg"):
        return pre + "seg"
    if re.match(r"^MAIN_[0-9a-z]{16}\.", b):
        return pre + "loose"
    if b.endswith(".tmp") or b.endswith(".ctmp") or b.endswith(".run") or "MAIN.tmp" in b:
        return pre + "tmp"
    return pre + "other"


def gen_fault_plan(rng):
    """A deterministic description of one faulty transaction: base commits + the body of the with-block."""
    base = []
    for p in range(rng.randint(1, 3)):
        base.append([("base%d.%d" % (p, i), gen_text(rng), rng.randint(0, 9)) for i in range(rng.randint(1, 3))])
    live = [k for seg in base for (k, _, _) in seg]
    body = []
    for i in range(rng.randint(2, 5)):
        body.append(("add", "new%d" % i, " ".join(rng.choice(VOCAB) for _ in range(rng.randint(2, 10))), rng.randint(0, 9)))
    pool = list(live)
    rng.shuffle(pool)
    for kind in rng.sample(["del", "delq", "upd", "read", "deldoc"], rng.randint(1, 4)):
        if kind == "read":
            body.insert(rng.randrange(len(body) + 1), ("read",))
        elif pool:
            body.insert(rng.randrange(len(body) + 1), (kind, pool.pop(), gen_text(rng), rng.randint(0, 9)))
    return {"storage": rng.choice(["file", "file", "ram"]), "compound": rng.random() < 0.6,
            "limitmb": rng.choice([0.0002, 0.0002, 0.001, None]), "front": rng.choice(["segment", "segment", "async"]),
            "base": base, "body": body, "base_compound": rng.random() < 0.6}


def _fault_body(w, plan):
    from whoosh import query
    for op in plan["body"]:
        if op[0] == "add":
            w.add_document(id=op[1], t=op[2], n=op[3])
        elif op[0] == "del":
            w.delete_by_term("id", op[1])
        elif op[0] == "delq":
            w.delete_by_query(query.Term("id", op[1]))
        elif op[0] == "upd":
            w.update_document(id=op[1], t=op[2], n=op[3])
        elif op[0] == "deldoc":
            with w.searcher() as s:
                dn = s.document_number(id=op[1])
            if dn is not None:
                w.delete_document(dn)
        elif op[0] == "read":
            with w.searcher() as s:
                list(s.search(query.Term("t", "alfa"), limit=None))


def _fault_build(plan, d):
    from whoosh import index
    from whoosh.filedb.filestore import RamStorage
    if plan["storage"] == "file":
        ix = index.create_in(d, _fault_schema())
    else:
        ix = RamStorage().create_index(_fault_schema())
    for seg in plan["base"]:
        w = ix.writer(compound=plan["base_compound"])
        for (k, t, n) in seg:
            w.add_document(id=k, t=t, n=n)
        w.commit(merge=False)
    return ix


def _state_of(ix):
    g, keys, docs = read_keys(ix)
    return ix.latest_generation(), keys, docs


def _probe_writer(ix, timeout, delay, patience_s=30.0):
    """ix.writer(timeout, delay) in a helper thread: the writer | "lockerror" | "hang" (no answer within patience_s wall
    seconds for a requested timeout of at most 0.05 s: the attempt blocks instead of raising LockError)."""
    import threading
    from whoosh import index
    box = {}

    def body():
        try:
            box["w"] = ix.writer(timeout=timeout, delay=delay)
        except index.LockError:
            box["w"] = "lockerror"
        except BaseException as e:  # noqa
            box["e"] = e
    t = threading.Thread(target=body)
    t.daemon = True
    t.start()
    t.join(patience_s)
    if "e" in box:
        raise box["e"]
    return box.get("w", "hang")


def fault_run(ctx, plan, tap, root, where, k, seedtag):
    """One execution of the plan with a one-shot fault before the k-th faultable storage event of phase `where`
    ('body' = inside the with-block before commit starts; 'commit' = inside commit()); k = 0: no fault (counts events).
    Returns a dict of observations. The caller judges."""
    from whoosh import index, writing
    d = os.path.join(root, "ix")
    if os.path.exists(d):
        shutil.rmtree(d)
    os.mkdir(d)
    st = {"armed": False, "n": 0, "fired": None}

    def on_event(n, kind, name, detail=None):
        if st["armed"] and kind in FAULT_KINDS and not is_lock(name):
            st["n"] += 1
            if st["n"] == k:
                st["armed"] = False
                st["fired"] = (kind, _fault_fileclass(name))
                raise InjectedFault(5, "injected I/O fault before %s" % kind, str(name))
    res = {}
    tap.on_event = None
    tap.pause()
    random.seed("c04-faultcase:%s" % seedtag)
    ix = _fault_build(plan, d)
    g0, keys0, docs0 = _state_of(ix)
    res["g0"], res["keys0"] = g0, keys0
    tap.on_event = on_event
    tap.resume()
    wk = {"compound": plan["compound"]}
    if plan["limitmb"]:
        wk["limitmb"] = plan["limitmb"]
    try:
        try:
            if plan["front"] == "async":
                w = writing.AsyncWriter(ix, writerargs=wk)
            else:
                w = ix.writer(**wk)
            if where == "body":
                with w:
                    st["armed"] = True
                    _fault_body(w, plan)
                    st["armed"] = False
                    raise Boom()
            else:
                _fault_body(w, plan)
                st["armed"] = True
                try:
                    w.commit(**commit_kwargs(plan.get("commit", "default")))
                finally:
                    st["armed"] = False
                res["out"] = "returned"
        except Boom:
            res["out"] = "boom"
        except InjectedFault:
            res["out"] = "fault"
        except Exception as e:  # noqa - a secondary exception replaced the injected one
            from vf.core import whoosh_site
            site, in_harness = whoosh_site(e)
            if in_harness:
                raise
            res["out"] = "other:%s@%s" % (type(e).__name__, site)
            res["tb"] = "".join(traceback.format_exception(type(e), e, e.__traceback__))[-2000:]
    finally:
        st["armed"] = False
        tap.pause()
        tap.on_event = None
    res["nevents"], res["fired"] = st["n"], st["fired"]
    # ---- what a user can do next
    w2 = _probe_writer(ix, 0.05, 0.01)
    if w2 == "hang":
        res["lock"] = "hang"
        return res
    if w2 == "lockerror":
        res["lock"] = "held"
        if where == "commit":
            # observation: does cancel() on the writer whose commit() failed give the index back?
            try:
                w.cancel()
                res["cancel_after"] = "returned"
            except Exception as e:  # noqa
                res["cancel_after"] = "raised:" + type(e).__name__
            w5 = _probe_writer(ix, 0, 0.01)
            if w5 in ("hang", "lockerror"):
                res["lock_after_cancel"] = "held" if w5 == "lockerror" else "hang"
            else:
                res["lock_after_cancel"] = "free"
                try:
                    w5.cancel()
                except Exception as e:  # noqa
                    res["lock_after_cancel"] = "exc:" + type(e).__name__
        return res
    res["lock"] = "free"
    try:
        w2.cancel()
        res["after"] = _state_of(ix)
        w3 = ix.writer(timeout=0)
        w3.add_document(id="later", t="zulu", n=1)
        w3.commit(merge=False)
        res["later"] = _state_of(ix)
        w4 = ix.writer(timeout=0)
        w4.cancel()
        res["lock_after_later"] = "free"
    except index.LockError:
        res["lock_after_later"] = "held"
    except Exception as e:  # noqa
        from vf.core import whoosh_site
        site, in_harness = whoosh_site(e)
        if in_harness:
            raise
        res["later_exc"] = "%s@%s" % (type(e).__name__, site)
        res["tb"] = "".join(traceback.format_exception(type(e), e, e.__traceback__))[-2000:]
    res["docs0"] = docs0
    return res


def run_fault_case(ctx, idx, rng):
    from vf.tap import Tap
    plan = gen_fault_plan(rng)
    plan["commit"] = rng.choice(["default", "nomerge", "optimize"])
    root = tempfile.mkdtemp(prefix="vf-c04x-")
    taproot = root if plan["storage"] == "file" else tempfile.gettempdir()
    tap = Tap(root=taproot, unbuffered=False, track=False, tap_ram=(plan["storage"] == "ram"), keep_events=False)
    tap.install()
    wb = {"case": idx, "kind": "io-fault-in-with-block", "plan": plan}
    ctx.count("fault.cases")
    ctx.count("fault.cases.%s" % plan["storage"])
    failed = False
    nbody = 0
    try:
        seedtag = "%d:%d" % (ctx.seed, idx)
        r0 = fault_run(ctx, plan, tap, root, "body", 0, seedtag)
        nbody = r0["nevents"]
        ctx.count("fault.body_events", nbody)
        if r0["out"] != "boom" or r0["lock"] != "free" or r0.get("after", (None, None))[:2] != (r0["g0"], r0["keys0"]):
            # the plain failing with-block (user exception) of this very plan: judged like every fault point below
            pass
        ks = list(range(0, nbody + 1))
        cap = ctx.pick(14, 30)
        if len(ks) > cap:
            ks = [0] + sorted(rng.sample(ks[1:], cap - 1))
        for k in ks:
            r = r0 if k == 0 else fault_run(ctx, plan, tap, root, "body", k, seedtag)
            w = dict(wb)
            w.update({"fault_before_event": k, "events_in_block": nbody, "fired": r["fired"], "outcome": r["out"]})
            where = "%s:%s" % (r["fired"] if r["fired"] else ("user-exception", "-"))
            if k:
                ctx.count("fault.points")
                ctx.count("fault.points.%s" % plan["storage"])
                ctx.count("fault.out." + r["out"].split("@")[0])
                if r["fired"]:
                    ctx.count("fault.at.%s" % where)
                else:
                    ctx.count("fault.not_reached")
            else:
                ctx.count("fault.user_exception_runs")
            ctx.count("fault.checks.lock_free")
            if r["lock"] == "hang":
                ctx.fail("progress", "writer-attempt-blocks-after-failing-with-block:%s:%s" % (plan["storage"], where), w,
                         "ix.writer(timeout=0.05) neither returned nor raised LockError within 30 s")
                failed = True
                break
            if r["lock"] != "free":
                ctx.fail("progress", "lock-held-after-failing-with-block:%s:%s" % (plan["storage"], where), w,
                         "ix.writer(timeout=0.05) raised LockError after the with-block failed with %s" % r["out"])
                failed = True
                break
            if "after" in r:
                ctx.count("fault.checks.content_unchanged")
                g, keys, docs = r["after"]
                if g != r["g0"]:
                    ctx.fail("generation", "generation-changed-by-failing-with-block:%s" % where, dict(w, g0=r["g0"], g=g))
                    failed = True
                    break
                if keys != r["keys0"] or docs != r["docs0"]:
                    ctx.fail("lost-update", "content-changed-by-failing-with-block:%s" % where,
                             dict(w, before=r["keys0"], after=keys))
                    failed = True
                    break
            if "later_exc" in r:
                ctx.fail("progress", "later-writer-fails-after-failing-with-block:%s:exc:%s" % (where, r["later_exc"]), w,
                         r.get("tb", ""))
                failed = True
                break
            if r.get("lock_after_later") == "held":
                ctx.fail("progress", "lock-held-after-later-commit:%s" % where, w)
                failed = True
                break
            if "later" in r:
                ctx.count("fault.checks.later_commit")
                g, keys, docs = r["later"]
                exp = sorted(r["keys0"] + ["later"])
                if g != r["g0"] + 1:
                    ctx.fail("generation", "later-commit-advanced-generation-by-other-than-one:%s" % where,
                             dict(w, g0=r["g0"], g=g))
                    failed = True
                    break
                if keys != exp:
                    ctx.fail("lost-update", "content-after-later-commit:%s" % where, dict(w, expected=exp, observed=keys))
                    failed = True
                    break
        # ---- observation only: a fault INSIDE commit() (the statement promises nothing there)
        if not failed:
            c0 = fault_run(ctx, plan, tap, root, "commit", 0, seedtag)
            nc = c0["nevents"]
            for k in sorted(rng.sample(range(1, nc + 1), min(nc, ctx.pick(4, 6)))) if nc else []:
                r = fault_run(ctx, plan, tap, root, "commit", k, seedtag)
                ctx.count("obs.commit_fault.points")
                ctx.count("obs.commit_fault.out." + r["out"].split(":")[0])
                ctx.count("obs.commit_fault.lock_" + r["lock"])
                if r["lock"] == "hang":
                    break       # (a blocking lock: every further probe would cost the patience again)
                if r["lock"] == "held" and r["fired"]:
                    ctx.count("obs.commit_fault.lock_held.at.%s:%s" % r["fired"])
                if "cancel_after" in r:
                    ctx.count("obs.commit_fault.cancel_afterwards." + r["cancel_after"])
                    ctx.count("obs.commit_fault.lock_after_cancel." + r["lock_after_cancel"])
                if "after" in r:
                    g, keys, docs = r["after"]
                    if (g, keys) == (r["g0"], r["keys0"]):
                        ctx.count("obs.commit_fault.state.old")
                    elif g == r["g0"] + 1:
                        ctx.count("obs.commit_fault.state.new_generation")
                    else:
                        ctx.count("obs.commit_fault.state.other")
                if "later_exc" in r:
                    ctx.count("obs.commit_fault.later_writer_fails")
                elif "later" in r:
                    ctx.count("obs.commit_fault.later_commit_ok")
    finally:
        tap.on_event = None
        tap.uninstall()
        shutil.rmtree(root, ignore_errors=True)
    kinds = tuple(sorted(set(op[0] for op in plan["body"])))
    ctx.case(("io-fault", plan["storage"], plan["compound"], plan["front"], bool(plan["limitmb"]), kinds),
             nbody >= 3 and not failed,
             {"case": wb, "events_in_block": nbody} if (nbody >= 3 and idx % 7 == 0) else None)


# ----------------------------------------------------------------------
# TOC files that cannot be deleted (old generations' TOCs coexist with the current one)
# ----------------------------------------------------------------------

_STICKY = []


def sticky_storage(path):
    """A FileStorage (harness-only subclass) whose delete of *.toc files fails with OSError - what happens where another
    process still has the file open (Windows) or the directory is sticky. whoosh.index.clean_files() documents and swallows
    exactly that, so the TOC files of earlier generations survive successful commits. Segment files delete normally."""
    if not _STICKY:
        import errno
        from whoosh.filedb.filestore import FileStorage

        class StickyTocStorage(FileStorage):
            def delete_file(self, name):
                if name.endswith(".toc"):
                    raise OSError(errno.EACCES, "harness: TOC files cannot be deleted in this storage", name)
                return FileStorage.delete_file(self, name)
        _STICKY.append(StickyTocStorage)
    return _STICKY[0](path)


def old_tocs_present(d, gen):
    return sorted(int(m.group(1)) for m in (TOCRE.match(f) for f in os.listdir(d)) if m and int(m.group(1)) < gen)


def pad_generations(ix, upto):
    """Empty commits (each writes a new TOC) until latest_generation() == upto."""
    n = 0
    while ix.latest_generation() < upto:
        ix.writer().commit(merge=False)
        n += 1
    return n


def run_sticky_case(ctx, idx, rng):
    """Sequential writers on an index whose old TOC files stay: every commit must still advance latest_generation() by
    exactly one, a fresh reader must see exactly the committed history, the next writer must open and commit - in particular
    across a decimal digit boundary of the generation number (9 -> 10, thorough also 99 -> 100)."""
    from whoosh import index
    root = tempfile.mkdtemp(prefix="vf-c04s-")
    d = os.path.join(root, "ix")
    os.mkdir(d)
    target = 10 if (ctx.quick or rng.random() < 0.5) else 100
    compound = rng.random() < 0.7
    wb = {"case": idx, "kind": "undeletable-toc-files", "digit_boundary": target, "compound": compound, "steps": []}
    ctx.count("sticky.cases")
    failed = False
    crossed = 0
    try:
        st = sticky_storage(d)
        ix = st.create_index(make_schema())
        pad_generations(ix, target - rng.randint(2, 4))
        model = {}
        g = ix.latest_generation()
        wb["g0"] = g
        nsteps = rng.randint(5, 8)
        for step in range(nsteps):
            if rng.random() < 0.4:
                ix = st.open_index()          # a fresh Index object over the directory
            fin = rng.choice(["default", "default", "nomerge", "optimize", "with", "cancel", "exception"])
            rec = {"step": step, "finish": fin, "generation_before": g}
            wb["steps"].append(rec)
            try:
                w = ix.writer(timeout=0, compound=compound)
            except index.LockError:
                ctx.fail("progress", "sticky:next-writer-lockerror", wb, "ix.writer(timeout=0) after generation %d" % g)
                failed = True
                break
            ctx.count("sticky.writers")
            if w.generation != g + 1:
                rec["writer_generation"] = w.generation
                ctx.fail("generation", "sticky:writer.generation-not-latest-plus-one", wb,
                         "writer.generation %r with %d committed" % (w.generation, g))
                w.cancel()
                failed = True
                break
            adds = dict(("s%d.%d" % (step, i), gen_text(rng)) for i in range(rng.randint(1, 2)))
            dels = rng.sample(sorted(model), 1) if (model and rng.random() < 0.4) else []
            rec["adds"], rec["dels"] = sorted(adds), dels
            for key, text in sorted(adds.items()):
                w.add_document(id=key, t=text)
            for key in dels:
                w.delete_by_term("id", key)
            committed = fin not in ("cancel", "exception")
            older = old_tocs_present(d, g + 1)
            if fin == "cancel":
                w.cancel()
            elif fin == "exception":
                try:
                    with w:
                        raise Boom()
                except Boom:
                    pass
            elif fin == "with":
                with w:
                    pass
            else:
                w.commit(**commit_kwargs(fin))
            if committed:
                for key in dels:
                    model.pop(key, None)
                model.update(adds)
                ctx.count("sticky.commits")
                if len(older) >= 2:
                    ctx.count("sticky.commits_with_older_toc_files_present")
                if len(str(g + 1)) > len(str(g)) and g in older:
                    crossed += 1
                    ctx.count("sticky.commits_crossing_digit_boundary_with_older_toc_present")
                    ctx.count("sticky.crossing.%d" % (g + 1))
            exp_g = g + (1 if committed else 0)
            latest = ix.latest_generation()
            ix2 = index.open_dir(d)
            latest2 = ix2.latest_generation()
            rg, keys, docs = read_keys(ix2 if rng.random() < 0.5 else ix)
            ctx.count("sticky.reads")
            rec.update({"latest_generation": latest, "reader_generation": rg})
            if latest != exp_g or latest2 != exp_g:
                ctx.fail("generation", "sticky:latest_generation-advanced-by-other-than-%d-after-%s" % (
                    1 if committed else 0, "commit" if committed else fin), wb,
                    "expected %d, Index.latest_generation() says %d (re-opened: %d); TOC files of generations %r present" % (
                        exp_g, latest, latest2, old_tocs_present(d, 10 ** 9)))
                failed = True
                break
            if rg != exp_g:
                ctx.fail("lost-update", "sticky:fresh-reader-is-of-an-older-generation", wb,
                         "reader generation %r, committed generation %d" % (rg, exp_g))
                failed = True
                break
            if keys != sorted(model) or any(docs[kk] != model[kk] for kk in keys):
                ctx.fail("lost-update", "sticky:fresh-reader-differs-from-committed-history",
                         dict(wb, missing=sorted(set(model) - set(keys)), unexpected=sorted(set(keys) - set(model))))
                failed = True
                break
            g = exp_g
        if not failed:
            try:
                w = ix.writer(timeout=0)
                w.cancel()
                ctx.count("progress.fresh_writer_ok")
            except index.LockError:
                ctx.fail("progress", "sticky:index-still-locked-after-all-writers-finished", wb)
                failed = True
    finally:
        shutil.rmtree(root, ignore_errors=True)
    ctx.case(("sticky-toc", target, compound, tuple(r["finish"] for r in wb["steps"])), crossed > 0 and not failed,
             {"case": wb} if (crossed and idx % 5 == 0) else None)


# ----------------------------------------------------------------------
# MpWriter (procs=2) as one of the racing writers (subprocess, timeout guard)
# ----------------------------------------------------------------------

def run_mp_case(ctx, idx, rng):
    from vf.core import ROOT, repo_root
    k = idx // ctx.nshards
    per = ctx.pick(25, 50)
    mode = ["commit", "cancel", "mp-second", "with-exception"][(k // per) % 4]
    multiseg = bool(((k // per) // 4 + idx % ctx.nshards) % 2)
    root = tempfile.mkdtemp(prefix="vf-c04m-")
    wb = {"case": idx, "kind": "mpwriter-race", "mode": mode, "multisegment": multiseg}
    env = dict(os.environ)
    env["PYTHONPATH"] = ROOT + os.pathsep + env.get("PYTHONPATH", "")
    env["PYTHONHASHSEED"] = "0"
    env["VERIF_REPO"] = repo_root()
    ctx.count("mp.cases")
    ok = False
    try:
        try:
            r = subprocess.run([sys.executable, "-W", "ignore", "-m", "vf.workers.c04_mp", os.path.join(root), mode,
                                "1" if multiseg else "0", "%d:%d" % (ctx.seed, idx)],
                               cwd=ROOT, env=env, capture_output=True, text=True, timeout=120)
        except subprocess.TimeoutExpired:
            ctx.count("mp.watchdog")
            ctx.note("mp case %d (%s): worker exceeded 120 s" % (idx, mode))
            return
        lines = [ln for ln in r.stdout.splitlines() if ln.startswith("{")]
        o = json.loads(lines[-1]) if lines else {}
        w = dict(wb, observed=o)
        if r.returncode == 3:
            ctx.fail("no-exception", "mp:%s:exc:%s" % (mode, o.get("error", "?")), w, r.stderr[-1500:])
            return
        if r.returncode != 0 or not o:
            raise AssertionError("harness: c04_mp exit %s\n%s" % (r.returncode, r.stderr[-1500:]))
        ctx.count("mp.completed")
        ctx.count("mp.mode.%s.%s" % (mode, "multisegment" if multiseg else "merged"))
        SLACK = 0.010
        g0 = o["g0"]
        bad = []
        if mode == "mp-second":
            if o["mp_while_held"] != "lockerror":
                bad.append(("mutex", "mp:mpwriter-obtained-while-a-writer-held", ""))
            elif o["mp_while_held_waited"] + SLACK < o["small_timeout"]:
                bad.append(("timeout", "mp:lockerror-before-timeout-elapsed", ""))
            else:
                ctx.count("mp.lockerror.mpwriter_as_second")
            if o["nested_while_mp"] != "lockerror":
                bad.append(("mutex", "mp:second-writer-obtained-while-mpwriter-held:same-thread", ""))
            if o["g_after_first"] != g0 + 1 or o["g_after_mp"] != g0 + 2:
                bad.append(("generation", "mp:commit-advanced-generation-by-other-than-one",
                            "g0=%d after plain commit %d after MpWriter commit %d" % (g0, o["g_after_first"], o["g_after_mp"])))
            exp_gen_after = g0 + 2
        else:
            for where in ("same_thread", "other_thread", "other_process"):
                if o[where] == "lockerror":
                    ctx.count("mp.lockerror." + where)
                else:
                    bad.append(("mutex", "mp:second-writer-obtained-while-mpwriter-held:%s" % where.replace("_", "-"),
                                "the attempt returned %r" % (o[where],)))
            if o["same_thread"] == "lockerror" and o["same_thread_waited"] + SLACK < o["small_timeout"]:
                bad.append(("timeout", "mp:lockerror-before-timeout-elapsed", ""))
            if o["subwriters_running"]:
                ctx.count("mp.held_with_subwriters_running")
            if o["g_while_held"] != g0 or o["mp_generation_attr"] != g0 + 1:
                bad.append(("generation", "mp:generation-while-held", ""))
            exp_gen_after = g0 + (1 if mode == "commit" else 0)
            if o["g_after_mp"] != exp_gen_after:
                bad.append(("generation", "mp:%s-advanced-generation-by-%d" % (mode, o["g_after_mp"] - g0), ""))
            if o.get("alive_after_finish"):
                ctx.count("mp.obs.subwriters_alive_after_%s" % mode, o["alive_after_finish"])      # observation only
        if o["ids_after_mp"] != [x for x in o["expected_ids"] if x != "z"]:
            bad.append(("lost-update", "mp:%s:documents-after-mpwriter" % mode,
                        "expected %r observed %r" % ([x for x in o["expected_ids"] if x != "z"], o["ids_after_mp"])))
        if o["other_process_after"] != "ok" or o["fresh_writer"] != "ok":
            bad.append(("progress", "mp:still-locked-after-mpwriter-%s" % mode,
                        "other process: %r, fresh writer: %r" % (o["other_process_after"], o["fresh_writer"])))
        else:
            ctx.count("mp.progress.fresh_writer_ok")
            if o["g_final"] != exp_gen_after + 1:
                bad.append(("generation", "mp:later-commit-advanced-generation-by-other-than-one", ""))
            if o["ids_final"] != o["expected_ids"]:
                bad.append(("lost-update", "mp:%s:final-documents" % mode,
                            "expected %r observed %r" % (o["expected_ids"], o["ids_final"])))
        for (mon, mech, detail) in bad[:2]:
            ctx.fail(mon, mech, w, detail)
        ok = not bad
    finally:
        shutil.rmtree(root, ignore_errors=True)
        ctx.case(("mp", mode, multiseg), ok)


def run(ctx):
    nthread_cases = ctx.pick(400, 4000)
    for idx in ctx.cases(quick=nthread_cases, thorough=nthread_cases):
        rng = ctx.rng(idx)
        ctx.reseed_global(idx)
        k = idx // ctx.nshards
        t0 = time.time()
        if k % ctx.pick(25, 25) == 7:
            kind = "fork"
            run_fork_case(ctx, idx, rng)
        elif k % 20 == 2:
            kind = "fault"
            run_fault_case(ctx, idx, rng)
        elif k % ctx.pick(25, 50) == 13:
            kind = "mp"
            run_mp_case(ctx, idx, rng)
        elif k % 20 == 12:
            kind = "sticky"
            run_sticky_case(ctx, idx, rng)
        elif k % ctx.pick(40, 30) == 3:
            kind = "proc"
            run_proc_case(ctx, idx, rng)
        elif k % ctx.pick(4, 3) == 1:
            kind = "threads+lines"
            run_thread_case(ctx, idx, rng, lines=True)
        else:
            kind = "threads"
            run_thread_case(ctx, idx, rng)
        ctx.count("wall_ms." + kind, int((time.time() - t0) * 1000))      # (evidence only: where the budget went)
    ctx.extra.pop("_hashes", None)
    ctx.extra.pop("_inconclusive", None)
