"""C09 - scores are the documented composition of the weighting model's term scores.

Monitors (all on real searches of real indexes built from generated corpora):
 term      Hit.score of Term queries == reference formula (vf.refscore) whose inputs are re-derived
           from the model corpus: BM25F (B, K1, per-field B), TF_IDF, Frequency, PL2, DFree,
           MultiWeighting, ReverseWeighting, FunctionWeighting, and a final() hook.
 compose   score of a composite node == documented composition of its children's own search scores
           (sum over matching clauses for And/Or, max for DisjunctionMax, first operand for
           Require/AndNot, first + second-if-matching for AndMaybe, constant for ConstantScoreQuery),
           times the node's boost.
 constant  constant-score queries (ConstantScoreQuery; range/prefix/wildcard/fuzzy queries with the
           default constantscore=True) score every hit with the documented constant.
 context   the score of (doc, query) is the same with terms recording on/off, under a filter, under a
           limit, and (no deletions) for the same corpus split into several segments.
 collector every 5th case is a staged corpus (multi-block posting lists, strong documents early and late):
           40 block-skipping trees (And/Or/AndMaybe/Require/AndNot of frequent terms) searched with limit
           1, 2, 3, 5; every returned hit must carry the score it has in the exhaustive search.
"""
import math

LEVEL = "exploration"
RULE = ("case = (generated corpus with field/document boosts, lengths around the length-byte steps, 1..4 segments, deletions; "
        "weighting model + parameters; Term probes for every (field, word) and generated query trees); every hit's score is "
        "compared (rel 1e-6) with the reference / the composition of the children's scores / the same query in another context "
        "(terms recording, filter, limit; every 5th corpus is staged so that limited searches really skip posting blocks). "
        "Non-trivial: at least 2 hits with different scores; distinct = (monitor, query type tree, layout signature, model).")
ASSUMPTIONS = [
    "reference inputs: weight = float32(tf x field boost x document boost); length = smallest value >= true length of the table int(round((1.033**i-1)*27)); statistics over all documents physically in the index",
    "rel. tolerance 1e-6 (postings store float32 weights; sums are reassociated by the array union)",
    "DisjunctionMax tiebreak is generated as 0 (the statement says maximum over matching clauses)",
    "leaf scores used by the compose monitor are the leaf's own real search scores (their formula is the term monitor's subject)",
    "Not/Every as composite CHILDREN contribute their own search score (constant weight) like any matching clause",
]
SHARDS = {"quick": 6, "thorough": 16}
BUDGET_S = {"quick": 80, "thorough": 650}
FLOORS = {"c09.term.scores": 3000, "c09.compose.scores": 3000, "c09.constant.scores": 300, "c09.context.scores": 3000,
          "c09.layout.scores": 300, "c09.collector.scores": 2000}
REL = 1e-6


def near(a, b):
    return a == b or abs(a - b) <= REL * max(1.0, abs(a), abs(b))


def gen_weighting(rng):
    """(name, whoosh weighting, reference fn(st, doc, field, term) -> score)"""
    from whoosh import scoring
    from vf import refscore as R
    r = rng.random()
    if r < 0.3:
        B, K1 = rng.choice([0.0, 0.5, 0.75, 1.0]), rng.choice([0.5, 1.2, 2.0])
        tB = rng.choice([None, None, 0.0, 0.3, 1.0])
        kw = {} if tB is None else {"t_B": tB}

        def ref(st, d, f, term):
            return R.bm25f(st, d, f, term, B=(tB if (tB is not None and f == "t") else B), K1=K1)
        return "BM25F(B=%s,K1=%s,t_B=%s)" % (B, K1, tB), scoring.BM25F(B=B, K1=K1, **kw), ref
    if r < 0.42:
        return "TF_IDF", scoring.TF_IDF(), R.tf_idf
    if r < 0.52:
        return "Frequency", scoring.Frequency(), R.frequency
    if r < 0.62:
        c = rng.choice([0.5, 1.0, 3.0])
        return "PL2(c=%s)" % c, scoring.PL2(c=c), lambda st, d, f, term: R.pl2(st, d, f, term, c=c)
    if r < 0.72:
        return "DFree", scoring.DFree(), R.dfree
    if r < 0.8:
        def ref(st, d, f, term):
            return R.frequency(st, d, f, term) if f == "k" else (R.tf_idf(st, d, f, term) if f == "u" else R.bm25f(st, d, f, term))
        return "Multi(BM25F,k=Frequency,u=TF_IDF)", scoring.MultiWeighting(scoring.BM25F(), k=scoring.Frequency(), u=scoring.TF_IDF()), ref
    if r < 0.87:
        return "Reverse(BM25F)", scoring.ReverseWeighting(scoring.BM25F()), lambda st, d, f, term: 0 - R.bm25f(st, d, f, term)
    if r < 0.93:
        fn = lambda searcher, fieldname, text, matcher: matcher.weight() * 0.5 + 1  # noqa
        return "Function(w/2+1)", scoring.FunctionWeighting(fn), lambda st, d, f, term: st.weight(d, f, term) * 0.5 + 1

    class FinalBM25F(scoring.BM25F):
        use_final = True

        def final(self, searcher, docnum, score):
            # depends on the document itself (documented use: adjust the score from a stored field of the hit): the
            # searcher / document number pair handed to final() must identify the document being scored
            return score * 2.0 + 1.0 + final_bonus(searcher.stored_fields(docnum)["id"])
    return ("BM25F+final(2s+1+bonus(doc))", FinalBM25F(),
            lambda st, d, f, term: R.bm25f(st, d, f, term) * 2.0 + 1.0 + final_bonus(d["id"]))


def final_bonus(key):
    return 0.25 * (int(key) % 4)


COMPOSITE = ("And", "Or", "DisjunctionMax", "Require", "AndNot", "AndMaybe", "ConstantScoreQuery")


def hits(s, q, **kw):
    return {h.docnum: h.score for h in s.search(q, limit=None, **kw)}


def expect(s, q, cache, final=None):
    """Documented composition of the children's scores; leaves are scored by their own real search.
    Works on pre-final scores: when the model applies final(), leaf scores are un-finalised through `final`."""
    from whoosh import query
    name = type(q).__name__
    key = id(q)
    if key in cache:
        return cache[key]
    boost = getattr(q, "boost", 1.0)
    if q is query.NullQuery:
        res = {}
    elif isinstance(q, (query.And, query.Or, query.DisjunctionMax)) and type(q).__name__ in COMPOSITE:
        subs = [expect(s, c, cache, final) for c in q.subqueries]
        if not subs:
            res = {}
        elif isinstance(q, query.And):
            docs = set(subs[0])
            for m in subs[1:]:
                docs &= set(m)
            res = {d: sum(m[d] for m in subs) * boost for d in docs}
        elif isinstance(q, query.DisjunctionMax):
            docs = set().union(*[set(m) for m in subs])
            res = {d: max(m[d] for m in subs if d in m) * boost for d in docs}
        else:
            docs = set().union(*[set(m) for m in subs])
            res = {d: sum(m[d] for m in subs if d in m) * boost for d in docs}
    elif isinstance(q, query.Require):
        a, b = expect(s, q.a, cache, final), expect(s, q.b, cache, final)
        res = {d: a[d] for d in a if d in b}
    elif isinstance(q, query.AndNot):
        a, b = expect(s, q.a, cache, final), expect(s, q.b, cache, final)
        res = {d: a[d] for d in a if d not in b}
    elif isinstance(q, query.AndMaybe):
        a, b = expect(s, q.a, cache, final), expect(s, q.b, cache, final)
        res = {d: a[d] + b.get(d, 0.0) for d in a}
    elif isinstance(q, query.ConstantScoreQuery):
        c = expect(s, q.child, cache, final)
        res = {d: q.score for d in c}
    else:
        res = hits(s, q)
        if final is not None:
            res = {d: final(d, sc) for d, sc in res.items()}
    cache[key] = res
    return res


def gen_tree(rng, depth):
    """Composite trees whose leaves are arbitrary (boosted) queries."""
    from whoosh import query
    from vf import model
    if depth == 0 or rng.random() < 0.3:
        q = model.gen_leaf(rng, fuzzy=True, scoring=True)
        if rng.random() < 0.1:
            q = query.Not(model.gen_leaf(rng, scoring=False))
        return q

    def sub():
        return gen_tree(rng, depth - 1)
    r = rng.random()
    if r < 0.25:
        q = query.And([sub() for _ in range(rng.randint(1, 3))])
    elif r < 0.5:
        q = query.Or([sub() for _ in range(rng.choice([1, 2, 3, 4, 5]))])
    elif r < 0.62:
        q = query.DisjunctionMax([sub() for _ in range(rng.randint(1, 3))])
    elif r < 0.72:
        q = query.Require(sub(), sub())
    elif r < 0.82:
        q = query.AndNot(sub(), sub())
    elif r < 0.92:
        q = query.AndMaybe(sub(), sub())
    else:
        q = query.ConstantScoreQuery(sub(), score=rng.choice([0.5, 1.0, 4.0]))
    if isinstance(q, (query.And, query.Or, query.DisjunctionMax)) and rng.random() < 0.3:
        q = q.with_boost(rng.choice([0.5, 2.0, 3.0]))
    return q


def has_null(q):
    from whoosh import query
    if q is query.NullQuery:
        return True
    return any(has_null(c) for c in q.children())


def run(ctx):
    from whoosh import query, sorting
    from vf import model, refscore
    model.check_analysis()
    for idx in ctx.cases(quick=90, thorough=360):
        rng = ctx.rng(idx)
        ctx.reseed_global(idx)
        h = model.gen_history(rng, ndocs=(3, 60), boosts=rng.random() < 0.5, maxlen=rng.choice([6, 14, 40]), burst=rng.choice([0.0, 0.1]),
                              delete_modes=("none", "none", "few", "many"))
        staged = (idx % 5 == 2)
        if staged:
            # long multi-block posting lists with a few strong documents early and late: limited searches skip blocks and
            # rewrite the matcher tree here, and the score of a returned document must not depend on that
            h = model.gen_staged_history(rng)
            ctx.count("c09.staged_cases")
        fb = rng.random() < 0.5      # exactly representable boosts only: see the note in vf.model.gen_doc
        wname, wobj, ref = gen_weighting(rng)
        mname = wname.split("(")[0]
        wb = {"history": {"commits": [len(c) for c in h["commits"]], "deletes": len(h["deletes"]),
                          "blocklimit": h["blocklimit"], "storage": h["storage"]}, "case_idx": idx, "weighting": wname,
              "field_boosts": fb}
        ok, built = ctx.guard("c09.build", wb, model.build, h, field_boosts=fb)
        if not ok:
            continue
        sig = model.layout_sig(h)
        schema = built.ix.schema
        st = refscore.Stats(built.alldocs, {n: getattr(f.format, "field_boost", 1.0) if f.format else 1.0 for n, f in schema.items()})
        is_final = "final" in wname
        try:
            psz = model.partsize_for(idx)
            if psz is not None:
                ctx.count("c09.small_array_parts")
                wb["array_partsize(default of ArrayUnionMatcher)"] = psz
            with model.array_partsize(psz), built.ix.searcher(weighting=wobj) as s:
                key_of = lambda dn: s.stored_fields(dn)["id"]  # noqa
                # ---- term monitor
                for f, vocab in (("t", model.VOCAB), ("u", model.VOCAB[:8]), ("k", model.KVOCAB)):
                    for word in vocab:
                        if st.df(f, word) == 0:
                            continue
                        q = query.Term(f, word)
                        w = dict(wb, query=repr(q))
                        ok, got = ctx.guard("c09.term", w, hits, s, q)
                        if not ok:
                            continue
                        scores = set()
                        for dn, sc in got.items():
                            d = built.alldocs[key_of(dn)]
                            try:
                                exp = ref(st, d, f, word)
                            except (ValueError, ZeroDivisionError):
                                ctx.count("c09.term.reference_undefined")
                                continue
                            ctx.count("c09.term.scores")
                            scores.add(round(sc, 9))
                            if not near(sc, exp):
                                ctx.fail("c09.term", "term-score:%s:%s" % (mname, "multiseg" if len(h["commits"]) > 1 else "oneseg"),
                                         dict(w, doc=d, observed=sc, expected=exp,
                                              inputs={"weight": st.weight(d, f, word), "length": st.length(d, f), "N": st.N,
                                                      "df": st.df(f, word), "avgfl": st.avgfl(f), "cf": st.cf(f, word)}),
                                         "score %r, reference %r" % (sc, exp))
                                break
                        ctx.case(("term", f, sig, mname), len(scores) >= 2)
                # ---- collector independence under block skipping (staged corpora)
                if staged:
                    for _ in range(40):
                        q = model.gen_skip_stress(rng)
                        w = dict(wb, query=repr(q))
                        ok, full = ctx.guard("c09.collector", w, hits, s, q)
                        if not ok:
                            continue
                        for k in (1, 2, 3, 5):
                            ok, top = ctx.guard("c09.collector", dict(w, k=k), lambda: [(hh.docnum, hh.score) for hh in s.search(q, limit=k)])
                            if not ok:
                                break
                            bad = [(dn, sc) for dn, sc in top if dn in full and not near(sc, full[dn])]
                            ctx.count("c09.collector.scores", len(top))
                            if bad:
                                dn, sc = bad[0]
                                ctx.fail("c09.collector", "limit-vs-exhaustive-score:%s:%s" % (type(q).__name__, mname),
                                         dict(w, k=k, doc=dn, limited=sc, exhaustive=full[dn]),
                                         "doc %d scores %r with limit=%d but %r with limit=None" % (dn, sc, k, full[dn]))
                                break
                        ctx.case(("collector", model.qshape(q), mname), len(full) > 5)
                # ---- compose / constant / context monitors
                unfinal = (lambda dn, sc: (sc - 1.0 - final_bonus(key_of(dn))) / 2.0) if is_final else None
                for _ in range(10):
                    q = gen_tree(rng, rng.choice([1, 2, 2, 3]))
                    w = dict(wb, query=repr(q))

                    def body():
                        got = hits(s, q)
                        exp = expect(s, q, {}, unfinal)
                        if is_final:
                            exp = {d: sc * 2.0 + 1.0 + final_bonus(key_of(d)) for d, sc in exp.items()}
                        return got, exp
                    ok, res = ctx.guard("c09.compose", w, body)
                    if not ok:
                        continue
                    got, exp = res
                    if set(got) != set(exp):
                        # matched-set differences are C01's subject; composition is only judged on agreeing sets
                        ctx.count("c09.compose.set_mismatch_skipped")
                        continue
                    bad = None
                    for dn in sorted(got):
                        ctx.count("c09.compose.scores")
                        if not near(got[dn], exp[dn]):
                            bad = dn
                            break
                    if bad is not None:
                        ctx.fail("c09.compose", "compose:%s:%s" % (type(q).__name__, mname),
                                 dict(w, doc=bad, observed=got[bad], expected=exp[bad]),
                                 "doc %d scores %r, composition of the children's scores gives %r" % (bad, got[bad], exp[bad]))
                    ctx.case(("compose", model.qshape(q), sig, mname), len(set(round(v, 9) for v in got.values())) >= 2,
                             sample=dict(w, hits=len(got)) if ctx.evaluations % 200 == 0 else None)
                    # context: terms recording, filter, ScoreFacet
                    if bad is None and got:
                        flt = query.Or([query.Term("k", "red"), query.Term("k", "green"), query.Term("t", "alfa")])

                        def ctxbody():
                            out = {}
                            out["terms"] = hits(s, q, terms=True)
                            out["filter"] = hits(s, q, filter=flt)
                            out["limit3"] = {hh.docnum: hh.score for hh in s.search(q, limit=3)}
                            return out
                        ok, alt = ctx.guard("c09.context", w, ctxbody)
                        if ok:
                            for name, other in alt.items():
                                for dn, sc in other.items():
                                    if dn not in got:
                                        continue
                                    ctx.count("c09.context.scores")
                                    if not near(sc, got[dn]):
                                        ctx.fail("c09.context", "context:%s:%s" % (name, mname), dict(w, doc=dn, context=name, plain=got[dn], other=sc),
                                                 "doc %d scores %r plainly but %r with %s" % (dn, got[dn], sc, name))
                                        break
                # ---- constant-score leaves
                if not is_final:
                    for _ in range(6):
                        b = rng.choice([1.0, 1.0, 0.5, 3.0])
                        r = rng.random()
                        if r < 0.2:
                            q, const = query.Prefix("t", rng.choice(["a", "al", "b", "brav"]), boost=b), b
                        elif r < 0.35:
                            q, const = query.Wildcard("t", rng.choice(["a*", "*a", "b?avo", "*o*"]), boost=b), b
                        elif r < 0.5:
                            lo, hi = sorted([rng.choice(model.VOCAB), rng.choice(model.VOCAB)])
                            q, const = query.TermRange("t", lo, hi, boost=b), b
                        elif r < 0.65:
                            lo, hi = sorted([rng.randint(-6, 6), rng.randint(-6, 6)])
                            q, const = query.NumericRange("n", lo, hi, boost=b), b
                        elif r < 0.8:
                            q, const = query.FuzzyTerm("t", rng.choice(model.VOCAB), boost=b, maxdist=1, prefixlength=1), b
                        else:
                            sc = rng.choice([0.5, 1.0, 4.0])
                            q, const = query.ConstantScoreQuery(model.gen_leaf(rng, scoring=True), score=sc), sc
                        if has_null(q):
                            continue
                        w = dict(wb, query=repr(q), constant=const)
                        for cname, kw in (("plain", {}), ("terms", {"terms": True})):
                            ok, got = ctx.guard("c09.constant", w, hits, s, q, **kw)
                            if not ok:
                                continue
                            for dn, sc in got.items():
                                ctx.count("c09.constant.scores")
                                exp = -const if mname == "Reverse" and False else const
                                if not near(sc, exp):
                                    ctx.fail("c09.constant", "constant:%s:%s" % (type(q).__name__, cname),
                                             dict(w, doc=dn, observed=sc, context=cname),
                                             "constant-score query scores doc %d with %r instead of %r" % (dn, sc, exp))
                                    break
                            ctx.case(("constant", type(q).__name__, cname, sig), len(got) >= 2)
            # ---- layout independence (no deletions): same documents in ONE segment
            if not h["deletes"] and len(h["commits"]) > 1:
                h1 = dict(h, commits=[[d for c in h["commits"] for d in c]])
                ok, b1 = ctx.guard("c09.build", wb, model.build, h1, field_boosts=fb)
                if ok:
                    try:
                        with built.ix.searcher(weighting=wobj) as s, b1.ix.searcher(weighting=wobj) as s1:
                            for _ in range(8):
                                q = gen_tree(rng, rng.choice([0, 1, 2]))
                                w = dict(wb, query=repr(q))

                                def lbody():
                                    a = {s.stored_fields(hh.docnum)["id"]: hh.score for hh in s.search(q, limit=None)}
                                    b = {s1.stored_fields(hh.docnum)["id"]: hh.score for hh in s1.search(q, limit=None)}
                                    return a, b
                                ok, res = ctx.guard("c09.layout", w, lbody)
                                if not ok:
                                    continue
                                a, b = res
                                for k in a:
                                    if k in b:
                                        ctx.count("c09.layout.scores")
                                        if not near(a[k], b[k]):
                                            ctx.fail("c09.layout", "layout:%s:%s" % (type(q).__name__, mname), dict(w, key=k, split=a[k], single=b[k]),
                                                     "doc %s scores %r in the split index, %r in the one-segment index" % (k, a[k], b[k]))
                                            break
                                ctx.case(("layout", model.qshape(q), sig, mname), len(a) >= 2)
                    finally:
                        b1.close()
        finally:
            built.close()
